/-
Model of the module-import mechanism of yarel (src/vm.rs `start_import_impl`, `finish_import_impl`,
`Vm::module`, `init_built_in_globals`, `load_frame`, `get_global_impl` / `define_global_impl` /
`set_global_impl`, `get_property_impl` / `set_property_impl` on module objects, `call_closure`,
`unwind_stack`; src/compiler.rs `import_statement`).

What is transcribed (bug-compatibly):

* `Vm::modules` is a map path → module object; `Vm::module(path)` returns the registered object or registers a
  new one (`imported = false`, no attributes). A module object's identity is therefore its path: the model's
  module value is `Val.module path`, and the registry is an association list keyed by path.
* Globals ARE the attributes of `active_module`; `load_frame` sets `active_module` from the closure of the frame on
  top, so it changes exactly when a frame is pushed (body of an imported module), popped (`return`) or frames are
  truncated by `unwind_stack`.  The model keeps `active` and the list `callers` of the modules of the frames below.
* `start_import_impl`, in this order:
    1. path registered:  `imported` → the cached object (nothing else happens);
                         not `imported` → ImportError "Circular dependency encountered when importing module '<path>'."
    2. loader error → raised at the importing statement, registry unchanged;
    3. compile error → ImportError "Error compiling module:" …, registry unchanged (`self.module(&path)` is only
       reached after a successful compile);
    4. `self.module(&path)` registers the module (`imported = false`, NO attributes yet);
       `call_value`: if the fiber already has `FRAMES_MAX` (= 64) frames → IndexError "Stack overflow." raised at the
       importing statement – the module STAYS registered, not imported, without built-ins, its body never runs;
       (if that error is caught, `start_import_impl` continues and re-seeds the built-ins of whichever module is
       active after unwinding, i.e. the catching module: `State.reseedAfterOverflow`);
       otherwise a frame is pushed (active module := the new module), the built-ins are seeded into it, the body runs.
    5. `FinishImport` (executed by the importing frame after the body returned) sets `imported = true`.
  If the body raises, the exception propagates to the importing statement; nothing un-registers the module, so it
  stays registered with `imported = false` for the lifetime of the interpreter (until `reset`): every later import
  of it reports "Circular dependency…" (`failed_body_poisons` in Props/C14.lean).
* `import "path" as name;` binds `name` (default: last path component) to the module object after `FinishImport`;
  at top level that is `DefineGlobal name` in the importing module.

Abstraction: module sources are lists of `Action`s (top-level statements); paths, names and tags are `Nat`s;
the only values are `nil`, numbers, the built-in objects and module objects. Module objects are never literals:
the only way to obtain one is an import statement – as in the language. Functions are not modelled (an import statement
inside a function runs with `active` = the module that DEFINED the function, like a top-level statement of that module,
except that its binding is a local); neither are fibers (each fiber has its own frame stack).
The root script runs as module `mainPath` (what `Vm::with_built_ins` + `interpret(…, None)` do).
-/
namespace Yarel.Modules

/-! ### association lists (first match wins; `HashMap::get/insert`) -/

def aget {β : Type} : List (Nat × β) → Nat → Option β
  | [], _ => none
  | (k, v) :: t, q => if k = q then some v else aget t q

/-- modify the entry of `q` if there is one. -/
def amod {β : Type} (f : β → β) : List (Nat × β) → Nat → List (Nat × β)
  | [], _ => []
  | (k, v) :: t, q => if k = q then (k, f v) :: t else (k, v) :: amod f t q

/-- `HashMap::insert`: replace or add. -/
def aset {β : Type} (l : List (Nat × β)) (k : Nat) (v : β) : List (Nat × β) :=
  match aget l k with
  | some _ => amod (fun _ => v) l k
  | none => l ++ [(k, v)]

def keys {β : Type} (l : List (Nat × β)) : List Nat := l.map Prod.fst

/-! ### values, errors, events -/

inductive Val
  | nil
  | num (n : Nat)
  /-- the built-in object seeded under built-in name `n` (`clock`, `print`, `Object`, …) -/
  | builtin (n : Nat)
  /-- the module object registered under path `p` -/
  | module (p : Nat)
  deriving DecidableEq, Repr

inductive Err
  /-- ImportError "Circular dependency encountered when importing module '<p>'." -/
  | circular (p : Nat)
  /-- the error the module loader returned for `p` (default loader: ImportError "Unable to read file …") -/
  | loader (p : Nat)
  /-- ImportError "Error compiling module:" + the indented compiler messages -/
  | compile (p : Nat)
  /-- IndexError "Stack overflow." from `call_closure` (`frames.len() == FRAMES_MAX`) -/
  | stackOverflow
  /-- NameError "Undefined variable '<n>'." -/
  | undefinedVar (n : Nat)
  /-- AttributeError "Undefined property '<n>'." -/
  | noProperty (n : Nat)
  /-- AttributeError "Only instances have fields." -/
  | notInstance
  /-- a runtime error raised by the module's own code (`Action.fail`) -/
  | runtime (tag : Nat)
  /-- model-internal: the active module, or the target of a module value, is not registered. Cannot happen in the
  interpreter (these are pointers to live objects); proved unreachable from well-formed states (`no_fault`). -/
  | fault
  deriving DecidableEq, Repr

/-- the three import failures of the property statement (with the default loader). -/
def Err.isImportError : Err → Bool
  | .circular _ | .loader _ | .compile _ => true
  | _ => false

inductive Event
  /-- the top-level code of `p` starts executing -/
  | bodyStart (p : Nat)
  /-- … returned, `FinishImport` marked it imported -/
  | bodyEnd (p : Nat)
  /-- … raised `e` -/
  | bodyFail (p : Nat) (e : Err)
  /-- module `m` bound global `name` to the module object of `p` (end of a successful import statement) -/
  | bound (m name p : Nat)
  /-- module `m` caught `e` raised by an import statement -/
  | caught (m : Nat) (e : Err)
  /-- `GetGlobal name` executed with active module `m` produced `v` -/
  | readG (m name : Nat) (v : Val)
  /-- `GetProperty attr` executed by `m` on the module object `target` produced `v` -/
  | readA (m target attr : Nat) (v : Val)
  | printed (m tag : Nat)
  deriving DecidableEq, Repr

/-- the module whose attribute table an event read from. -/
def Event.target? : Event → Option Nat
  | .readG m _ _ => some m
  | .readA _ t _ _ => some t
  | _ => none

def Event.isStart : Event → Bool
  | .bodyStart _ => true
  | _ => false

/-! ### sources -/

/-- top-level statements of a module. -/
inductive Action
  /-- `var name = n;` – `DefineGlobal` -/
  | define (name n : Nat)
  /-- `name = n;` – `SetGlobal` (NameError if undefined) -/
  | assign (name n : Nat)
  /-- `import "path" as bind;` -/
  | importMod (path bind : Nat)
  /-- `var bind; try { import "path" as t; bind = t; } catch (e) { print(e); }` – an import whose failure is caught
  by the importing module, which then continues -/
  | tryImport (path bind : Nat)
  /-- `print(name);` for a global `name` -/
  | readGlobal (name : Nat)
  /-- `var.attr = n;` -/
  | setAttr (var attr n : Nat)
  /-- `print(var.attr);` -/
  | readAttr (var attr : Nat)
  /-- `throw …` -/
  | fail (tag : Nat)
  | print (tag : Nat)
  deriving DecidableEq, Repr

/-- what the loader + compiler make of a path. -/
inductive Source
  | notFound
  | compileError
  | body (acts : List Action)
  deriving DecidableEq, Repr

structure Cfg where
  /-- the module loader: paths not listed are `notFound` -/
  prog : List (Nat × Source)
  /-- `common::FRAMES_MAX` -/
  framesMax : Nat := 64

def Cfg.load (cfg : Cfg) (p : Nat) : Source :=
  match aget cfg.prog p with
  | some s => s
  | none => .notFound

/-! ### interpreter state -/

/-- `ObjModule { imported, attributes }` (`class` is the same for all, `path` is the registry key). -/
structure ModEntry where
  imported : Bool
  attrs : List (Nat × Val)
  deriving DecidableEq, Repr

structure State where
  /-- `Vm::modules` -/
  registry : List (Nat × ModEntry)
  /-- `Vm::active_module` (the module of the closure of the top frame) -/
  active : Nat
  /-- the modules of the frames below the top one, innermost first -/
  callers : List Nat
  log : List Event
  deriving DecidableEq, Repr

/-- the number of built-in names `init_built_in_globals` seeds: `clock type print Type Object Nil Bool Num Func
BuiltIn Method BuiltInMethod String Iter MapIter FilterIter Tuple Vec Range HashMap Fiber`; built-in name `i` is the
`Nat` `i < numBuiltins`. -/
def numBuiltins : Nat := 21

def builtinLabels : List String :=
  ["clock", "type", "print", "Type", "Object", "Nil", "Bool", "Num", "Func", "BuiltIn", "Method", "BuiltInMethod",
   "String", "Iter", "MapIter", "FilterIter", "Tuple", "Vec", "Range", "HashMap", "Fiber"]

/-- `init_built_in_globals` on one attribute table (inserts, i.e. overwrites). -/
def seedAttrs (attrs : List (Nat × Val)) : List (Nat × Val) :=
  (List.range numBuiltins).foldl (fun acc b => aset acc b (.builtin b)) attrs

def ModEntry.seed (e : ModEntry) : ModEntry := { e with attrs := seedAttrs e.attrs }
def ModEntry.setAttr (a : Nat) (v : Val) (e : ModEntry) : ModEntry := { e with attrs := aset e.attrs a v }
def ModEntry.finish (e : ModEntry) : ModEntry := { e with imported := true }

/-- the path of the root script's module. -/
def mainPath : Nat := 0

/-- `Vm::with_built_ins()` at the start of `execute` of the main script. -/
def boot : State :=
  { registry := [(mainPath, ModEntry.seed ⟨false, []⟩)], active := mainPath, callers := [], log := [.bodyStart mainPath] }

/-- registry state of a path, as the `import_start` hook reports it. -/
inductive RegState
  | absent | loading | cached
  deriving DecidableEq, Repr

def regState (reg : List (Nat × ModEntry)) (p : Nat) : RegState :=
  match aget reg p with
  | none => .absent
  | some e => if e.imported then .cached else .loading

def isReg (reg : List (Nat × ModEntry)) (p : Nat) : Bool := (aget reg p).isSome

def isImported (reg : List (Nat × ModEntry)) (p : Nat) : Bool :=
  match aget reg p with
  | some e => e.imported
  | none => false

def isLoading (reg : List (Nat × ModEntry)) (p : Nat) : Bool :=
  match aget reg p with
  | some e => !e.imported
  | none => false

def State.logEv (st : State) (ev : Event) : State := { st with log := st.log ++ [ev] }

/-- attribute `a` of the module object `q`. -/
def State.getAttr (st : State) (q a : Nat) : Option Val :=
  match aget st.registry q with
  | some e => aget e.attrs a
  | none => none

/-- `GetGlobal`: the attributes of the active module. -/
def State.getGlobal (st : State) (n : Nat) : Option Val := st.getAttr st.active n

/-- `attributes.insert` on module object `q`. -/
def State.setAttr (st : State) (q a : Nat) (v : Val) : State :=
  { st with registry := amod (ModEntry.setAttr a v) st.registry q }

/-- `DefineGlobal`. -/
def State.setGlobal (st : State) (n : Nat) (v : Val) : State := st.setAttr st.active n v

/-- the attribute table of `q` (empty if unregistered; used in statements only). -/
def State.attrsOf (st : State) (q : Nat) : List (Nat × Val) :=
  match aget st.registry q with
  | some e => e.attrs
  | none => []

/-- all modules with a frame on the stack. -/
def State.stack (st : State) : List Nat := st.active :: st.callers

/-- step 4 of `start_import_impl`: `self.module(&path)` for an unregistered path. -/
def State.register (st : State) (p : Nat) : State :=
  { st with registry := st.registry ++ [(p, ⟨false, []⟩)] }

/-- `call_value` pushed the frame of `p`'s body, `load_frame` made `p` active, `init_built_in_globals(p)`. -/
def State.enterBody (st : State) (p : Nat) : State :=
  { registry := amod ModEntry.seed st.registry p
    active := p
    callers := st.active :: st.callers
    log := st.log ++ [.bodyStart p] }

/-- the body of `p` returned into the importing frame (`importer` = state at the import statement) and
`finish_import_impl` ran. -/
def State.finishImport (importer body : State) (p : Nat) : State :=
  { registry := amod ModEntry.finish body.registry p
    active := importer.active
    callers := importer.callers
    log := body.log ++ [.bodyEnd p] }

/-- the body of `p` raised `e`: the frames above the importing statement's are gone, the module stays as it is. -/
def State.abortImport (importer body : State) (p : Nat) (e : Err) : State :=
  { registry := body.registry
    active := importer.active
    callers := importer.callers
    log := body.log ++ [.bodyFail p e] }

/-- `start_import_impl` continuing after a CAUGHT "Stack overflow." of its `call_value`:
`init_built_in_globals(active_module.path)` on the module that caught it. -/
def State.reseedAfterOverflow (st : State) : State :=
  { st with registry := amod ModEntry.seed st.registry st.active }

/-- `Vm::reset`: only "main" survives, with fresh attributes and the built-ins (its `imported` flag is untouched;
it is never set for "main"). -/
def resetRegistry (reg : List (Nat × ModEntry)) : List (Nat × ModEntry) :=
  match aget reg mainPath with
  | some e => [(mainPath, ModEntry.seed { e with attrs := [] })]
  | none => [(mainPath, ModEntry.seed ⟨false, []⟩)]

def State.reset (st : State) : State :=
  { registry := resetRegistry st.registry, active := mainPath, callers := [], log := [] }

/-! ### execution -/

inductive Outcome
  | ok (st : State)
  /-- an exception is propagating; `st` is the state in the frame the result is reported to -/
  | err (e : Err) (st : State)
  | outOfFuel
  deriving DecidableEq, Repr

/-- `StartImport path … FinishImport`, with `run` executing a module body in the state it is given. -/
def importWith (cfg : Cfg) (run : State → List Action → Outcome) (st : State) (p : Nat) : Outcome :=
  match aget st.registry p with
  | some ent =>
    if ent.imported then .ok st
    else .err (.circular p) st
  | none =>
    match cfg.load p with
    | .notFound => .err (.loader p) st
    | .compileError => .err (.compile p) st
    | .body acts =>
      let st1 := st.register p
      if st.callers.length + 1 = cfg.framesMax then .err .stackOverflow st1
      else
        match run (st1.enterBody p) acts with
        | .ok st3 => .ok (State.finishImport st st3 p)
        | .err e st3 => .err e (State.abortImport st st3 p e)
        | .outOfFuel => .outOfFuel

/-- the binding at the end of a successful import statement (`DefineGlobal bind`). -/
def State.bindImport (st : State) (bind p : Nat) : State :=
  (st.setGlobal bind (.module p)).logEv (.bound st.active bind p)

/-- the catch block of `Action.tryImport`. -/
def State.catchImport (st : State) (e : Err) : State :=
  (if e = .stackOverflow then st.reseedAfterOverflow else st).logEv (.caught st.active e)

/-- one top-level statement of the active module. -/
def stepWith (cfg : Cfg) (run : State → List Action → Outcome) (st : State) (a : Action) : Outcome :=
  match aget st.registry st.active with
  | none => .err .fault st
  | some ent =>
    match a with
    | .define n v => .ok (st.setGlobal n (.num v))
    | .assign n v =>
      match aget ent.attrs n with
      | some _ => .ok (st.setGlobal n (.num v))
      | none => .err (.undefinedVar n) st
    | .importMod p b =>
      match importWith cfg run st p with
      | .ok st' => .ok (st'.bindImport b p)
      | o => o
    | .tryImport p b =>
      match importWith cfg run st p with
      | .ok st' => .ok (st'.bindImport b p)
      | .err e st' => .ok (st'.catchImport e)
      | .outOfFuel => .outOfFuel
    | .readGlobal n =>
      match aget ent.attrs n with
      | some v => .ok (st.logEv (.readG st.active n v))
      | none => .err (.undefinedVar n) st
    | .readAttr x a =>
      match aget ent.attrs x with
      | none => .err (.undefinedVar x) st
      | some (.module q) =>
        match aget st.registry q with
        | none => .err .fault st
        | some tgt =>
          match aget tgt.attrs a with
          | some v => .ok (st.logEv (.readA st.active q a v))
          | none => .err (.noProperty a) st
      | some _ => .err (.noProperty a) st
    | .setAttr x a v =>
      match aget ent.attrs x with
      | none => .err (.undefinedVar x) st
      | some (.module q) =>
        match aget st.registry q with
        | none => .err .fault st
        | some _ => .ok (st.setAttr q a (.num v))
      | some _ => .err .notInstance st
    | .fail t => .err (.runtime t) st
    | .print t => .ok (st.logEv (.printed st.active t))

/-- run the statements `acts` of the active module; an uncaught error stops the body. -/
def exec (cfg : Cfg) : Nat → State → List Action → Outcome
  | _, st, [] => .ok st
  | 0, _, _ :: _ => .outOfFuel
  | fuel + 1, st, a :: rest =>
    match stepWith cfg (exec cfg fuel) st a with
    | .ok st' => exec cfg fuel st' rest
    | o => o

/-- `start_import_impl` + body + `finish_import_impl` for one import of `p` in state `st`. -/
def startImport (cfg : Cfg) (fuel : Nat) (st : State) (p : Nat) : Outcome :=
  importWith cfg (exec cfg fuel) st p

def runBody := exec

/-! ### fuel -/

/-- total weight of the loader entries whose path is not registered. -/
def pend (w : Source → Nat) : List (Nat × Source) → List (Nat × ModEntry) → Nat
  | [], _ => 0
  | (p, s) :: t, reg => (if isReg reg p then 0 else w s) + pend w t reg

def bodyCost : Source → Nat
  | .body acts => acts.length + 1
  | _ => 0

/-- enough fuel for `acts` in a state with registry `reg`: every body is entered at most once, and only bodies of
unregistered paths are ever entered (`fuel_suffices`). -/
def fuelFor (cfg : Cfg) (reg : List (Nat × ModEntry)) (acts : List Action) : Nat :=
  acts.length + pend bodyCost cfg.prog reg

/-- run `main` as the root script of a fresh interpreter. -/
def run (cfg : Cfg) (main : List Action) : Outcome :=
  exec cfg (fuelFor cfg boot.registry main) boot main

def Outcome.state? : Outcome → Option State
  | .ok st => some st
  | .err _ st => some st
  | .outOfFuel => none

end Yarel.Modules
