/-
UTF-8 over `List UInt8`, self-contained (core only).

Mirrors (Rust std, as used by yarel/src):
* `str::is_char_boundary`            -> `isBoundary`
* `char::from_u32` acceptance        -> `isScalar`
* `char::encode_utf8` / `String::push`/`collect::<String>()` -> `encodeCP`, `encodeChar`, `encode`
* `String::from_utf8` acceptance (core::str::validations::run_utf8_validation: Unicode Table 3-7,
  no overlongs, no surrogates, nothing above U+10FFFF, no truncation) -> `validate`
* `Utf8Error::valid_up_to`           -> `validUpTo`
* `str::chars`                       -> `decode`

All byte comparisons are done on `.toNat` so that `omega` sees them.
-/
namespace Yarel.Utf8

/-- UTF-8 continuation byte `0x80..=0xBF` (Rust: `(b as i8) < -0x40`). -/
def isCont (b : UInt8) : Bool := decide (0x80 ≤ b.toNat) && decide (b.toNat ≤ 0xBF)

/-- Rust `str::is_char_boundary`:
```
if index == 0 { return true; }
if index >= len { index == len } else { !is_continuation(bytes[index]) }
``` -/
def isBoundary (s : List UInt8) (i : Nat) : Bool :=
  if i = 0 then true
  else match s[i]? with
    | none => i == s.length
    | some b => !isCont b

/-- Unicode scalar value: what `char::from_u32` accepts. -/
def isScalar (n : Nat) : Bool := decide (n < 0xD800) || (decide (0xE000 ≤ n) && decide (n ≤ 0x10FFFF))

/-- Raw UTF-8 encoding by range (total; meaningful for `n ≤ 0x10FFFF`). -/
def encodeCP (n : Nat) : List UInt8 :=
  if n < 0x80 then [UInt8.ofNat n]
  else if n < 0x800 then [UInt8.ofNat (0xC0 + n / 64), UInt8.ofNat (0x80 + n % 64)]
  else if n < 0x10000 then
    [UInt8.ofNat (0xE0 + n / 4096), UInt8.ofNat (0x80 + n / 64 % 64), UInt8.ofNat (0x80 + n % 64)]
  else
    [UInt8.ofNat (0xF0 + n / 262144), UInt8.ofNat (0x80 + n / 4096 % 64),
     UInt8.ofNat (0x80 + n / 64 % 64), UInt8.ofNat (0x80 + n % 64)]

/-- `char::from_u32(n).map(|c| c.encode_utf8(..))`. -/
def encodeChar (n : Nat) : Option (List UInt8) :=
  if isScalar n then some (encodeCP n) else none

/-- Encoding of a list of code points (callers keep them scalar). -/
def encode : List Nat → List UInt8
  | [] => []
  | c :: cs => encodeCP c ++ encode cs

/-- A byte string is valid UTF-8 iff it is the encoding of a list of scalar values. -/
def Valid (s : List UInt8) : Prop := ∃ cps : List Nat, (∀ c ∈ cps, isScalar c = true) ∧ s = encode cps

/-- Allowed range of the second byte of a 3-byte sequence with lead `x` (`0xE0 ≤ x < 0xF0`). -/
def second3 (x y : Nat) : Bool :=
  if x = 0xE0 then decide (0xA0 ≤ y) && decide (y ≤ 0xBF)
  else if x = 0xED then decide (0x80 ≤ y) && decide (y ≤ 0x9F)
  else decide (0x80 ≤ y) && decide (y ≤ 0xBF)

/-- Allowed range of the second byte of a 4-byte sequence with lead `x` (`0xF0 ≤ x < 0xF5`). -/
def second4 (x y : Nat) : Bool :=
  if x = 0xF0 then decide (0x90 ≤ y) && decide (y ≤ 0xBF)
  else if x = 0xF4 then decide (0x80 ≤ y) && decide (y ≤ 0x8F)
  else decide (0x80 ≤ y) && decide (y ≤ 0xBF)

/-- Decode one well-formed UTF-8 sequence from the front: the code point and the rest. `none` when the
front is not a well-formed sequence (or the input is empty). -/
def decodeStep : List UInt8 → Option (Nat × List UInt8)
  | [] => none
  | b0 :: t =>
    let x := b0.toNat
    if x < 0x80 then some (x, t)
    else if x < 0xC2 then none
    else if x < 0xE0 then
      match t with
      | b1 :: t1 =>
        if isCont b1 then some ((x - 0xC0) * 64 + (b1.toNat - 0x80), t1) else none
      | [] => none
    else if x < 0xF0 then
      match t with
      | b1 :: b2 :: t2 =>
        if second3 x b1.toNat && isCont b2 then
          some ((x - 0xE0) * 4096 + (b1.toNat - 0x80) * 64 + (b2.toNat - 0x80), t2)
        else none
      | _ => none
    else if x < 0xF5 then
      match t with
      | b1 :: b2 :: b3 :: t3 =>
        if second4 x b1.toNat && isCont b2 && isCont b3 then
          some ((x - 0xF0) * 262144 + (b1.toNat - 0x80) * 4096 + (b2.toNat - 0x80) * 64
                + (b3.toNat - 0x80), t3)
        else none
      | _ => none
    else none

/-- Decode with fuel (each step consumes at least one byte, so `fuel = length` suffices). -/
def decodeAux : Nat → List UInt8 → Option (List Nat)
  | _, [] => some []
  | 0, _ :: _ => none
  | fuel + 1, s@(_ :: _) =>
    match decodeStep s with
    | none => none
    | some (c, rest) =>
      match decodeAux fuel rest with
      | none => none
      | some cs => some (c :: cs)

/-- `s.chars().collect()` for valid `s`; `none` iff `s` is not valid UTF-8. -/
def decode (s : List UInt8) : Option (List Nat) := decodeAux s.length s

/-- Acceptance test of `String::from_utf8` / `str::from_utf8`. -/
def validate (s : List UInt8) : Bool := (decode s).isSome

/-- Number of leading bytes that form well-formed sequences (`Utf8Error::valid_up_to`). -/
def validUpToAux : Nat → List UInt8 → Nat → Nat
  | 0, _, acc => acc
  | fuel + 1, s, acc =>
    match decodeStep s with
    | none => acc
    | some (_, rest) => validUpToAux fuel rest (acc + (s.length - rest.length))

def validUpTo (s : List UInt8) : Nat := validUpToAux s.length s 0

/-- `&s[a..b]` on bytes, without the checks (callers check). -/
def slice (s : List UInt8) (a b : Nat) : List UInt8 := (s.drop a).take (b - a)

end Yarel.Utf8
