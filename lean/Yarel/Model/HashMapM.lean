/-
Model of the language-level HashMap of yarel (`ObjHashMap.elements :
std::collections::HashMap<Value, Value, BuildPassThroughHasher>`).

Rust (yarel/src)                                   model
-------------------------------------------------  ------------------------------------------
`Value` restricted to what can be a map key        `Key`
`impl PartialEq for Value` (`==`)                   `valueEq`
`Value::has_hash`, `ObjTuple::has_hash`             `hasHash`
`utils::hash_number`                                `hashNumber`
`FnvHasher` + `str::hash` (vm.rs new_gc_obj_string) `fnv`
`(i as f64)` for `isize`                            `intToF64`
`impl Hash for Value`, `impl Hash for Gc<ObjTuple>` `valueHash`      (the PRESENT code)
the same after the planned `-0.0` repair            `valueHashFixed`
`std HashMap` lookup / insert / remove contract     `ListMap.*` with `Bucketed.same hash`
the abstract map "keyed by `==`"                    `ListMap.*` with `Assoc.same`
core.rs `hash_map_*`, `validate_hash_map_key`,
vm.rs `build_hash_map`                              `ListMap.step`

Modelling decisions (all stated again at the definitions):
* Strings are interned, so `Gc<ObjString> == Gc<ObjString>` (pointer) ⇔ equal bytes: `str` compares by bytes.
* Classes and ranges compare by pointer: the model carries an object id, `==` looks only at the id.  Their
  immutable contents (class name; range begin/end) ride along because the hash reads them.  That one id always
  carries the same contents is the heap well-formedness predicate `Key.inHeap`.
* `PartialEq for ObjTuple` first tests pointer identity and only then compares elementwise.  The model has no
  tuple identity: it is exact whenever the two tuples are different objects or contain no NaN (then the pointer
  shortcut agrees with the elementwise answer); a tuple CONTAINING NaN compared with the very same object is
  `==` in Rust and not in the model.
* `unhashable tag` stands for every value whose `has_hash` is false (vec, map, instance, closure, function,
  iterator, module, fiber, ...); `tag` identifies it up to `==`.  `impl Hash for Value` panics on these (except
  functions); no map entry point reaches it, because each checks `has_hash` first (`ListMap.step`), and stored
  keys are always hashable (`Proofs`), so the model's `valueHash` gives them the dummy 0.
* The `std` container is modelled by its contract, not by hashbrown's probing: an insertion-ordered list where
  a lookup of `q` considers only stored keys `s` with `hash s = hash q` and takes the first with `q == s`.
  Enumeration order of the real map is unspecified; the model enumerates in insertion order.
-/
import Yarel.Model.Basic
import Yarel.Model.F64Core

namespace Yarel.HashMapM

/-- The values that matter as HashMap keys.  Map values are arbitrary `Key`s too. -/
inductive Key where
  | nil
  | bool (b : Bool)
  /-- `Value::Number`, by its IEEE-754 bit pattern. -/
  | num (bits : UInt64)
  /-- `Value::ObjString`, by its UTF-8 bytes (interned). -/
  | str (bytes : List UInt8)
  /-- `Value::ObjClass`: object identity and the bytes of its (immutable) name string. -/
  | cls (id : Nat) (name : List UInt8)
  /-- `Value::ObjRange`: object identity and its (immutable) `begin`, `end`. -/
  | range (id : Nat) (b e : Int)
  | tuple (elems : List Key)
  /-- Anything with `has_hash() == false`. -/
  | unhashable (tag : Nat)
deriving Repr, Inhabited

/-! ## `==` -/

mutual
/-- `impl PartialEq for Value`. -/
def valueEq : Key → Key → Bool
  | .nil, .nil => true
  | .bool a, .bool b => a == b
  | .num a, .num b => F64.eq a b
  | .str a, .str b => a == b
  | .cls i _, .cls j _ => i == j
  | .range i _ _, .range j _ _ => i == j
  | .tuple xs, .tuple ys => valueEqList xs ys
  | .unhashable s, .unhashable t => s == t
  | _, _ => false
termination_by structural a => a
/-- `Vec<Value> == Vec<Value>`. -/
def valueEqList : List Key → List Key → Bool
  | [], [] => true
  | x :: xs, y :: ys => valueEq x y && valueEqList xs ys
  | _, _ => false
termination_by structural a => a
end

/-! ## `has_hash` -/

mutual
/-- `Value::has_hash`. -/
def hasHash : Key → Bool
  | .tuple xs => hasHashList xs
  | .unhashable _ => false
  | _ => true
/-- `ObjTuple::has_hash`: the fold of `&&` over the elements. -/
def hasHashList : List Key → Bool
  | [] => true
  | x :: xs => hasHash x && hasHashList xs
end

/-! ## hashing -/

/-- `utils::hash_number`.  The raw 64 bits are widened to `u128`; every step wraps at 128 bits (in particular
`!hash` is a 128-bit NOT, so the upper 64 bits become ones); the result is truncated back to `u64`. -/
def hashNumber (bits : UInt64) : UInt64 :=
  let h : BitVec 128 := bits.toBitVec.setWidth 128
  let h := (~~~h) + (h <<< 18)
  let h := h ^^^ (h >>> 31)
  let h := h * 21
  let h := h ^^^ (h >>> 11)
  let h := h + (h <<< 6)
  let h := h ^^^ (h >>> 22)
  ⟨h.setWidth 64⟩

/-- The planned repair: `let num = if num == 0.0 { 0.0 } else { num };` in front of `hash_number`. -/
def hashNumberFixed (bits : UInt64) : UInt64 :=
  hashNumber (if F64.eq bits F64.posZero then F64.posZero else bits)

/-- `FnvHasher::write`: `hash ^= c; hash = (hash as u128 * 16777619) as u64`. -/
def fnvWrite (h : UInt64) (bytes : List UInt8) : UInt64 :=
  bytes.foldl (fun h c => (h ^^^ c.toUInt64) * 16777619) h

/-- `ObjString.hash`: `str::hash` writes the bytes and then the byte `0xff`. -/
def fnv (text : List UInt8) : UInt64 :=
  fnvWrite (fnvWrite 2166136261 text) [0xff]

/-- `(x as f64)` for an `isize`: exact for `|x| < 2^53`, round-to-nearest-even above.  `0` gives `+0.0`. -/
def intToF64 (x : Int) : UInt64 :=
  if x == 0 then 0 else
  let sign : Nat := if x < 0 then 2 ^ 63 else 0
  let m := x.natAbs
  let k := m.log2
  let body : Nat :=
    if k ≤ 52 then (1023 + k) * 2 ^ 52 + (m * 2 ^ (52 - k) - 2 ^ 52)
    else
      let sh := k - 52
      let q := m / 2 ^ sh
      let r := m % 2 ^ sh
      let half := 2 ^ (sh - 1)
      let q' := if r > half || (r == half && q % 2 == 1) then q + 1 else q
      -- a carry out of the mantissa (q' = 2^53) lands in the exponent field, as it should
      (1023 + k) * 2 ^ 52 + (q' - 2 ^ 52)
  UInt64.ofNat (sign + body)

mutual
/-- `impl Hash for Value` followed by `PassThroughHasher::finish`, parametrised by the number hash `hn`. -/
def valueHashWith (hn : UInt64 → UInt64) : Key → UInt64
  | .nil => 2
  | .bool b => if b then 1 else 0
  | .num bits => hn bits
  | .str bytes => fnv bytes
  | .cls _ name => fnv name
  | .range _ b e => hn (intToF64 b) ^^^ hn (intToF64 e)
  | .tuple xs => tupleHashWith hn 0 xs
  | .unhashable _ => 0   -- Rust panics here; unreachable from the map natives, see the header
/-- `impl Hash for Gc<ObjTuple>`: `.fold(0, |a, b| a ^ b)` over the element hashes (`acc` is the running `a`). -/
def tupleHashWith (hn : UInt64 → UInt64) (acc : UInt64) : List Key → UInt64
  | [] => acc
  | x :: xs => tupleHashWith hn (acc ^^^ valueHashWith hn x) xs
end

/-- The hash of the PRESENT code. -/
def valueHash : Key → UInt64 := valueHashWith hashNumber

/-- The hash after the planned `-0.0` repair. -/
def valueHashFixed : Key → UInt64 := valueHashWith hashNumberFixed

/-! ## heap well-formedness, NaN-freeness, −0-freeness (hypotheses of the theorems) -/

/-- What an object id stands for: the name of class `id`, the bounds of range `id`. -/
structure Heap where
  className : Nat → List UInt8
  rangeBounds : Nat → Int × Int

mutual
/-- Every class / range object mentioned in the key carries the contents the heap has for its id. -/
def Key.inHeap (H : Heap) : Key → Bool
  | .cls i name => name == H.className i
  | .range i b e => (b, e) == H.rangeBounds i
  | .tuple xs => Key.inHeapList H xs
  | _ => true
def Key.inHeapList (H : Heap) : List Key → Bool
  | [] => true
  | x :: xs => Key.inHeap H x && Key.inHeapList H xs
end

mutual
/-- No NaN anywhere inside the key. -/
def Key.nanFree : Key → Bool
  | .num bits => !F64.isNaN bits
  | .tuple xs => Key.nanFreeList xs
  | _ => true
def Key.nanFreeList : List Key → Bool
  | [] => true
  | x :: xs => Key.nanFree x && Key.nanFreeList xs
end

mutual
/-- No `-0.0` anywhere inside the key. -/
def Key.noNegZero : Key → Bool
  | .num bits => bits != F64.negZero
  | .tuple xs => Key.noNegZeroList xs
  | _ => true
def Key.noNegZeroList : List Key → Bool
  | [] => true
  | x :: xs => Key.noNegZero x && Key.noNegZeroList xs
end

/-! ## the list-backed map, generic in the "is this stored key the one I am looking for" test -/

/-- A map state: entries in insertion order. -/
abbrev Entries := List (Key × Key)

namespace ListMap

variable (same : Key → Key → Bool)   -- `same query stored`

/-- `HashMap::get`: the value of the first stored key matching the query. -/
def find? (q : Key) : Entries → Option Key
  | [] => none
  | (s, v) :: es => if same q s then some v else find? q es

/-- Overwrite the value of the first matching entry, KEEPING the stored key (as `HashMap::insert` does). -/
def replace (q v : Key) : Entries → Entries
  | [] => []
  | (s, w) :: es => if same q s then (s, v) :: es else (s, w) :: replace q v es

/-- Drop the first matching entry. -/
def erase (q : Key) : Entries → Entries
  | [] => []
  | (s, w) :: es => if same q s then es else (s, w) :: erase q es

/-- `HashMap::insert(k, v)`: returns the new map and the previous value if any. -/
def insertRaw (m : Entries) (k v : Key) : Entries × Option Key :=
  match find? same k m with
  | some old => (replace same k v m, some old)
  | none => (m ++ [(k, v)], none)

/-- `HashMap::remove(&k)`. -/
def removeRaw (m : Entries) (k : Key) : Entries × Option Key :=
  match find? same k m with
  | some old => (erase same k m, some old)
  | none => (m, none)

/-- vm.rs `build_hash_map`: insert the pairs in order into `acc`; stop with an error at the first unhashable key. -/
def build (acc : Entries) : List (Key × Key) → Option Entries
  | [] => some acc
  | (k, v) :: ps => if hasHash k then build (insertRaw same acc k v).1 ps else none

def keys (m : Entries) : List Key := m.map (·.1)
def values (m : Entries) : List Key := m.map (·.2)
def items (m : Entries) : Entries := m
def len (m : Entries) : Nat := m.length

end ListMap

/-- The language-level operations. -/
inductive Op where
  /-- `{k: v, ...}`: builds a NEW map which replaces the current one. -/
  | literal (pairs : List (Key × Key))
  | insert (k v : Key)
  | remove (k : Key)
  | get (k : Key)
  | hasKey (k : Key)
  | clear
  | len
  | keys
  | values
  | items
deriving Repr, Inhabited

/-- What the operation hands back. -/
inductive Res where
  /-- A language value (`nil` for "nothing": `unwrap_or(Value::None)`; booleans for `has_key`). -/
  | value (v : Key)
  /-- `len`: `Value::Number(len as f64)`. -/
  | count (n : Nat)
  /-- `keys` / `values`: a fresh vec. -/
  | keyList (ks : List Key)
  /-- `items`: a fresh vec of fresh 2-tuples. -/
  | itemList (kvs : List (Key × Key))
  /-- a map literal evaluated fine -/
  | built
  /-- `ErrorKind::ValueError` "Cannot use unhashable value ... as HashMap key." -/
  | valueError
deriving Repr, Inhabited

/-- The keys an operation presents to the map. -/
def Op.usedKeys : Op → List Key
  | .literal ps => ps.map (·.1)
  | .insert k _ => [k]
  | .remove k => [k]
  | .get k => [k]
  | .hasKey k => [k]
  | _ => []

namespace ListMap

variable (same : Key → Key → Bool)

/-- One operation: core.rs `hash_map_*` (each guarded by `validate_hash_map_key`) and vm.rs `build_hash_map`. -/
def step (m : Entries) : Op → Entries × Res
  | .literal ps =>
    match build same [] ps with
    | some m' => (m', .built)
    | none => (m, .valueError)
  | .insert k v =>
    if hasHash k then
      let r := insertRaw same m k v
      (r.1, .value (r.2.getD .nil))
    else (m, .valueError)
  | .remove k =>
    if hasHash k then
      let r := removeRaw same m k
      (r.1, .value (r.2.getD .nil))
    else (m, .valueError)
  | .get k =>
    if hasHash k then (m, .value ((find? same k m).getD .nil)) else (m, .valueError)
  | .hasKey k =>
    if hasHash k then (m, .value (.bool (find? same k m).isSome)) else (m, .valueError)
  | .clear => ([], .value .nil)
  | .len => (m, .count (len m))
  | .keys => (m, .keyList (keys m))
  | .values => (m, .keyList (values m))
  | .items => (m, .itemList (items m))

/-- A sequence of operations: final map and the results in order. -/
def run (m : Entries) : List Op → Entries × List Res
  | [] => (m, [])
  | op :: ops =>
    let r := step same m op
    let rs := run r.1 ops
    (rs.1, r.2 :: rs.2)

end ListMap

/-! ## the two models -/

namespace Bucketed

/-- The `std` contract: only stored keys whose hash equals the query's hash are compared, then `==` decides
(hashbrown calls `query.eq(stored)`). -/
def same (hash : Key → UInt64) (q s : Key) : Bool := hash s == hash q && valueEq q s

abbrev find? (hash : Key → UInt64) := ListMap.find? (same hash)
abbrev insertRaw (hash : Key → UInt64) := ListMap.insertRaw (same hash)
abbrev removeRaw (hash : Key → UInt64) := ListMap.removeRaw (same hash)
abbrev build (hash : Key → UInt64) := ListMap.build (same hash)
abbrev step (hash : Key → UInt64) := ListMap.step (same hash)
abbrev run (hash : Key → UInt64) := ListMap.run (same hash)

end Bucketed

namespace Assoc

/-- The abstract map: keys are identified by `==` alone. -/
def same (q s : Key) : Bool := valueEq q s

abbrev find? := ListMap.find? same
abbrev insertRaw := ListMap.insertRaw same
abbrev removeRaw := ListMap.removeRaw same
abbrev build := ListMap.build same
abbrev step := ListMap.step same
abbrev run := ListMap.run same

end Assoc

end Yarel.HashMapM
