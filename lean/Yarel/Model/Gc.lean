/-
Model of the mark/sweep collector of yarel (`src/memory.rs`), bug-compatible.

Real code                                   Model
---------                                   -----
`GcBox::mark`/`GcBox::blacken` (native      `runCalls`: explicit call-stack machine.  One machine step pops one
recursion through `data.mark()` /           pending call `(op, i)`; "colour already = target colour" returns at once,
`data.blacken()`)                           otherwise the colour is overwritten and the calls made by the body of
                                            `data.<op>()` are pushed IN FRONT (depth first, in visiting order).
`Heap::mark_roots`                          `markRoots`   (unmark all, then `mark()` every box with `num_roots > 0`
                                            in vector order)
`Heap::trace_references`                    `traceReferences` / `traceLoop` / `tracePass` (lazy `filter` on "grey at
                                            the moment the iterator reaches the box")
`Heap::sweep`                               `sweep`  (bytes of WHITE boxes, `retain(colour == Black)`)
`Heap::collect`                             `collectE` / `collect`

Objects are never modified by a collection except for their colour, therefore the machine works on a separate
colour array (`Array Colour`, same length as the heap); the `colour` field of `Obj` is the colour *before* the
collection and is irrelevant because `mark_roots` first unmarks every box.

Fuel.  `fuel` bounds (a) the number of machine steps of every single top-level `mark()`/`blacken()` call made by
`mark_roots`/`trace_references`, and (b) the number of passes of the `while num_greys > 0` loop.
`Fault.outOfFuel` therefore means: the real collector does not return (unbounded native recursion = stack
overflow, or an endless `while` loop) or needs more than `fuel`.  `Fault.dangling` = a call through a pointer whose
target index is not in the heap (undefined behaviour in the real program).
-/
namespace Yarel.Gc

inductive Colour where
  | white | grey | black
deriving DecidableEq, Repr, Inhabited

/-- which `GcBox` method a parent's body calls on a child -/
inductive TraceOp where
  | mark | blacken
deriving DecidableEq, Repr, Inhabited

structure Edge where
  /-- index of the child box in the heap array -/
  target : Nat
  /-- what the parent's `mark()` body does with this pointer (`none` = not traced there) -/
  inMark : Option TraceOp
  /-- what the parent's `blacken()` body does with it (`none` = not traced; `some .mark` is the F22 bug shape) -/
  inBlacken : Option TraceOp
deriving DecidableEq, Repr, Inhabited

structure Obj where
  kind : Nat
  roots : Nat
  size : Nat
  colour : Colour
  /-- ALL pointers the object holds, in the order the bodies visit them -/
  edges : List Edge
deriving DecidableEq, Repr, Inhabited

abbrev Heap := Array Obj

inductive Fault where
  | outOfFuel | dangling
deriving DecidableEq, Repr, Inhabited

/-- the colour `GcBox::<op>` writes (`colour.replace(..)`) and tests for the early return -/
def TraceOp.colour : TraceOp → Colour
  | .mark => .grey
  | .blacken => .black

/-- a pending call `GcBox::<op>` on box number `i` -/
abbrev Call := TraceOp × Nat

/-- what the body of `data.<op>()` does with pointer `e` -/
def Edge.sel : TraceOp → Edge → Option TraceOp
  | .mark, e => e.inMark
  | .blacken, e => e.inBlacken

/-- the calls made by the body `data.<op>()` of object `o`, in order -/
def Obj.calls (op : TraceOp) (o : Obj) : List Call :=
  o.edges.filterMap fun e => (e.sel op).map fun op' => (op', e.target)

/-- The call-stack machine.  `st` = pending calls, innermost first. -/
def runCalls (h : Heap) : Nat → Array Colour → List Call → Except Fault (Array Colour)
  | _, cols, [] => .ok cols
  | 0, _, _ :: _ => .error .outOfFuel
  | fuel + 1, cols, (op, i) :: rest =>
    match h[i]?, cols[i]? with
    | some o, some c =>
      if c = op.colour then
        -- `if self.colour.replace(X) == X { return; }`
        runCalls h fuel cols rest
      else
        -- colour overwritten (a BLACK box that is `mark`ed becomes GREY again), then `self.data.<op>()`
        runCalls h fuel (cols.setIfInBounds i op.colour) (o.calls op ++ rest)
    | _, _ => .error .dangling

/-- `self.objects.iter_mut().for_each(|obj| obj.unmark())` -/
def unmarkAll (h : Heap) : Array Colour := Array.replicate h.size .white

/-- `num_roots > 0` of box `i` (`i` always comes from `List.range h.size`, the lookup cannot fail) -/
def isRoot (h : Heap) (i : Nat) : Bool :=
  match h[i]? with
  | some o => decide (0 < o.roots)
  | none => false

/-- second `for_each` of `mark_roots`, over the box indices `is` -/
def markRootsFrom (h : Heap) (fuel : Nat) : List Nat → Array Colour → Except Fault (Array Colour)
  | [], cols => .ok cols
  | i :: is, cols =>
    if isRoot h i then
      match runCalls h fuel cols [(.mark, i)] with
      | .ok c => markRootsFrom h fuel is c
      | .error e => .error e
    else markRootsFrom h fuel is cols

def markRoots (h : Heap) (fuel : Nat) : Except Fault (Array Colour) :=
  markRootsFrom h fuel (List.range h.size) (unmarkAll h)

/-- One `iter_mut().filter(grey).map(blacken).count()` pass over the indices `is`;
the filter is evaluated when the iterator reaches the box.  `n` counts the boxes that passed the filter. -/
def tracePass (h : Heap) (fuel : Nat) : List Nat → Array Colour → Nat → Except Fault (Array Colour × Nat)
  | [], cols, n => .ok (cols, n)
  | i :: is, cols, n =>
    if cols[i]? = some .grey then
      match runCalls h fuel cols [(.blacken, i)] with
      | .ok c => tracePass h fuel is c (n + 1)
      | .error e => .error e
    else tracePass h fuel is cols n

/-- `iter().filter(grey).count()` -/
def countGrey (cols : Array Colour) : Nat :=
  cols.toList.countP fun c => c = .grey

/-- `while num_greys > 0 { num_greys = <pass> }`; first argument = remaining pass budget -/
def traceLoop (h : Heap) (fuel : Nat) : Nat → Array Colour → Nat → Except Fault (Array Colour)
  | _, cols, 0 => .ok cols
  | 0, _, _ + 1 => .error .outOfFuel
  | k + 1, cols, _ + 1 =>
    match tracePass h fuel (List.range h.size) cols 0 with
    | .ok (c, n) => traceLoop h fuel k c n
    | .error e => .error e

def traceReferences (h : Heap) (fuel : Nat) (cols : Array Colour) : Except Fault (Array Colour) :=
  traceLoop h fuel fuel cols (countGrey cols)

/-- `mem::size_of_val(&obj.data)` of box `i` (indices come from `List.range h.size`) -/
def sizeAt (h : Heap) (i : Nat) : Nat :=
  match h[i]? with
  | some o => o.size
  | none => 0

structure CollectResult where
  /-- indices (ascending) of the boxes kept by `retain(colour == Black)` -/
  retained : List Nat
  /-- return value of `sweep` = Σ size of WHITE boxes -/
  bytesFreed : Nat
  /-- colours at sweep time -/
  colours : Array Colour
deriving DecidableEq, Repr

def sweep (h : Heap) (cols : Array Colour) : CollectResult where
  retained := (List.range h.size).filter fun i => cols[i]? = some .black
  bytesFreed := (((List.range h.size).filter fun i => cols[i]? = some .white).map (sizeAt h)).sum
  colours := cols

def collectE (fuel : Nat) (h : Heap) : Except Fault CollectResult :=
  match markRoots h fuel with
  | .error e => .error e
  | .ok c1 =>
    match traceReferences h fuel c1 with
    | .error e => .error e
    | .ok c2 => .ok (sweep h c2)

/-- `none` = the real `collect` does not return normally (see `collectE` for the reason) -/
def collect (fuel : Nat) (h : Heap) : Option CollectResult :=
  match collectE fuel h with
  | .ok r => some r
  | .error _ => none

/-- Σ of all edge counts -/
def totalEdges (h : Heap) : Nat := (h.toList.map fun o => o.edges.length).sum

/-- fuel that always suffices for a closed heap with well-formed trace ops (`collect_terminates`) -/
def fuelBound (h : Heap) : Nat := h.size + totalEdges h + 2

/-- `bytes_allocated` and `collection_threshold` after `collect` (`HEAP_GROWTH_FACTOR = 2`);
`bytes_allocated -= bytes_freed` is a `usize` subtraction: underflow = fault (`none`). -/
def accountAfter (bytesAllocated : Nat) (r : CollectResult) : Option (Nat × Nat) :=
  if r.bytesFreed ≤ bytesAllocated then
    some (bytesAllocated - r.bytesFreed, (bytesAllocated - r.bytesFreed) * 2)
  else none

/-! ### decidable shape predicates -/

/-- every pointer points into the heap -/
def closedB (h : Heap) : Bool :=
  h.toList.all fun o => o.edges.all fun e => decide (e.target < h.size)

/-- no `mark` inside a `blacken` body and no `blacken` inside a `mark` body -/
def wellFormedB (h : Heap) : Bool :=
  h.toList.all fun o => o.edges.all fun e =>
    decide (e.inBlacken ≠ some .mark) && decide (e.inMark ≠ some .blacken)

/-- every pointer is traced by `blacken()` or points at a rooted box -/
def coveredB (h : Heap) : Bool :=
  h.toList.all fun o => o.edges.all fun e => e.inBlacken.isSome || isRoot h e.target

/-- every pointer is traced by `mark()` with op `mark` or points at a rooted box -/
def markCoveredB (h : Heap) : Bool :=
  h.toList.all fun o => o.edges.all fun e => decide (e.inMark = some .mark) || isRoot h e.target

/-! ### schema layer -/

structure KindOps where
  /-- `(fieldId, targetKind, op)`: what `mark()` of this kind does with field `fieldId` holding a `targetKind` -/
  markOps : List (Nat × Nat × TraceOp)
  blackenOps : List (Nat × Nat × TraceOp)
deriving Repr, Inhabited

/-- by kind -/
abbrev Schema := Nat → KindOps

structure RawEdge where
  field : Nat
  target : Nat
deriving DecidableEq, Repr, Inhabited

structure RawObj where
  kind : Nat
  roots : Nat
  size : Nat
  colour : Colour
  edges : List RawEdge
deriving DecidableEq, Repr, Inhabited

abbrev RawHeap := Array RawObj

/-- first match -/
def lookupOp : List (Nat × Nat × TraceOp) → Nat → Nat → Option TraceOp
  | [], _, _ => none
  | (f', k', op) :: rest, f, k => if f' = f ∧ k' = k then some op else lookupOp rest f k

/-- A pointer whose target is not in the heap has no kind to look up; it is labelled as traced in both bodies, so
that the machine faults with `dangling` if the owner is ever traced. -/
def labelEdge (S : Schema) (h : RawHeap) (parentKind : Nat) (e : RawEdge) : Edge :=
  match h[e.target]? with
  | some t =>
    { target := e.target
      inMark := lookupOp (S parentKind).markOps e.field t.kind
      inBlacken := lookupOp (S parentKind).blackenOps e.field t.kind }
  | none => { target := e.target, inMark := some .mark, inBlacken := some .blacken }

def labelObj (S : Schema) (h : RawHeap) (o : RawObj) : Obj :=
  { kind := o.kind, roots := o.roots, size := o.size, colour := o.colour
    edges := o.edges.map (labelEdge S h o.kind) }

def label (S : Schema) (h : RawHeap) : Heap := (h.toList.map (labelObj S h)).toArray

/-- `fields k` = the pointer fields of kind `k` with the kinds each may point at; `exempt` = `(kind, field,
targetKind)` triples that need not be traced by `blacken()` (their targets are kept alive by roots). -/
def Schema.blackenCovers (S : Schema) (kinds : List Nat) (fields : Nat → List (Nat × List Nat))
    (exempt : List (Nat × Nat × Nat)) : Bool :=
  kinds.all fun k => (fields k).all fun ft => ft.2.all fun tk =>
    exempt.contains (k, ft.1, tk) || (lookupOp (S k).blackenOps ft.1 tk == some .blacken)

/-- like `blackenCovers`, for the `mark()` bodies: every possible pointer is `mark`ed by the owner's `mark()`,
unless exempt -/
def Schema.markCovers (S : Schema) (kinds : List Nat) (fields : Nat → List (Nat × List Nat))
    (exempt : List (Nat × Nat × Nat)) : Bool :=
  kinds.all fun k => (fields k).all fun ft => ft.2.all fun tk =>
    exempt.contains (k, ft.1, tk) || (lookupOp (S k).markOps ft.1 tk == some .mark)

/-- checker for `WellTyped kinds fields h` -/
def wellTypedB (kinds : List Nat) (fields : Nat → List (Nat × List Nat)) (h : RawHeap) : Bool :=
  h.toList.all fun o => kinds.contains o.kind && o.edges.all fun e =>
    match h[e.target]? with
    | some t => (fields o.kind).any fun ft => ft.1 == e.field && ft.2.contains t.kind
    | none => false

/-- checker for `ExemptRooted exempt h` -/
def exemptRootedB (exempt : List (Nat × Nat × Nat)) (h : RawHeap) : Bool :=
  h.toList.all fun o => o.edges.all fun e =>
    match h[e.target]? with
    | some t => !exempt.contains (o.kind, e.field, t.kind) || decide (0 < t.roots)
    | none => true

/-- checker for `GraphMap id h h'`: same rootedness, every pointer of `h` has a counterpart in `h'` -/
def graphMapIdB (h h' : Heap) : Bool :=
  (List.range h.size).all fun i =>
    match h[i]?, h'[i]? with
    | some o, some o' =>
      (decide (o.roots = 0) || decide (0 < o'.roots)) &&
        o.edges.all fun e => o'.edges.any fun e' => e'.target == e.target
    | some _, none => false
    | none, _ => true

/-- all `mark()` bodies only `mark`, all `blacken()` bodies only `blacken` -/
def Schema.wellFormed (S : Schema) (kinds : List Nat) : Bool :=
  kinds.all fun k =>
    ((S k).markOps.all fun t => t.2.2 == .mark) && ((S k).blackenOps.all fun t => t.2.2 == .blacken)

end Yarel.Gc
