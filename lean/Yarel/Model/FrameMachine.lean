/-
Frame-local small-step semantics of ONE yarel function's code: a nondeterministic abstraction of
`Vm::run` (vm.rs) as seen from a single call frame.

State: `pc` (offset into the function's code), `stack` (operand stack ABOVE the frame base, top first:
slot k of the frame is `stack[stack.length - 1 - k]`), `handlers` (the `ExcHandler`s this frame has
pushed onto `fiber.exc_handlers`, innermost first, heights frame-relative) and `ret`
(`fiber.return_ip`, the pending return address recorded by `JumpFinally`).

Abstractions (each one only ADDS behaviours, so the relation over-approximates the interpreter):
* values are opaque; an instruction that pushes pushes SOME values;
* a call (`Call`, `Invoke`, `IterNext`, `StartImport`, ...) is one step of the caller: it pops its
  arguments and pushes some result, or raises;
* a conditional jump may go either way;
* every instruction of `Instr.mayRaise` may raise at any time: with the VM's unwinding rule
  (`unwind_stack`: pop the innermost handler, `stack.truncate(init_stack_size)`, push the exception
  object, continue at `catch_ip`) if this frame has a handler, otherwise the exception leaves the frame
  (no successor).  At the moment of truncation the part of the stack below the instruction's operands is
  untouched and anything may lie above it (`extra`: operands not yet popped, the error object pushed by
  `try_handle_error`, callee frames);  `Vec::truncate` does nothing if the vector is already shorter;
* `EndFinally` may re-raise whatever `vm.handling_exception` says (that flag is global to the VM and
  not modelled), may resume a pending return, or fall through;
* the pending return address may be cleared by any step (a callee's own `JumpFinally`/`EndFinally`
  overwrite and clear the fiber-wide `return_ip`).

Not modelled (assumptions of the frame-local view): callees return with the fiber's handler stack as
they found it and without a pending `return_ip` of their own (that is what the verifier's
`handlerLeakAtReturn`/`pendingReturnLeak` checks establish for verified callees); `PopExcHandler` with no
handler of this frame pops a handler of the CALLER (or nothing) — here it leaves `handlers = []`.

Stuck states = faults of the real interpreter (fetch outside the code, unknown opcode, stack access
below the frame base, `expect("Expected ExcHandler.")`); the soundness theorem shows verified code never
reaches them for those reasons.
-/
import Yarel.Model.Bytecode

namespace Yarel.FrameMachine
open Yarel.Bytecode

/-- Opaque run-time value. -/
structure Val where
  id : Nat
  deriving DecidableEq, Repr, Inhabited

structure State where
  pc : Nat
  stack : List Val
  handlers : List Handler
  ret : Option Nat
  deriving Repr

/-- `Vec::truncate(n)` on a top-first list: keep the bottom `n` values; no-op if shorter. -/
def truncate (n : Nat) (st : List Val) : List Val := st.drop (st.length - n)

/-- Successor offsets of an instruction on normal completion (for plain/jump/branch instructions). -/
inductive NormalTarget : Flow → Nat → Nat → Prop where
  | next {nxt} : NormalTarget .next nxt nxt
  | jump {nxt t} : NormalTarget (.jump t) nxt t
  | fall {nxt t} : NormalTarget (.branch t) nxt nxt
  | taken {nxt t} : NormalTarget (.branch t) nxt t

/-- The pending return address after a step: unchanged or cleared (see header). -/
def RetOk (old new : Option Nat) : Prop := new = old ∨ new = none

inductive Step (fn : FnDump) : State → State → Prop where
  /-- Ordinary completion: pop `pops`, push `pushes` values, continue at a normal target. -/
  | normal {s : State} {i : Instr} {t : Nat} {vs : List Val} {ret' : Option Nat} :
      decode fn s.pc = some i → i.op ≠ .setLocal →
      i.needs ≤ s.stack.length →
      NormalTarget (i.flow s.pc) (s.pc + i.size) t →
      vs.length = i.pushes → RetOk s.ret ret' →
      Step fn s { pc := t, stack := vs ++ s.stack.drop i.pops, handlers := s.handlers, ret := ret' }
  /-- `SetLocal slot`: `stack[slot_base + slot] = peek(0)`. -/
  | setLocal {s : State} {i : Instr} {v : Val} {rest : List Val} :
      decode fn s.pc = some i → i.op = .setLocal →
      s.stack = v :: rest → i.a < s.stack.length →
      Step fn s { s with pc := s.pc + i.size, stack := s.stack.set (s.stack.length - 1 - i.a) v }
  /-- The instruction raises and this frame has a handler. -/
  | raise {s : State} {i : Instr} {h : Handler} {r : List Handler} {extra : List Val} {exc : Val}
      {ret' : Option Nat} :
      decode fn s.pc = some i → i.mayRaise = true →
      i.needs ≤ s.stack.length →
      s.handlers = h :: r → RetOk s.ret ret' →
      Step fn s { pc := h.catchPc,
                  stack := exc :: truncate h.initHeight (extra ++ s.stack.drop i.pops),
                  handlers := r, ret := ret' }
  /-- `PushExcHandler try catch`: record catch/finally addresses and the current height. -/
  | pushHandler {s : State} {i : Instr} {c f : Nat} :
      decode fn s.pc = some i → i.flow s.pc = .pushHandler c f →
      Step fn s { s with pc := s.pc + i.size, handlers := ⟨c, f, s.stack.length⟩ :: s.handlers }
  /-- `PopExcHandler`. -/
  | popHandler {s : State} {i : Instr} :
      decode fn s.pc = some i → i.flow s.pc = .popHandler →
      Step fn s { s with pc := s.pc + i.size, handlers := s.handlers.tail }
  /-- `JumpFinally`: save return value and address, pop the value, pop a handler, cut the stack to its
  recorded height, continue at its finally address. -/
  | jumpFinally {s : State} {i : Instr} {v : Val} {rest : List Val} {h : Handler} {r : List Handler} :
      decode fn s.pc = some i → i.flow s.pc = .jumpFinally →
      s.stack = v :: rest → s.handlers = h :: r →
      Step fn s { pc := h.finallyPc, stack := truncate h.initHeight rest, handlers := r,
                  ret := some (s.pc + i.size) }
  /-- `EndFinally` with a pending return: push the saved value, jump to the saved address. -/
  | endFinallyReturn {s : State} {i : Instr} {r : Nat} {v : Val} :
      decode fn s.pc = some i → i.flow s.pc = .endFinally → s.ret = some r →
      Step fn s { s with pc := r, stack := v :: s.stack, ret := none }
  /-- `EndFinally` without a pending return: fall through. -/
  | endFinallyFall {s : State} {i : Instr} :
      decode fn s.pc = some i → i.flow s.pc = .endFinally → s.ret = none →
      Step fn s { s with pc := s.pc + i.size }

/-- Entry states: `call_closure`/`push_call_frame` put the frame base `arity` values below the top
(slot 0 = callee or receiver, then the parameters); a fresh fiber starts with the closure in slot 0. -/
def Entry (fn : FnDump) (s : State) : Prop :=
  s.pc = 0 ∧ s.stack.length = fn.arity ∧ s.handlers = [] ∧ s.ret = none

inductive Reach (fn : FnDump) : State → Prop where
  | entry {s} : Entry fn s → Reach fn s
  | step {s s'} : Reach fn s → Step fn s s' → Reach fn s'

/-- Offsets at which the code, read as a sequence of instructions from offset 0, has an instruction. -/
inductive IsBoundary (fn : FnDump) : Nat → Prop where
  | zero : IsBoundary fn 0
  | next {p i} : IsBoundary fn p → decode fn p = some i → IsBoundary fn (p + i.size)

/-- Every access the instruction `i` makes in state `s` stays inside what exists: operand-stack pops and
peeks stay above the frame base, the local slot / upvalue / constant it names exists (and the constant
has the kind the VM `expect`s), unwinding really truncates to the recorded height, and the frame is
only left in a clean state. -/
structure AccessOk (fn : FnDump) (i : Instr) (s : State) : Prop where
  /-- pops and peeks stay above the frame base -/
  stack : i.needs ≤ s.stack.length
  /-- `GetLocal`/`SetLocal slot`: the slot is below the current height -/
  localSlot : i.usesLocal = true → i.a < s.stack.length
  /-- `GetUpvalue`/`SetUpvalue idx`: the closure has that upvalue -/
  upvalue : i.usesUpvalue = true → i.a < fn.upvalues
  /-- the constant exists and is of the expected kind (string for names, function with as many
  upvalues as there are descriptor pairs for `Closure`) -/
  const : i.usesConst = true → ∃ c, fn.consts[i.a]? = some c ∧ i.constOk c = true
  /-- `Closure` descriptors: a captured local is an existing slot (the new closure itself, just pushed,
  is slot `height`), a captured upvalue is one of the enclosing closure's -/
  capture : ∀ d ∈ i.ups, if d.1 = true then d.2 ≤ s.stack.length else d.2 < fn.upvalues
  /-- `Loop` does not jump to before the start of the code -/
  loopTarget : i.flow s.pc ≠ .invalid
  /-- `Return`: no handler of this frame is left installed and no return address is pending -/
  atReturn : i.flow s.pc = .ret → s.handlers = [] ∧ s.ret = none
  /-- `PopExcHandler` pops a handler of this frame -/
  popHandler : i.flow s.pc = .popHandler → s.handlers ≠ []
  /-- `JumpFinally` finds a handler of this frame, recorded below the return value -/
  jumpFinally : i.flow s.pc = .jumpFinally →
    ∃ h r, s.handlers = h :: r ∧ h.initHeight + 1 ≤ s.stack.length
  /-- unwinding to this frame's innermost handler truncates the stack to exactly the recorded height -/
  unwind : i.mayRaise = true → ∀ h r, s.handlers = h :: r → h.initHeight + i.pops ≤ s.stack.length
  /-- an exception that leaves the frame leaves no pending return address behind (not claimed for the
  re-raise of `EndFinally`, which depends on the unmodelled `handling_exception` flag) -/
  escape : i.mayRaise = true → i.op ≠ .endFinally → s.handlers = [] → s.ret = none

end Yarel.FrameMachine
