/-
Integer validation, bounded indices, bounded ranges, vec/tuple get-item, set-item, range building,
vec/tuple/range iterator steps.

Mirrors (yarel/src):
* utils.rs  `validate_integer`                      -> `validateInteger`
* value.rs  `Value::try_as_bounded_index`           -> `boundedIndex`
* object.rs `ObjRange::make_bounded_range`          -> `boundedRange`
* vm.rs     `slice_get_item`, `tuple_get_item`, `vec_get_item` -> `sliceGetItem`, `tupleGetItem`, `vecGetItem`
* vm.rs     `set_item_impl`                         -> `setItem`
* vm.rs     `build_range_impl`                      -> `buildRange`   (pops and validates `end` FIRST)
* object.rs `ObjVecIter/ObjTupleIter::next`         -> `elemIterNext`
* object.rs `ObjRangeIter::new/next`                -> `rangeIterNew`, `rangeIterNext`

Lengths are `Nat`; the Rust casts `len() as isize` are the identity because Rust allocations never exceed
`isize::MAX` bytes.  `isize` values are `Int`s that the model keeps inside `[-2^63, 2^63)`.

Every place where the Rust code indexes/slices (and could panic) is an explicit `Outcome.fault`.
-/
import Yarel.Model.F64Core
namespace Yarel.Index

open Yarel

/-- `error.rs: ErrorKind`. -/
inductive ErrKind
  | AttributeError | CompileError | ImportError | IndexError | NameError | RuntimeError
  | TypeError | ValueError
deriving DecidableEq, Repr, Inhabited

/-- Runtime values as far as this property needs them. `other` = any value that is neither of the
listed kinds (class, instance, closure, map, …). -/
inductive Val
  | nil
  | bool (b : Bool)
  | num (bits : UInt64)
  | str (s : List UInt8)
  | vec (xs : List Val)
  | tuple (xs : List Val)
  | range (b e : Int)
  | strIter (s : List UInt8) (pos : Nat)   -- ObjStringIter { iterable, pos }
  | stopIter
  | other
deriving Repr, Inhabited

/-! `deriving DecidableEq` does not handle the nested `List Val`; a hand-written decision procedure. -/

mutual
def Val.beq : Val → Val → Bool
  | .nil, .nil => true
  | .bool a, .bool b => a == b
  | .num a, .num b => a == b
  | .str a, .str b => a == b
  | .vec a, .vec b => Val.beqList a b
  | .tuple a, .tuple b => Val.beqList a b
  | .range a b, .range c d => a == c && b == d
  | .strIter a b, .strIter c d => a == c && b == d
  | .stopIter, .stopIter => true
  | .other, .other => true
  | _, _ => false
def Val.beqList : List Val → List Val → Bool
  | [], [] => true
  | a :: as, b :: bs => Val.beq a b && Val.beqList as bs
  | _, _ => false
end

mutual
theorem Val.eq_of_beq : ∀ (a b : Val), Val.beq a b = true → a = b
  | .nil, b, h => by cases b <;> simp_all [Val.beq]
  | .bool x, b, h => by cases b <;> simp_all [Val.beq]
  | .num x, b, h => by cases b <;> simp_all [Val.beq]
  | .str x, b, h => by cases b <;> simp_all [Val.beq]
  | .vec xs, b, h => by
    cases b <;> simp_all [Val.beq]
    exact Val.eq_of_beqList _ _ h
  | .tuple xs, b, h => by
    cases b <;> simp_all [Val.beq]
    exact Val.eq_of_beqList _ _ h
  | .range x y, b, h => by cases b <;> simp_all [Val.beq]
  | .strIter x y, b, h => by cases b <;> simp_all [Val.beq]
  | .stopIter, b, h => by cases b <;> simp_all [Val.beq]
  | .other, b, h => by cases b <;> simp_all [Val.beq]
theorem Val.eq_of_beqList : ∀ (as bs : List Val), Val.beqList as bs = true → as = bs
  | [], bs, h => by cases bs <;> simp_all [Val.beqList]
  | a :: as, bs, h => by
    cases bs with
    | nil => simp [Val.beqList] at h
    | cons b bs =>
      simp only [Val.beqList, Bool.and_eq_true] at h
      rw [Val.eq_of_beq a b h.1, Val.eq_of_beqList as bs h.2]
end

mutual
theorem Val.beq_refl : ∀ (a : Val), Val.beq a a = true
  | .nil => by simp [Val.beq]
  | .bool x => by simp [Val.beq]
  | .num x => by simp [Val.beq]
  | .str x => by simp [Val.beq]
  | .vec xs => by simp only [Val.beq]; exact Val.beqList_refl xs
  | .tuple xs => by simp only [Val.beq]; exact Val.beqList_refl xs
  | .range x y => by simp [Val.beq]
  | .strIter x y => by simp [Val.beq]
  | .stopIter => by simp [Val.beq]
  | .other => by simp [Val.beq]
theorem Val.beqList_refl : ∀ (as : List Val), Val.beqList as as = true
  | [] => by simp [Val.beqList]
  | a :: as => by simp only [Val.beqList, Bool.and_eq_true]; exact ⟨Val.beq_refl a, Val.beqList_refl as⟩
end

instance : DecidableEq Val := fun a b =>
  if h : Val.beq a b = true then isTrue (Val.eq_of_beq a b h)
  else isFalse (fun heq => h (heq ▸ Val.beq_refl a))

/-- The `kind` / `type_name` string passed to the bounds functions. -/
inductive Kind | String | Vec | Tuple
deriving DecidableEq, Repr, Inhabited

/-- The `desc` string passed to `validate_char_boundary`. -/
inductive Desc | stringIndex | sliceStart | sliceEnd
deriving DecidableEq, Repr, Inhabited

/-- Error messages as templates + the values interpolated into them (numbers stay bit patterns; their
text is verified separately). The template ids used on the wire are listed in `Yarel/Drv/Str.lean`. -/
inductive Msg
  | expectedInteger (found : Val)        -- "Expected an integer value but found '{}'."
  | indexOutOfBounds (k : Kind)          -- "{} index out of bounds."
  | sliceStartOutOfRange (k : Kind)      -- "{} slice start out of range."
  | sliceEndOutOfRange (k : Kind)        -- "{} slice end out of range."
  | notCharBoundary (d : Desc)           -- "Provided {} is not on a character boundary."
  | expectedIntOrRange                   -- "Expected an integer or range."
  | notIndexable (v : Val)               -- "Value '{}' is not indexable."
  | onlyVecAssignable                    -- "Only Vec objects are index-assignable."
  | numArgs (expected found : Nat)       -- "Expected {} parameter{} but found {}."
  | expectedVec (found : Val)            -- "Expected a Vec instance but found '{}'."
  | expectedNumber (found : Val)         -- "Expected a number but found '{}'."
  | expectedByte (bits : UInt64)         -- "Expected a positive integer less than 256 but found '{}'."
  | expectedU32 (bits : UInt64)          -- "Expected a positive integer less than {} but found '{}'." (4294967295)
  | invalidCodePoint (cp : Nat)          -- "Expected a valid Unicode code point but found '{}'."
  | unableToCreate                       -- "Unable to create a string from byte sequence."
  | invalidUnicode (byte index : Nat)    -- "Invalid Unicode encountered at byte {} with index {}."
  | expectedString (found : Val)         -- "Expected a string but found '{}'."
  | cannotFindEmpty                      -- "Cannot find empty string."
  | cannotReplaceEmpty                   -- "Cannot replace empty string."
  | cannotSplitEmpty                     -- "Cannot split using an empty string."
  | charIndexOutOfRange                  -- "Provided character index out of range."
  | unableToParse (s : List UInt8)       -- "Unable to parse number from '{}'."
  | undefinedProperty                    -- "Undefined property '{}'." (vm.rs: method lookup failed)
deriving Repr, Inhabited, DecidableEq

structure Err where
  kind : ErrKind
  msg : Msg
deriving Repr, Inhabited, DecidableEq

/-- Places where the Rust code would panic (slice/index out of range or off a char boundary, `unwrap`
on `None`, integer overflow in a debug build). -/
inductive Site
  | elemIndex        -- `elements[index]`                    (vm.rs slice_get_item)
  | elemSlice        -- `&elements[begin..end]`              (vm.rs slice_get_item)
  | setIndex         -- `borrowed_vec.elements[index] = ..`  (vm.rs set_item_impl)
  | iterElem         -- `elements[self.current]`             (object.rs Obj{Vec,Tuple}Iter::next)
  | rangeIterOverflow-- `self.current += self.step`          (object.rs ObjRangeIter::next)
  | strSlice         -- `&string.as_str()[begin..end]`       (vm.rs string_get_item)
  | iterSlice        -- `&iterable[begin..end]`              (core.rs string_iter_next)
  | findSlice        -- `&string[i..i + substring.len()]`    (core.rs string_find)
  | fromUtf8Byte     -- `e.into_bytes()[index]`              (core.rs string_from_utf8)
  | charsInvalid     -- `chars()` over a non-UTF-8 `str` (undefined behaviour)
  | modelFuel        -- not a Rust site: a model loop ran out of fuel (proved unreachable)
deriving DecidableEq, Repr, Inhabited

inductive Outcome (α : Type)
  | ok (a : α)
  | err (e : Err)
  | fault (site : Site)
deriving Repr, Inhabited, DecidableEq

def Outcome.isFault {α : Type} : Outcome α → Bool
  | .fault _ => true
  | _ => false

def mkErr {α : Type} (k : ErrKind) (m : Msg) : Outcome α := .err ⟨k, m⟩

/-- `?`-style sequencing: errors and faults propagate. -/
def Outcome.bind {α β : Type} (o : Outcome α) (f : α → Outcome β) : Outcome β :=
  match o with
  | .ok a => f a
  | .err e => .err e
  | .fault s => .fault s

/-- `utils::validate_integer`: not a number -> TypeError; `n.trunc() != n` (fractional or NaN) ->
ValueError; else the saturating cast `n as isize` (so ±inf pass and saturate). -/
def validateInteger (v : Val) : Outcome Int :=
  match v with
  | .num b =>
    if F64.isIntegral b then .ok (F64.toIsize b)
    else mkErr .ValueError (.expectedInteger v)
  | _ => mkErr .TypeError (.expectedInteger v)

/-- `if i < 0 { i + len } else { i }` on `isize` (no overflow: `i < 0 ≤ len`). -/
def normIdx (i : Int) (len : Nat) : Int := if i < 0 then i + (len : Int) else i

/-- `Value::try_as_bounded_index(bound, kind)`. -/
def boundedIndex (v : Val) (len : Nat) (k : Kind) : Outcome Nat :=
  match validateInteger v with
  | .ok i =>
    let idx : Int := normIdx i len
    if idx < 0 ∨ idx ≥ (len : Int) then mkErr .IndexError (.indexOutOfBounds k)
    else .ok idx.toNat
  | .err e => .err e
  | .fault s => .fault s

/-- `ObjRange::make_bounded_range(limit, type_name)`. Note `begin >= limit` is an error, so every
range over an empty sequence is an error; a reversed range yields the empty range `(begin, begin)`. -/
def boundedRange (b e : Int) (len : Nat) (k : Kind) : Outcome (Nat × Nat) :=
  let b' : Int := normIdx b len
  if b' < 0 ∨ b' ≥ (len : Int) then mkErr .IndexError (.sliceStartOutOfRange k)
  else
    let e' : Int := normIdx e len
    if e' < 0 ∨ e' > (len : Int) then mkErr .IndexError (.sliceEndOutOfRange k)
    else .ok (b'.toNat, (if e' ≥ b' then e' else b').toNat)

inductive IndexResult (α : Type)
  | scalar (a : α)
  | slice (l : List α)
deriving Repr, DecidableEq

/-- `Vm::slice_get_item(elements, kind)` with the index value `idx`. -/
def sliceGetItem {α : Type} (elems : List α) (idx : Val) (k : Kind) : Outcome (IndexResult α) :=
  match idx with
  | .num _ =>
    match boundedIndex idx elems.length k with
    | .ok i =>
      match elems[i]? with
      | some v => .ok (.scalar v)
      | none => .fault .elemIndex
    | .err e => .err e
    | .fault s => .fault s
  | .range b e =>
    match boundedRange b e elems.length k with
    | .ok (lo, hi) =>
      if lo ≤ hi ∧ hi ≤ elems.length then .ok (.slice ((elems.drop lo).take (hi - lo)))
      else .fault .elemSlice
    | .err e => .err e
    | .fault s => .fault s
  | _ => mkErr .TypeError .expectedIntOrRange

/-- `Vm::tuple_get_item`. -/
def tupleGetItem (elems : List Val) (idx : Val) : Outcome Val :=
  match sliceGetItem elems idx .Tuple with
  | .ok (.scalar v) => .ok v
  | .ok (.slice l) => .ok (.tuple l)
  | .err e => .err e
  | .fault s => .fault s

/-- `Vm::vec_get_item`. -/
def vecGetItem (elems : List Val) (idx : Val) : Outcome Val :=
  match sliceGetItem elems idx .Vec with
  | .ok (.scalar v) => .ok v
  | .ok (.slice l) => .ok (.vec l)
  | .err e => .err e
  | .fault s => .fault s

/-- `Vm::set_item_impl`: `recv[idx] = value`; the result is the updated receiver (the expression itself
evaluates to nil). -/
def setItem (recv idx value : Val) : Outcome Val :=
  match recv with
  | .vec xs =>
    match boundedIndex idx xs.length .Vec with
    | .ok i => if i < xs.length then .ok (.vec (xs.set i value)) else .fault .setIndex
    | .err e => .err e
    | .fault s => .fault s
  | _ => mkErr .TypeError .onlyVecAssignable

/-- `Vm::build_range_impl`: `begin..end`; `end` is popped and validated first. -/
def buildRange (b e : Val) : Outcome Val :=
  match validateInteger e with
  | .ok ei =>
    match validateInteger b with
    | .ok bi => .ok (.range bi ei)
    | .err err => .err err
    | .fault s => .fault s
  | .err err => .err err
  | .fault s => .fault s

/-- `ObjVecIter::next` / `ObjTupleIter::next`: `(yielded?, new current)`. -/
def elemIterNext (elems : List Val) (cur : Nat) : Outcome (Option Val × Nat) :=
  if cur ≥ elems.length then .ok (none, cur)
  else match elems[cur]? with
    | some v => .ok (some v, cur + 1)
    | none => .fault .iterElem

/-- `ObjRangeIter::new`: `(current, step)`. -/
def rangeIterNew (b e : Int) : Int × Int := (b, if b < e then 1 else -1)

/-- `ObjRangeIter::next` for a range ending at `e`: `(yielded isize?, new current)`; the yielded value
becomes `Value::Number(current as f64)`. -/
def rangeIterNext (e : Int) (cur step : Int) : Outcome (Option Int × Int) :=
  if cur = e then .ok (none, cur)
  else
    let nxt := cur + step
    if nxt < F64.isizeMin ∨ nxt > F64.isizeMax then .fault .rangeIterOverflow
    else .ok (some cur, nxt)

/-! ### `usize as f64` / `isize as f64` (round to nearest, ties to even) -/

/-- ⌊log₂ n⌋ for `0 < n < 2^64`. -/
def floorLog2 (n : Nat) : Nat :=
  (List.range 64).foldl (fun acc i => if 2 ^ (i + 1) ≤ n then i + 1 else acc) 0

/-- `n as f64` for `n < 2^64` (exact below 2^53). -/
def natToBits (n : Nat) : UInt64 :=
  if n = 0 then 0
  else
    let k := floorLog2 n
    if k ≤ 52 then UInt64.ofNat ((1023 + k) * 2 ^ 52 + (n * 2 ^ (52 - k) - 2 ^ 52))
    else
      let sh := k - 52
      let q := n / 2 ^ sh
      let r := n % 2 ^ sh
      let half := 2 ^ (sh - 1)
      let q' := if r > half ∨ (r = half ∧ q % 2 = 1) then q + 1 else q
      UInt64.ofNat ((1023 + k) * 2 ^ 52 + (q' - 2 ^ 52))

/-- `i as f64` for `-2^63 ≤ i < 2^63`. -/
def intToBits (i : Int) : UInt64 :=
  if i < 0 then natToBits i.natAbs ||| 0x8000000000000000 else natToBits i.toNat

end Yarel.Index
