/-
Root counting of the yarel heap (yarel/src/memory.rs: `GcBox::{inc_num_roots, dec_num_roots}`, `Root`, `UniqueRoot`,
`Gc`, `Heap::{allocate_root, allocate_unique}`).

Every `GcBox` carries `num_roots : Cell<usize>`; `Heap::mark_roots` marks exactly the boxes with `num_roots > 0`.
The counter is maintained by the handle types:

    allocate_root / allocate_unique   box created with num_roots = 0, then `root.inc_num_roots()`      (0 → 1)
    Clone for Root                    `ret.inc_num_roots()`
    From<Gc<T>> for Root<T>           `ret.inc_num_roots()`    (`Gc` itself is `Copy`, untracked, never counts)
    From<UniqueRoot<T>> for Root<T>   `fn from(root: UniqueRoot<T>) { let ret = Root{ptr: root.ptr}; ret.inc_num_roots(); ret }`
                                      `root` is taken by value and dropped at the end of `from` → `Drop for UniqueRoot`
                                      → `dec_num_roots()`:  inc then dec, net 0
    Drop for Root / UniqueRoot        `dec_num_roots()` = `num_roots.replace(num_roots.get() - 1)`
                                      on 0: `usize` underflow = panic (debug) / wrap to usize::MAX (release) → `Err.underflow`

The model state keeps the real counters plus a ghost multiset of the handles that are alive (owned by somebody).
The counter operations never look at the ghost part; the ghost part only says which sequences are legal
(safe Rust can only clone/convert/drop a handle it owns).  Objects are never removed here (sweeping is a different
model); `usize` is `Nat` (no overflow of `+ 1`).
-/
namespace Yarel.Roots

/-- A live handle: a `Root` (`unique = false`) or a `UniqueRoot` (`unique = true`) pointing to object `obj`. -/
structure Handle where
  obj : Nat
  unique : Bool
deriving Repr, DecidableEq

structure State where
  /-- `num_roots` of object `i` (objects are numbered in allocation order). -/
  numRoots : List Nat
  /-- ghost: the multiset of handles currently alive -/
  handles : List Handle
deriving Repr, DecidableEq

def init : State := { numRoots := [], handles := [] }

inductive Err where
  /-- `num_roots.get() - 1` with `num_roots = 0` -/
  | underflow (obj : Nat)
  /-- pointer to a box that does not exist (cannot be produced by the operations below from `init`) -/
  | dangling (obj : Nat)
deriving Repr, DecidableEq

inductive Op where
  /-- `Root::new` → `Heap::allocate_root` -/
  | newRoot
  /-- `UniqueRoot::new` → `Heap::allocate_unique` -/
  | newUnique
  /-- `Clone for Root` on a root of object `o` -/
  | cloneRoot (o : Nat)
  /-- `Root::from(gc)` / `Gc::as_root` for a `Gc` pointing to object `o` -/
  | rootFromGc (o : Nat)
  /-- `Root::from(unique_root)` -/
  | rootFromUnique (o : Nat)
  /-- `Drop for Root` -/
  | dropRoot (o : Nat)
  /-- `Drop for UniqueRoot` -/
  | dropUnique (o : Nat)
deriving Repr, DecidableEq

/-- `GcBox::inc_num_roots` -/
def inc (cs : List Nat) (o : Nat) : Except Err (List Nat) :=
  match cs[o]? with
  | none => .error (.dangling o)
  | some n => .ok (cs.set o (n + 1))

/-- `GcBox::dec_num_roots` -/
def dec (cs : List Nat) (o : Nat) : Except Err (List Nat) :=
  match cs[o]? with
  | none => .error (.dangling o)
  | some 0 => .error (.underflow o)
  | some (n + 1) => .ok (cs.set o n)

/-- One handle operation: the counter effect of the Rust code plus the ghost bookkeeping. -/
def step (st : State) : Op → Except Err State
  | .newRoot =>
    -- box pushed with num_roots = 0, then inc
    let o := st.numRoots.length
    match inc (st.numRoots ++ [0]) o with
    | .error e => .error e
    | .ok cs => .ok { numRoots := cs, handles := ⟨o, false⟩ :: st.handles }
  | .newUnique =>
    let o := st.numRoots.length
    match inc (st.numRoots ++ [0]) o with
    | .error e => .error e
    | .ok cs => .ok { numRoots := cs, handles := ⟨o, true⟩ :: st.handles }
  | .cloneRoot o =>
    match inc st.numRoots o with
    | .error e => .error e
    | .ok cs => .ok { numRoots := cs, handles := ⟨o, false⟩ :: st.handles }
  | .rootFromGc o =>
    match inc st.numRoots o with
    | .error e => .error e
    | .ok cs => .ok { numRoots := cs, handles := ⟨o, false⟩ :: st.handles }
  | .rootFromUnique o =>
    -- `ret.inc_num_roots()`, then the by-value `UniqueRoot` argument is dropped: `dec_num_roots()`
    match inc st.numRoots o with
    | .error e => .error e
    | .ok cs =>
      match dec cs o with
      | .error e => .error e
      | .ok cs' => .ok { numRoots := cs', handles := ⟨o, false⟩ :: st.handles.erase ⟨o, true⟩ }
  | .dropRoot o =>
    match dec st.numRoots o with
    | .error e => .error e
    | .ok cs => .ok { numRoots := cs, handles := st.handles.erase ⟨o, false⟩ }
  | .dropUnique o =>
    match dec st.numRoots o with
    | .error e => .error e
    | .ok cs => .ok { numRoots := cs, handles := st.handles.erase ⟨o, true⟩ }

def run (st : State) : List Op → Except Err State
  | [] => .ok st
  | op :: ops =>
    match step st op with
    | .error e => .error e
    | .ok st' => run st' ops

/-- The operation only uses a handle that is alive (what Rust ownership guarantees): cloning/dropping needs a
live `Root`, conversion/dropping of a `UniqueRoot` needs that live `UniqueRoot`, a `Gc` must point to an
existing box. -/
def Op.holds (st : State) : Op → Bool
  | .newRoot => true
  | .newUnique => true
  | .cloneRoot o => st.handles.contains ⟨o, false⟩
  | .rootFromGc o => decide (o < st.numRoots.length)
  | .rootFromUnique o => st.handles.contains ⟨o, true⟩
  | .dropRoot o => st.handles.contains ⟨o, false⟩
  | .dropUnique o => st.handles.contains ⟨o, true⟩

/-- Every operation of the sequence, as far as it gets executed, only uses handles it holds.
(If a step faults the rest is not executed and not constrained; `roots_exact` shows that never happens.) -/
def legal (st : State) : List Op → Bool
  | [] => true
  | op :: ops =>
    op.holds st &&
      match step st op with
      | .error _ => true
      | .ok st' => legal st' ops

/-- Number of live handles (of either kind) to object `o`. -/
def handleCount (st : State) (o : Nat) : Nat :=
  st.handles.count ⟨o, false⟩ + st.handles.count ⟨o, true⟩

end Yarel.Roots
