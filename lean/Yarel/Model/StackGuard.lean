/-
The value stack of a fiber (yarel/src/stack.rs: `Stack<T, N>` = boxed array of N cells + raw `top` pointer),
modelled twice:

* `stepC` – the CHECKED configuration (`cfg!(any(debug_assertions, feature = "safe_stack"))` true): every
  guard of stack.rs is present.  A guard that fires is recorded as `Out.guard site` (a panic for
  `peek/peek_mut/push`, a `None` for `pop` – which `Vm::pop` turns into a panic –, and, NOTE, a *silent clamp*
  for `truncate(size > len)`).
* `stepU` – the UNCHECKED configuration: the guards are absent, the raw pointer arithmetic is performed as
  written.  Reading or writing outside the N cells is undefined behaviour: the model returns `none`.
  Reading a cell inside the array but above `top` is defined (stale data) and modelled faithfully.

`Index`/`IndexMut` (`stack[i]`) index the whole boxed array with Rust's always-on bounds check in BOTH
configurations, so they are the same function in both models.
-/
namespace Yarel.StackGuard

abbrev Val := Nat

structure St where
  mem : List Val      -- the N cells (length N is an invariant, not needed for the theorems)
  top : Nat           -- `top - base`, i.e. `len()`
deriving DecidableEq, Repr

inductive Op where
  | peek (depth : Nat)
  | poke (depth : Nat) (v : Val)        -- `*peek_mut(depth) = v`
  | push (v : Val)
  | pop
  | truncate (size : Nat)
  | len
  | clear
  | index (i : Nat)                      -- `stack[i]`
  | setIndex (i : Nat) (v : Val)         -- `stack[i] = v`
deriving DecidableEq, Repr

inductive Site where
  | peekRange | pokeRange | pushOverflow | popEmpty | truncateGrow | indexRange
deriving DecidableEq, Repr

inductive Out where
  | val (v : Val)
  | unit
  | len (n : Nat)
  | guard (s : Site)
deriving DecidableEq, Repr

def St.N (s : St) : Nat := s.mem.length

/-- Checked configuration. A fired guard leaves the state as the real code leaves it. -/
def stepC (s : St) : Op → St × Out
  | .peek d =>
    if d ≥ s.top then (s, .guard .peekRange)
    else match s.mem[s.top - d - 1]? with
      | some v => (s, .val v)
      | none => (s, .guard .indexRange)
  | .poke d v =>
    if d ≥ s.top then (s, .guard .pokeRange)
    else if s.top - d - 1 < s.mem.length then ({ s with mem := s.mem.set (s.top - d - 1) v }, .unit)
    else (s, .guard .indexRange)
  | .push v =>
    if s.top = s.mem.length then (s, .guard .pushOverflow)
    else if s.top < s.mem.length then ({ mem := s.mem.set s.top v, top := s.top + 1 }, .unit)
    else (s, .guard .indexRange)
  | .pop =>
    if s.top = 0 then (s, .guard .popEmpty)
    else match s.mem[s.top - 1]? with
      | some v => ({ s with top := s.top - 1 }, .val v)
      | none => (s, .guard .indexRange)
  | .truncate n =>
    if n > s.top then ({ s with top := s.top }, .guard .truncateGrow)   -- silent clamp to len()
    else ({ s with top := n }, .unit)
  | .len => (s, .len s.top)
  | .clear => ({ s with top := 0 }, .unit)
  | .index i =>
    match s.mem[i]? with
    | some v => (s, .val v)
    | none => (s, .guard .indexRange)      -- slice index panic, both configurations
  | .setIndex i v =>
    if i < s.mem.length then ({ s with mem := s.mem.set i v }, .unit) else (s, .guard .indexRange)

/-- Unchecked configuration: raw pointer arithmetic; `none` = access outside the array (undefined behaviour). -/
def stepU (s : St) : Op → Option (St × Out)
  | .peek d =>
    if d + 1 > s.top then none                       -- pointer below the array
    else match s.mem[s.top - d - 1]? with
      | some v => some (s, .val v)
      | none => none
  | .poke d v =>
    if d + 1 > s.top then none
    else if s.top - d - 1 < s.mem.length then some ({ s with mem := s.mem.set (s.top - d - 1) v }, .unit)
    else none
  | .push v =>
    if s.top < s.mem.length then some ({ mem := s.mem.set s.top v, top := s.top + 1 }, .unit)
    else none                                        -- write past the end
  | .pop =>
    if s.top = 0 then none                           -- pointer below the array
    else match s.mem[s.top - 1]? with
      | some v => some ({ s with top := s.top - 1 }, .val v)
      | none => none
  | .truncate n => some ({ s with top := n }, .unit) -- no clamp: may GROW the stack over stale cells
  | .len => some (s, .len s.top)
  | .clear => some ({ s with top := 0 }, .unit)
  | .index i =>
    match s.mem[i]? with
    | some v => some (s, .val v)
    | none => some (s, .guard .indexRange)
  | .setIndex i v =>
    if i < s.mem.length then some ({ s with mem := s.mem.set i v }, .unit) else some (s, .guard .indexRange)

def runC (s : St) : List Op → St × List Out
  | [] => (s, [])
  | op :: ops =>
    let (s', o) := stepC s op
    let (s'', os) := runC s' ops
    (s'', o :: os)

def runU (s : St) : List Op → Option (St × List Out)
  | [] => some (s, [])
  | op :: ops =>
    match stepU s op with
    | none => none
    | some (s', o) =>
      match runU s' ops with
      | none => none
      | some (s'', os) => some (s'', o :: os)

def isGuard : Out → Bool
  | .guard _ => true
  | _ => false

end Yarel.StackGuard
