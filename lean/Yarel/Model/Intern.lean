/-
Bug-compatible executable model of yarel's string intern table
(`mod string_store` at the end of yarel/src/vm.rs, its only user `Vm::new_gc_obj_string`,
and the FNV hasher of yarel/src/hash.rs).

Rust                                         model
-------------------------------------------  ---------------------------------------------
`Root<ObjString>` (hash, bytes, identity)     `Entry` (hash, text, id)
`ObjStringStore {entries, size, mask}`        `Store`
`find_index` (unbounded `loop`)               `findIndex` (fuel = capacity; `Fault.spin` when the
                                              fuel runs out = the real loop would never return;
                                              `Fault.oob` where `entries[index]` would panic)
`get` / `insert` / `adjust_capacity`          `Store.get` / `Store.insert` / `Store.adjustCapacity`
`Vm::new_gc_obj_string`                       `intern` (hash function is a parameter), `internWith`
`FnvHasher` + `str::hash`                     `fnv`

Core Lean only (this file is linked into the executable).
-/
namespace Yarel.Intern

/-- A stored string object: cached hash, its bytes, and `id` = the identity of the allocation
(what pointer equality of `Gc<ObjString>` observes). -/
structure Entry where
  hash : UInt64
  text : List UInt8
  id : Nat
deriving DecidableEq, Repr

/-- The two ways the real code can fail to return: `spin` = `find_index` loops forever,
`oob` = an indexing panic (`entries[index]` with `index ≥ len`). -/
inductive Fault where
  | spin
  | oob
deriving DecidableEq, Repr

structure Store where
  entries : Array (Option Entry)
  size : Nat
  mask : Nat
deriving DecidableEq, Repr

/-- `INIT_CAPACITY`. -/
def initCapacity : Nat := 4

/-- `ObjStringStore::default()`. -/
def Store.empty : Store :=
  { entries := Array.replicate initCapacity none, size := 0, mask := initCapacity - 1 }

/-- The body of `find_index`'s `loop`, started at `index`, running at most `fuel` iterations.
Stops at an empty slot or at an entry with equal hash AND equal bytes. -/
def findIndexAux (es : Array (Option Entry)) (hash : UInt64) (text : List UInt8) (mask : Nat) :
    Nat → Nat → Except Fault Nat
  | 0, _ => .error .spin
  | fuel + 1, index =>
    match es[index]? with
    | none => .error .oob
    | some none => .ok index
    | some (some e) =>
      if e.hash = hash ∧ e.text = text then .ok index
      else findIndexAux es hash text mask fuel ((index + 1) &&& mask)

/-- `find_index(entries, (hash, text), mask)`; `hash as usize` is the identity on a 64-bit target.
Fuel = capacity: every slot is visited once; running out means the real loop never terminates. -/
def findIndex (es : Array (Option Entry)) (hash : UInt64) (text : List UInt8) (mask : Nat) :
    Except Fault Nat :=
  findIndexAux es hash text mask es.size (hash.toNat &&& mask)

/-- `ObjStringStore::get`. -/
def Store.get (s : Store) (hash : UInt64) (text : List UInt8) : Except Fault (Option Entry) :=
  match findIndex s.entries hash text s.mask with
  | .error f => .error f
  | .ok i =>
    match s.entries[i]? with
    | none => .error .oob
    | some slot => .ok slot

/-- The `for entry in self.entries.iter_mut()` loop of `adjust_capacity`: old slots in slot order,
occupied ones are moved to `find_index(&new_entries, key, mask)`. -/
def rehashInto (new : Array (Option Entry)) (mask : Nat) :
    List (Option Entry) → Except Fault (Array (Option Entry))
  | [] => .ok new
  | none :: rest => rehashInto new mask rest
  | some e :: rest =>
    match findIndex new e.hash e.text mask with
    | .error f => .error f
    | .ok i =>
      if h : i < new.size then rehashInto (new.set i (some e) h) mask rest
      else .error .oob

/-- `ObjStringStore::adjust_capacity`: all-empty array of the new capacity, rehash, `size` unchanged,
`mask = new_capacity - 1`. -/
def Store.adjustCapacity (s : Store) (newCap : Nat) : Except Fault Store :=
  match rehashInto (Array.replicate newCap none) (newCap - 1) s.entries.toList with
  | .error f => .error f
  | .ok es => .ok { entries := es, size := s.size, mask := newCap - 1 }

/-- The growth test of `insert`: `self.size + 1 > (self.entries.len() as f64 * MAX_LOAD) as usize`.
For `len` a power of two in `[4, 2^53]` the float product `len * 0.75` is exact and equals
`len * 3 / 4`, which is what the model computes. -/
def Store.needsGrow (s : Store) : Bool :=
  s.size + 1 > (s.entries.size * 3) / 4

/-- `ObjStringStore::insert` (the returned previous value is dropped by the only caller and is not
modelled). An existing equal key is REPLACED, as in the Rust (`entry.replace(value)`). -/
def Store.insert (s : Store) (e : Entry) : Except Fault Store :=
  match (if s.needsGrow then s.adjustCapacity (s.entries.size * 2) else .ok s) with
  | .error f => .error f
  | .ok s =>
    match findIndex s.entries e.hash e.text s.mask with
    | .error f => .error f
    | .ok i =>
      if h : i < s.entries.size then
        .ok { entries := s.entries.set i (some e) h
              size := if s.entries[i].isNone then s.size + 1 else s.size
              mask := s.mask }
      else .error .oob

/-- Interpreter state as far as interning is concerned: the store and the allocation counter. -/
abbrev State := Store × Nat

def State.init : State := (Store.empty, 0)

/-- `new_gc_obj_string` with the hash given explicitly: look up `(hash, text)`; on a hit return the
stored object's id; on a miss allocate a fresh object, insert it, return its id. -/
def internWith (hash : UInt64) (st : State) (text : List UInt8) : Except Fault (State × Nat) :=
  match st.1.get hash text with
  | .error f => .error f
  | .ok (some e) => .ok (st, e.id)
  | .ok none =>
    match st.1.insert { hash := hash, text := text, id := st.2 } with
    | .error f => .error f
    | .ok s' => .ok ((s', st.2 + 1), st.2)

/-- `new_gc_obj_string` with hash function `H`. -/
def intern (H : List UInt8 → UInt64) (st : State) (text : List UInt8) : Except Fault (State × Nat) :=
  internWith (H text) st text

/-- Intern a sequence of texts left to right, collecting the returned ids. -/
def internAll (H : List UInt8 → UInt64) : State → List (List UInt8) → Except Fault (State × List Nat)
  | st, [] => .ok (st, [])
  | st, t :: ts =>
    match intern H st t with
    | .error f => .error f
    | .ok (st', id) =>
      match internAll H st' ts with
      | .error f => .error f
      | .ok (st'', ids) => .ok (st'', id :: ids)

/-- `FnvHasher::write`: `hash ^= c; hash = (hash as u128 * 16777619) as u64` (= wrapping u64 multiply). -/
def fnvWrite (h : UInt64) (bytes : List UInt8) : UInt64 :=
  bytes.foldl (fun h c => (h ^^^ c.toUInt64) * 16777619) h

/-- The hash `new_gc_obj_string` computes: `str::hash` writes the bytes, then the byte `0xff`. -/
def fnv (text : List UInt8) : UInt64 :=
  fnvWrite (fnvWrite 2166136261 text) [0xff]

end Yarel.Intern
