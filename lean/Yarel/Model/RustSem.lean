/-
The meaning given to the Rust constructs that `xlate`'s function-body translator (xlate/src/fnbody.rs) emits into
`Yarel/Gen/Fns.lean`.  Hand-written, fixed; part of the trusted base of every theorem in `Props/FnsTie.lean`.

Representation of Rust types
* `usize`, `isize`, `i64`, `i32`          `Int`, arithmetic CHECKED: a result outside the type's range is `M.panic`
                                          (what a debug build does; a release build wraps - C10 covers that difference).
* `u8`, `u16`, `u32`, `u64`, `u128`       `BitVec w`; `+ - *` checked, `wrapping_*`/`^ & | !` are the bit-vector operations.
* `f64`                                   its bit pattern (`UInt64`), operations are those of the verified soft-float `Yarel.F64`.
* `bool`                                  `Bool`
* `Option<T>`, `Result<T, Error>`         `Option`, `Except Rs.Err`
* `Vec<T>`/slices that are only read      `List`
* `Value`                                 `Rs.Value` (only the variants the translated functions distinguish)

`M α` = a computation that either yields `α` or panics (overflow, index out of range, `unwrap` on `None`, `panic!`).
-/
import Yarel.Model.F64Core
import Yarel.Model.F64
import Yarel.Model.Index
namespace Yarel.Rs

inductive M (α : Type) where
  | ok (a : α)
  | panic
deriving Repr, DecidableEq

@[inline] def M.bind {α β : Type} (m : M α) (f : α → M β) : M β :=
  match m with
  | .ok a => f a
  | .panic => .panic

@[simp] theorem M.bind_ok {α β : Type} (a : α) (f : α → M β) : M.bind (.ok a) f = f a := rfl
@[simp] theorem M.bind_panic {α β : Type} (f : α → M β) : M.bind (.panic : M α) f = .panic := rfl

def M.isPanic {α : Type} : M α → Bool
  | .panic => true
  | .ok _ => false

/-- An `Error` as built by the `error!` macro: the kind, the format string and the source text of the arguments. -/
structure Err where
  kind : String
  fmt : String
  args : List String
deriving Repr, DecidableEq

/-- `value.rs: Value`, as far as the translated functions look at it. -/
inductive Value where
  | Number (bits : UInt64)
  | Boolean (b : Bool)
  | None
  | Other (tag : Nat)
deriving Repr, DecidableEq

/-! ### machine integers kept as `Int` -/

inductive ITy | usize | isize | i64 | i32
deriving DecidableEq, Repr

def ITy.lo : ITy → Int
  | .usize => 0
  | .isize => -9223372036854775808
  | .i64 => -9223372036854775808
  | .i32 => -2147483648
def ITy.hi : ITy → Int
  | .usize => 18446744073709551615
  | .isize => 9223372036854775807
  | .i64 => 9223372036854775807
  | .i32 => 2147483647

def ITy.fits (t : ITy) (x : Int) : Bool := decide (t.lo ≤ x) && decide (x ≤ t.hi)

def ck (t : ITy) (x : Int) : M Int := if t.fits x then .ok x else .panic

def iadd (t : ITy) (a b : Int) : M Int := ck t (a + b)
def isub (t : ITy) (a b : Int) : M Int := ck t (a - b)
def imul (t : ITy) (a b : Int) : M Int := ck t (a * b)
def ineg (t : ITy) (a : Int) : M Int := ck t (-a)

/-- `x as T` between the `Int`-represented types: two's-complement wrap into the target's range. -/
def iwrap (t : ITy) (x : Int) : Int :=
  let w : Int := t.hi - t.lo + 1
  (x - t.lo) % w + t.lo

/-! ### bit-vector integers -/

def bvadd {w : Nat} (a b : BitVec w) : M (BitVec w) := if a.toNat + b.toNat < 2 ^ w then .ok (a + b) else .panic
def bvsub {w : Nat} (a b : BitVec w) : M (BitVec w) := if b.toNat ≤ a.toNat then .ok (a - b) else .panic
def bvmul {w : Nat} (a b : BitVec w) : M (BitVec w) := if a.toNat * b.toNat < 2 ^ w then .ok (a * b) else .panic
/-- `wrapping_shl(n)` / `wrapping_shr(n)`: the shift amount is taken modulo the width. -/
def wshl {w : Nat} (a : BitVec w) (n : Nat) : BitVec w := a <<< (n % w)
def wshr {w : Nat} (a : BitVec w) (n : Nat) : BitVec w := a >>> (n % w)

/-! ### casts -/

def bvOfInt (w : Nat) (x : Int) : BitVec w := BitVec.ofInt w x
def intOfBv {w : Nat} (t : ITy) (a : BitVec w) : Int := iwrap t (a.toNat : Int)

/-! ### `f64` (bit patterns) -/

def f64Zero : UInt64 := 0
def f64Eq (a b : UInt64) : Bool := F64.eq a b
def f64Ne (a b : UInt64) : Bool := !F64.eq a b
def f64Lt (a b : UInt64) : Bool := F64.lt a b
/-- `n.trunc() != n`. -/
def f64TruncNe (n : UInt64) : Bool := !F64.isIntegral n
/-- `n as isize`. -/
def f64ToIsize (n : UInt64) : Int := F64.toIsize n

/-! arithmetic on `f64` (the verified soft-float) and the `i64` detour of the bit operators -/
def f64Add (a b : UInt64) : UInt64 := F64.add a b
def f64Sub (a b : UInt64) : UInt64 := F64.sub a b
def f64Mul (a b : UInt64) : UInt64 := F64.mul a b
def f64Div (a b : UInt64) : UInt64 := F64.div a b
/-- Rust `%` on `f64` (C `fmod`). -/
def f64Rem (a b : UInt64) : UInt64 := F64.fmod a b
def f64Neg (a : UInt64) : UInt64 := F64.neg a
/-- `x as f64` for an `i64`. -/
def i64ToF64 (i : Int) : UInt64 := F64.ofInt i
/-- `x as u32` for an `f64` (saturating, NaN to 0). -/
def f64ToU32 (b : UInt64) : BitVec 32 := BitVec.ofNat 32 (F64.toU32Sat b)
/-- `&`, `|`, `^`, `!` on `i64` (two's complement). -/
def i64And (a b : Int) : Int := F64.uToI64 (F64.i64ToU a &&& F64.i64ToU b)
def i64Or (a b : Int) : Int := F64.uToI64 (F64.i64ToU a ||| F64.i64ToU b)
def i64Xor (a b : Int) : Int := F64.uToI64 (F64.i64ToU a ^^^ F64.i64ToU b)
def i64Not (a : Int) : Int := -a - 1
/-- `i64::checked_shl(n)` / `checked_shr(n)`: `None` when `n >= 64`; `shl` drops the bits shifted out, `shr` is arithmetic. -/
def checkedShl64 (a : Int) (n : BitVec 32) : Option Int :=
  if n.toNat < 64 then some (F64.uToI64 (F64.i64ToU a * 2 ^ n.toNat)) else none
def checkedShr64 (a : Int) (n : BitVec 32) : Option Int :=
  if n.toNat < 64 then some (a / ((2 ^ n.toNat : Nat) : Int)) else none

/-- `x as usize` for an `f64` (saturating, NaN and negatives to 0, truncating). -/
def f64ToUsize (b : UInt64) : Int :=
  if F64.isNaN b then 0
  else if F64.signBit b then 0
  else if F64.isInf b then 18446744073709551615
  else ((min (F64.truncMag b) 18446744073709551615 : Nat) : Int)

/-- `i as f64` for an `isize` / `usize` (round to nearest even above 2^53). -/
def isizeToF64 (i : Int) : UInt64 := Index.intToBits i
def usizeToF64 (i : Int) : UInt64 := Index.natToBits i.toNat

/-! ### opaque calls (callees that are not translated), recorded in order -/

inductive Arg where
  | i (x : Int)
  | n (x : Nat)
  | b (x : Bool)
  | s (x : String)
deriving Repr, DecidableEq

structure Eff where
  callee : String
  args : List Arg
deriving Repr, DecidableEq

/-! ### sequences -/

def idx {α : Type} (l : List α) (i : Int) : M α :=
  if i < 0 then .panic else
  match l[i.toNat]? with
  | some a => .ok a
  | none => .panic

/-- `v[i] = x`. -/
def setIdx {α : Type} (l : List α) (i : Int) (x : α) : M (List α) :=
  if i < 0 then .panic else if i.toNat < l.length then .ok (l.set i.toNat x) else .panic

/-- `v[i].field = x` on a vector of records: the element is rebuilt by `f`; out of range panics. -/
def modifyIdx {α : Type} (l : List α) (i : Int) (f : α → α) : M (List α) :=
  if i < 0 then .panic else
    match l[i.toNat]? with
    | some e => .ok (l.set i.toNat (f e))
    | none => .panic

/-- `v.last_mut().unwrap().field = x`: panics on an empty vector. -/
def modifyLast {α : Type} (l : List α) (f : α → α) : M (List α) :=
  match l.getLast? with
  | some e => .ok (l.dropLast ++ [f e])
  | none => .panic

def len {α : Type} (l : List α) : Int := (l.length : Int)

/-- `for x in xs { state = f x state }`. -/
def forIn {α σ : Type} (xs : List α) (init : σ) (f : α → σ → M σ) : M σ :=
  match xs with
  | [] => .ok init
  | x :: rest => M.bind (f x init) fun s => forIn rest s f

/-- `for x in xs.iter_mut() { … }`: every pass gets its element and the carried state and answers what the element holds afterwards
and the next state; the answer is the rewritten list and the final state. -/
def forInMut {α σ : Type} (xs : List α) (init : σ) (f : α → σ → M (α × σ)) : M (List α × σ) :=
  match xs with
  | [] => .ok ([], init)
  | x :: rest =>
    M.bind (f x init) fun r =>
    M.bind (forInMut rest r.2 f) fun q => .ok (r.1 :: q.1, q.2)

/-- `for x in xs { … }` whose body may leave the enclosing function: every pass answers `inl next-state` or `inr answer`; an answer ends
the loop at once (Rust's `return` inside the loop). -/
def forInBrk {α σ β : Type} (xs : List α) (init : σ) (f : α → σ → M (Sum σ β)) : M (Sum σ β) :=
  match xs with
  | [] => .ok (.inl init)
  | x :: rest =>
    match f x init with
    | .panic => .panic
    | .ok (.inr b) => .ok (.inr b)
    | .ok (.inl s) => forInBrk rest s f

/-- `xs.iter().enumerate()`: every element with its position (a `usize`, carried as an `Int`). -/
def enumerateFrom {α : Type} : Int → List α → List (Int × α)
  | _, [] => []
  | i, x :: rest => (i, x) :: enumerateFrom (i + 1) rest

def enumerate {α : Type} (xs : List α) : List (Int × α) := enumerateFrom 0 xs

/-- `loop { … }` with an explicit bound on the number of iterations (the bound is a parameter of the generated function;
running out of it is reported as `none`, never silently). `f` answers `inl next-state` to continue, `inr result` to leave. -/
def loopN {σ β : Type} (fuel : Nat) (s : σ) (f : σ → M (Sum σ β)) : M (Option β) :=
  match fuel with
  | 0 => .ok none
  | n + 1 =>
    match f s with
    | .panic => .panic
    | .ok (.inr b) => .ok (some b)
    | .ok (.inl s') => loopN n s' f

def unwrap {α : Type} : Option α → M α
  | some a => .ok a
  | none => .panic

end Yarel.Rs

namespace Yarel.Rs

/-! ### the abstract interpreter state of the translated `Vm` methods

`stack` is the ACTIVE fiber's value stack, bottom first (Rust's order: `push` appends); `ip` is the offset of the next byte in
`code` (vm.rs keeps a raw pointer into the chunk); `consts` = `active_chunk.constants`; `slotBase` = the current frame's base;
`raised` = the errors handed to `try_handle_error`, in order, and `handled` what that call answers (whether a handler took the
error is decided by the exception machinery, which these one-instruction methods do not look at).
Meaning of the intrinsics (each is a one- or two-line method of vm.rs / stack.rs): `pop` = `stack.pop().expect(..)` (panics on an
empty stack in checked builds; unchecked builds read below the array - C10), `peek(d)` = the d-th value from the top, `push`
appends (the 16384-slot capacity is not modelled: finding F6), `read_byte`/`read_short` fetch at `ip` (little-endian) and advance. -/
/-- object.rs `ExcHandler`; code addresses are offsets. -/
structure Handler where
  catch_ip : Int
  finally_ip : Int
  init_stack_size : Int
  frame_count : Int
deriving Repr, DecidableEq

/-- A call frame (object.rs `CallFrame`): the resume point, the base of its slots on the value stack, and its closure as a value. -/
structure FrameRec where
  ip : Int
  slotBase : Int
  closure : Value
deriving Repr, DecidableEq

/-- A closure as the call mechanism sees it: the number of slots its function reserves (`function.arity` = parameters + 1), the
first instruction of its code, and the closure as a value. -/
structure ClosureRec where
  arity : Int
  entry : Int
  value : Value
deriving Repr, DecidableEq

/-- A fiber that is NOT running (a caller waiting for the running one, a suspended one, a new one, a finished one): what is parked of it
when control leaves it, and what `load_fiber`/`unload_fiber` read and write of a fiber other than the running one. -/
structure FiberRec where
  stack : List Value
  handlers : List Handler
  /-- `frames.len()` (0 = finished) -/
  frames : Int
  /-- `frames.last().ip`: the resume point -/
  frameIp : Int
  returnIp : Option Int
  returnValue : Value
  errorIp : Option (Int × Int)
  /-- `caller`: the fiber that is waiting for this one -/
  caller : Option Nat
  /-- the first instruction of `frames[0].closure` -/
  entryIp : Int
  /-- `frames[0].closure`, as a value -/
  closure0 : Value
  /-- the exception-in-flight flag as it stood when control last left the fiber (`ObjFiber::handling_exception`) -/
  handling : Bool := false
  /-- the current frame's `slot_base` and closure, and the frames below it (outermost first) -/
  slotBase : Int := 0
  curClosure : Value := .None
  outer : List FrameRec := []
deriving Repr

structure Vm where
  stack : List Value
  ip : Int
  code : List (BitVec 8)
  consts : List Value
  slotBase : Int
  raised : List Err
  handled : Except Err Unit
  /-- `fiber.exc_handlers` in Rust's order: the innermost handler is the LAST element -/
  handlers : List Handler := []
  /-- `fiber.frames.len()` -/
  frames : Int := 1
  /-- the `ip` field of the current call frame (what `load_frame` loads) -/
  frameIp : Int := 0
  returnIp : Option Int := none
  returnValue : Value := .None
  /-- `Vm::handling_exception` -/
  handling : Bool := false
  errorIp : Option (Int × Int) := none
  /-- every `close_upvalues(index)` so far, with the height of the value stack at that moment -/
  closed : List (Int × Int) := []
  /-- `Vm::fiber`: the running fiber (a fiber is named by a number; `stack`, `handlers`, `frames`, `frameIp`, `returnIp`, `returnValue`,
  `errorIp` above and `caller`, `entryIp`, `closure0` below are ITS components - what `active_fiber()` denotes in a checked build) -/
  curId : Option Nat := some 0
  /-- `Vm::unsafe_fiber` (what `active_fiber()` denotes in an unchecked build; `none` = null) -/
  unsafeId : Option Nat := some 0
  /-- the running fiber's `caller` -/
  caller : Option Nat := none
  entryIp : Int := 0
  closure0 : Value := .None
  /-- every other fiber, by its number -/
  parked : List (Nat × FiberRec) := []
  /-- the running fiber's current frame's closure, and its frames BELOW the current one (outermost first); the current frame is
  (`frameIp`, `slotBase`, `curClosure`), `frames` counts all of them -/
  curClosure : Value := .None
  outer : List FrameRec := []
  /-- the running fiber's `handling_exception` field (the copy of `handling` that travels with the fiber) -/
  fiberHandling : Bool := false
deriving Repr

def Vm.pop (vm : Vm) : M (Value × Vm) :=
  match vm.stack.getLast? with
  | some v => .ok (v, { vm with stack := vm.stack.dropLast })
  | none => .panic

def Vm.push (vm : Vm) (v : Value) : Vm := { vm with stack := vm.stack ++ [v] }

def Vm.peek (vm : Vm) (d : Int) : M Value :=
  if d < 0 then .panic
  else if d.toNat < vm.stack.length then
    match vm.stack[vm.stack.length - 1 - d.toNat]? with
    | some v => .ok v
    | none => .panic
  else .panic

def Vm.poke (vm : Vm) (d : Int) (v : Value) : M Vm :=
  if d < 0 then .panic
  else if d.toNat < vm.stack.length then .ok { vm with stack := vm.stack.set (vm.stack.length - 1 - d.toNat) v }
  else .panic

def Vm.discard (vm : Vm) (n : Int) : M Vm :=
  if n < 0 then .panic
  else if n.toNat ≤ vm.stack.length then .ok { vm with stack := vm.stack.take (vm.stack.length - n.toNat) }
  else .panic

def Vm.readByte (vm : Vm) : M (BitVec 8 × Vm) :=
  M.bind (idx vm.code vm.ip) fun b => .ok (b, { vm with ip := vm.ip + 1 })

def Vm.readShort (vm : Vm) : M (BitVec 16 × Vm) :=
  M.bind (idx vm.code vm.ip) fun lo =>
  M.bind (idx vm.code (vm.ip + 1)) fun hi =>
  .ok ((hi.setWidth 16 <<< 8) ||| lo.setWidth 16, { vm with ip := vm.ip + 2 })

def Vm.popHandler (vm : Vm) : M (Option Handler × Vm) :=
  .ok (vm.handlers.getLast?, { vm with handlers := vm.handlers.dropLast })

def Vm.takeReturnIp (vm : Vm) : M (Option Int × Vm) := .ok (vm.returnIp, { vm with returnIp := none })

/-- `stack.truncate(n)`: beyond the current height the checked and the unchecked builds differ (stack.rs), so that is a panic here. -/
def Vm.truncateStack (vm : Vm) (n : Int) : M Vm :=
  if n < 0 then .panic else if n.toNat ≤ vm.stack.length then .ok { vm with stack := vm.stack.take n.toNat } else .panic

/-- `frames.truncate(n)` (`Vec::truncate`: no effect when there are no more than n): the frames above the n-th are dropped, the n-th
becomes the current one. -/
def Vm.truncateFrames (vm : Vm) (n : Int) : Vm :=
  if vm.frames ≤ n then vm
  else
    let keep := (vm.outer ++ [(⟨vm.frameIp, vm.slotBase, vm.curClosure⟩ : FrameRec)]).take n.toNat
    match keep.getLast? with
    | some c => { vm with frames := n, outer := keep.dropLast, frameIp := c.ip, slotBase := c.slotBase, curClosure := c.closure }
    | none => { vm with frames := n, outer := [] }

/-- `frames.pop()` (as a statement: the popped frame is dropped; nothing happens when there is none). -/
def Vm.popFrame (vm : Vm) : Vm := if vm.frames ≤ 0 then vm else vm.truncateFrames (vm.frames - 1)

/-- `ObjFiber::push_call_frame(closure)`: the current frame goes below, the new one starts at the closure's first instruction with
its slots beginning `arity` below the top of the value stack (`self.stack.len() - arity`: a checked subtraction). -/
def Vm.pushCallFrame (vm : Vm) (c : ClosureRec) : M Vm :=
  M.bind (isub .usize (vm.stack.length : Int) c.arity) fun base =>
  .ok { vm with
    outer := if vm.frames ≤ 0 then [] else vm.outer ++ [(⟨vm.frameIp, vm.slotBase, vm.curClosure⟩ : FrameRec)],
    frames := (if vm.frames ≤ 0 then 0 else vm.frames) + 1, frameIp := c.entry, slotBase := base, curClosure := c.value }

def Vm.closeUpvalues (vm : Vm) (index : Int) : Vm := { vm with closed := vm.closed ++ [(index, (vm.stack.length : Int))] }

/-- `ObjFiber::close_upvalues_for_frame`: `close_upvalues(current_frame().unwrap().slot_base)` -/
def Vm.closeUpvaluesForFrame (vm : Vm) : M Vm := if vm.frames ≤ 0 then .panic else .ok (vm.closeUpvalues vm.slotBase)

/-- `current_frame_mut().unwrap().ip = x` -/
def Vm.setFrameIp (vm : Vm) (x : Int) : M Vm := if vm.frames ≤ 0 then .panic else .ok { vm with frameIp := x }

/-- `load_frame()`: the instruction pointer saved in the current frame becomes the running one (chunk and module follow it) -/
def Vm.loadFrame (vm : Vm) : M Vm := if vm.frames ≤ 0 then .panic else .ok { vm with ip := vm.frameIp }

/-- `new_error_from_value(v)`: the run-ending error made from an uncaught value (its content is C17's subject) -/
def errorFromValue (v : Value) : Err := ⟨"uncaught", "", [reprStr v]⟩

/-- `try_handle_error(err)`: the error is handed to the exception machinery; what it answers is part of the state. -/
def Vm.raise (vm : Vm) (e : Err) : M (Except Err Unit × Vm) :=
  .ok (vm.handled, { vm with raised := vm.raised ++ [e] })

/-! ### fibers: the running one is inline in `Vm`, the others are parked -/

def Vm.currentRec (vm : Vm) : FiberRec :=
  { stack := vm.stack, handlers := vm.handlers, frames := vm.frames, frameIp := vm.frameIp, returnIp := vm.returnIp,
    returnValue := vm.returnValue, errorIp := vm.errorIp, caller := vm.caller, entryIp := vm.entryIp, closure0 := vm.closure0,
    slotBase := vm.slotBase, curClosure := vm.curClosure, outer := vm.outer, handling := vm.fiberHandling }

def Vm.withRec (vm : Vm) (r : FiberRec) : Vm :=
  { vm with stack := r.stack, handlers := r.handlers, frames := r.frames, frameIp := r.frameIp, returnIp := r.returnIp,
            returnValue := r.returnValue, errorIp := r.errorIp, caller := r.caller, entryIp := r.entryIp, closure0 := r.closure0,
            slotBase := r.slotBase, curClosure := r.curClosure, outer := r.outer, fiberHandling := r.handling }

def lookupFiber (ps : List (Nat × FiberRec)) (id : Nat) : Option FiberRec := (ps.find? (·.1 == id)).map (·.2)

def eraseFiber (ps : List (Nat × FiberRec)) (id : Nat) : List (Nat × FiberRec) := ps.filter (·.1 != id)

/-- `fiber.borrow()` for a fiber given by its number: the running one or a parked one; a number that names no fiber is a dangling
pointer (panic here). -/
def Vm.fiberRec (vm : Vm) (id : Nat) : M FiberRec :=
  if vm.curId = some id then .ok vm.currentRec
  else match lookupFiber vm.parked id with
    | some r => .ok r
    | none => .panic

/-- `self.fiber.replace(new)` / `self.fiber = new`: the fiber designated so far is parked with everything it owns, the new one's
components become the running ones.  Answers the old designation. -/
def Vm.replaceFiber (vm : Vm) (new : Option Nat) : M (Option Nat × Vm) :=
  let parked1 := match vm.curId with
    | some c => (c, vm.currentRec) :: eraseFiber vm.parked c
    | none => vm.parked
  match new with
  | none => .ok (vm.curId, { vm with curId := none, parked := parked1 })
  | some n =>
    match lookupFiber parked1 n with
    | some r => .ok (vm.curId, { (vm.withRec r) with curId := some n, parked := eraseFiber parked1 n })
    | none => .panic

/-- `<fiber>.borrow_mut().caller = c` for a fiber given by its number. -/
def Vm.setCallerOf (vm : Vm) (id : Nat) (c : Option Nat) : M Vm :=
  if vm.curId = some id then .ok { vm with caller := c }
  else match lookupFiber vm.parked id with
    | some r => .ok { vm with parked := (id, { r with caller := c }) :: eraseFiber vm.parked id }
    | none => .panic

/-- `ObjFiber::is_new` of the running fiber: one frame, standing at the first instruction of its closure. -/
def Vm.isNew (vm : Vm) : Bool := decide (vm.frames = 1) && decide (vm.frameIp = vm.entryIp)
def FiberRec.isNew (r : FiberRec) : Bool := decide (r.frames = 1) && decide (r.frameIp = r.entryIp)
/-- `ObjFiber::has_finished`. -/
def Vm.hasFinished (vm : Vm) : Bool := decide (vm.frames = 0)
def FiberRec.hasFinished (r : FiberRec) : Bool := decide (r.frames = 0)

/-- `==` on values as far as they are modelled: numbers by IEEE equality, booleans and nil structurally, everything else by identity. -/
def Value.eq : Value → Value → Bool
  | .Number a, .Number b => F64.eq a b
  | .Boolean a, .Boolean b => a == b
  | .None, .None => true
  | .Other a, .Other b => a == b
  | _, _ => false

end Yarel.Rs
