/-
C17 model: the line table of a chunk and the two conversions between Rust `ErrorKind`s and yarel error classes.

Sources (re-read on 2026-09-24, HEAD "fix: an uncaught RuntimeError is reported with kind RuntimeError"):
* chunk.rs  `Chunk { code: Vec<u8>, lines: Vec<i32>, constant_map, constants }`, `write`, `add_constant`, `code_offset`.
* compiler.rs — every place that mutates `code`/`lines` of a chunk (grep `\.code\b|\.lines\b|\.write\(` over src/):
    - `Chunk::write(byte, line)`           chunk.rs:248      pushes ONE byte and ONE line (the only `push`);
      reached through `Parser::emit_byte` (line = `self.previous.line`) and `emit_byte_for_token` (line = token.line);
      `emit_bytes`, `emit_constant_op`, `emit_variable_op`, `emit_jump`, `emit_loop`, `emit_return`, `emit_scope_end`,
      `emit_constant` are sequences of `emit_byte`;
    - `Compiler::patch_jump(offset)`       compiler.rs:236   `code[offset] = b0; code[offset+1] = b1` IN PLACE
      (index assignment: panics if out of range, never changes a length);
    - `Parser::patch_offset_at(pos, off)`  compiler.rs:1171  `code[pos] = b0; code[pos+1] = b1` IN PLACE
      (writes the TRUNCATED u16 even when it has just reported "Too much code in block.");
    - `Chunk::add_constant`                chunk.rs:253      touches `constants`/`constant_map` only.
  No other writer exists: `lines` is never written except in `write`; `Chunk::new()` = all empty;
  `mem::replace(&mut self.chunk, Chunk::new())` (compiler.rs:173) moves the finished chunk into a `Gc<Chunk>`, which
  only implements `Deref` (immutable) — after `Vm::add_chunk` a chunk is frozen.  The fields are `pub`, so an
  embedding host could break the invariant; nothing inside the crate does.
* vm.rs `runtime_error`: for each frame of the ACTIVE fiber, innermost first,
      `instruction = chunk.code_offset(frame.ip) - 1;  chunk.lines[instruction]`
  where `code_offset(p) = p - &code[0]` (panics on an empty code vector).
* vm.rs `new_root_obj_err_from_error` (ErrorKind → class) and `new_error_from_value` (thrown value → ErrorKind).

Bug-compatibility: usize subtractions that would underflow and out-of-range indexing are explicit faults.
No Mathlib/Batteries here (linked into the executable).
-/
namespace Yarel.ChunkLines

instance {ε α : Type} [DecidableEq ε] [DecidableEq α] : DecidableEq (Except ε α)
  | .ok a, .ok b => if h : a = b then isTrue (by rw [h]) else isFalse (by intro h'; cases h'; exact h rfl)
  | .error a, .error b => if h : a = b then isTrue (by rw [h]) else isFalse (by intro h'; cases h'; exact h rfl)
  | .ok _, .error _ => isFalse (by intro h; cases h)
  | .error _, .ok _ => isFalse (by intro h; cases h)

/-! ### Chunk writer -/

structure Chunk where
  code : List UInt8
  lines : List Int
  /-- value ids; `constant_map[v]` = index of the first occurrence of `v` -/
  constants : List Nat
deriving DecidableEq, Repr

/-- `Chunk::new()` -/
def Chunk.empty : Chunk := ⟨[], [], []⟩

inductive Fault where
  | indexOutOfRange (pos len : Nat)   -- `code[pos] = …` with pos ≥ len: Rust index panic
  | usizeUnderflow                    -- `a - b` with b > a (panic in checked builds; wraps in release and is then
                                      --  rejected by the size test or faults on the index: nothing is written either)
deriving DecidableEq, Repr

/-- `(n as u16).to_ne_bytes()` on a little-endian machine (the `as u16` truncates). -/
def u16Bytes (n : Nat) : UInt8 × UInt8 := (UInt8.ofNat (n % 256), UInt8.ofNat (n / 256 % 256))

/-- `JUMP_SIZE_MAX` (common.rs; Gen.limits) -/
def jumpSizeMax : Nat := 65535

/-- Everything that writes into a chunk while compiling. The first three are the primitives, the rest are the
compound writers of compiler.rs spelled out (so that the theorem quantifies over what the compiler really calls). -/
inductive WOp where
  | write (byte : UInt8) (line : Int)               -- Chunk::write / emit_byte / emit_byte_for_token
  | setCode (pos : Nat) (byte : UInt8)              -- `code[pos] = byte`
  | addConstant (v : Nat)                           -- Chunk::add_constant
  | emitBytes (b0 b1 : UInt8) (line : Int)          -- emit_bytes
  | emitConstantOp (op : UInt8) (k : Nat) (line : Int)   -- emit_constant_op / emit_constant (after make_constant)
  | emitJump (op : UInt8) (line : Int)              -- emit_jump: op, 0xff, 0xff
  | emitLoop (op : UInt8) (loopStart : Nat) (line : Int) -- emit_loop
  | patchJump (offset : Nat)                        -- Compiler::patch_jump
  | patchOffsetAt (pos offset : Nat)                -- Parser::patch_offset_at
deriving DecidableEq, Repr

def Chunk.write (c : Chunk) (b : UInt8) (line : Int) : Chunk :=
  { c with code := c.code ++ [b], lines := c.lines ++ [line] }

def Chunk.setCode (c : Chunk) (pos : Nat) (b : UInt8) : Except Fault Chunk :=
  if pos < c.code.length then .ok { c with code := c.code.set pos b }
  else .error (.indexOutOfRange pos c.code.length)

/-- `add_constant`: index of an equal constant if there is one, else push. Returns the index too. -/
def Chunk.addConstant (c : Chunk) (v : Nat) : Chunk × Nat :=
  if c.constants.idxOf v < c.constants.length then (c, c.constants.idxOf v)
  else ({ c with constants := c.constants ++ [v] }, c.constants.length)

def Chunk.patch2 (c : Chunk) (pos n : Nat) : Except Fault Chunk :=
  match c.setCode pos (u16Bytes n).1 with
  | .error e => .error e
  | .ok c1 => c1.setCode (pos + 1) (u16Bytes n).2

def apply (c : Chunk) : WOp → Except Fault Chunk
  | .write b l => .ok (c.write b l)
  | .setCode pos b => c.setCode pos b
  | .addConstant v => .ok (c.addConstant v).1
  | .emitBytes b0 b1 l => .ok ((c.write b0 l).write b1 l)
  | .emitConstantOp op k l => .ok (((c.write op l).write (u16Bytes k).1 l).write (u16Bytes k).2 l)
  | .emitJump op l => .ok (((c.write op l).write 0xff l).write 0xff l)
  | .emitLoop op loopStart l =>
    let c1 := c.write op l
    -- `offset = code.len() - loop_start + 2`; "Loop body too large." is reported when > JUMP_SIZE_MAX but the
    -- (truncated) bytes are emitted all the same
    if loopStart ≤ c1.code.length then
      let off := c1.code.length - loopStart + 2
      .ok ((c1.write (u16Bytes off).1 l).write (u16Bytes off).2 l)
    else .error .usizeUnderflow
  | .patchJump offset =>
    -- `jump = code.len() - offset - 2; if jump > JUMP_SIZE_MAX { return Err(JumpTooLarge) }` (nothing written)
    if offset + 2 ≤ c.code.length then
      let jump := c.code.length - offset - 2
      if jump > jumpSizeMax then .ok c else c.patch2 offset jump
    else .error .usizeUnderflow
  | .patchOffsetAt pos offset =>
    -- `jump = code.len() - offset`; error reported if too large, bytes written regardless
    if offset ≤ c.code.length then c.patch2 pos (c.code.length - offset)
    else .error .usizeUnderflow

/-- A whole compilation of one function = a sequence of writer operations on `Chunk::new()`;
a fault = the compiler panicked (no chunk). -/
def run (c : Chunk) : List WOp → Except Fault Chunk
  | [] => .ok c
  | op :: ops =>
    match apply c op with
    | .error e => .error e
    | .ok c1 => run c1 ops

/-- The invariant. -/
def Chunk.parallel (c : Chunk) : Prop := c.lines.length = c.code.length

instance (c : Chunk) : Decidable c.parallel := inferInstanceAs (Decidable (_ = _))

/-- The lines pushed by an operation, in order (what `lines` grows by). -/
def WOp.pushedLines : WOp → List Int
  | .write _ l => [l]
  | .emitBytes _ _ l => [l, l]
  | .emitConstantOp _ _ l | .emitJump _ l | .emitLoop _ _ l => [l, l, l]
  | .setCode .. | .addConstant .. | .patchJump .. | .patchOffsetAt .. => []

/-! ### Trace line lookup (`runtime_error`) -/

inductive TraceFault where
  | emptyCode       -- `&self.code[0]` in code_offset panics
  | offsetZero      -- `code_offset(ip) - 1` underflows: ip at the first byte (a frame that has not fetched yet)
  | outOfRange (i len : Nat)   -- `chunk.lines[i]` index panic
deriving DecidableEq, Repr

/-- `chunk.lines[chunk.code_offset(frame.ip) - 1]` for a saved ip at byte offset `off` of the code. -/
def traceLine (c : Chunk) (off : Nat) : Except TraceFault Int :=
  if c.code.isEmpty then .error .emptyCode
  else if off = 0 then .error .offsetZero
  else match c.lines[off - 1]? with
    | some l => .ok l
    | none => .error (.outOfRange (off - 1) c.lines.length)

/-- A call frame as `runtime_error` sees it. `fnName = ""` is the module body (printed as "script"). -/
structure Frame where
  moduleName : String
  fnName : String
  chunk : Chunk
  ipOff : Nat          -- `code_offset(frame.ip)`
deriving Repr

structure TraceEntry where
  moduleName : String
  fnLabel : String     -- "script" or "<name>()"
  line : Int
deriving DecidableEq, Repr

def Frame.entry (f : Frame) : Except TraceFault TraceEntry :=
  match traceLine f.chunk f.ipOff with
  | .ok l => .ok ⟨f.moduleName, if f.fnName.isEmpty then "script" else f.fnName ++ "()", l⟩
  | .error e => .error e

/-- entries for a list of frames given INNERMOST FIRST -/
def entries : List Frame → Except TraceFault (List TraceEntry)
  | [] => .ok []
  | f :: fs =>
    match f.entry with
    | .error e => .error e
    | .ok e =>
      match entries fs with
      | .error e' => .error e'
      | .ok es => .ok (e :: es)

/-- `for frame in self.active_fiber().frames.iter().rev()`: `frames` is outermost first (a Vec used as a stack). -/
def runtimeErrorTrace (frames : List Frame) : Except TraceFault (List TraceEntry) := entries frames.reverse

/-! ### ErrorKind ↔ error class -/

/-- error.rs `enum ErrorKind`, declaration order. -/
inductive ErrorKind where
  | attributeError | compileError | importError | indexError | nameError | runtimeError | typeError | valueError
deriving DecidableEq, Repr, Inhabited

def ErrorKind.all : List ErrorKind :=
  [.attributeError, .compileError, .importError, .indexError, .nameError, .runtimeError, .typeError, .valueError]

/-- Rust variant name (what `{:?}` prints; the harness prints the same names). -/
def ErrorKind.name : ErrorKind → String
  | .attributeError => "AttributeError" | .compileError => "CompileError" | .importError => "ImportError"
  | .indexError => "IndexError" | .nameError => "NameError" | .runtimeError => "RuntimeError"
  | .typeError => "TypeError" | .valueError => "ValueError"

/-- The class of a thrown instance, as far as the conversions can tell classes apart (`class == store.x_class()` is
POINTER equality on the class object: a user subclass of TypeError is `other`). `error` and `stopIter` are the two
classes of the Error family in core.yl that have no ErrorKind. -/
inductive ErrClass where
  | error | stopIter | runtimeError | attributeError | indexError | importError | nameError | typeError | valueError
  | other
deriving DecidableEq, Repr, Inhabited

def ErrClass.all : List ErrClass :=
  [.error, .stopIter, .runtimeError, .attributeError, .indexError, .importError, .nameError, .typeError, .valueError, .other]

/-- The classes some ErrorKind is converted to. -/
def ErrClass.kinded : List ErrClass :=
  [.runtimeError, .attributeError, .indexError, .importError, .nameError, .typeError, .valueError]

/-- class_store.yaml entry name (`self.class_store.<name>_class()`); `other` has none. -/
def ErrClass.storeName : ErrClass → Option String
  | .error => some "error" | .stopIter => some "stop_iter" | .runtimeError => some "runtime_error"
  | .attributeError => some "attribute_error" | .indexError => some "index_error" | .importError => some "import_error"
  | .nameError => some "name_error" | .typeError => some "type_error" | .valueError => some "value_error"
  | .other => none

/-- Name of the class in core.yl (what programs write and what "Unhandled <name>: …" prints). -/
def ErrClass.yarelName : ErrClass → Option String
  | .error => some "Error" | .stopIter => some "StopIter" | .runtimeError => some "RuntimeError"
  | .attributeError => some "AttributeError" | .indexError => some "IndexError" | .importError => some "ImportError"
  | .nameError => some "NameError" | .typeError => some "TypeError" | .valueError => some "ValueError"
  | .other => none

/-- `new_root_obj_err_from_error`: the class of the instance a Rust `Error` (from the VM or from a host native) is
turned into before it is thrown inside the program. Total `match`. -/
def classOfKind : ErrorKind → ErrClass
  | .attributeError => .attributeError
  | .compileError => .runtimeError
  | .importError => .importError
  | .indexError => .indexError
  | .nameError => .nameError
  | .runtimeError => .runtimeError
  | .typeError => .typeError
  | .valueError => .valueError

/-- An `if class == a {A} else if class == b {B} … else {RuntimeError}` chain, in source order. -/
def chain (branches : List (ErrClass × ErrorKind)) (c : ErrClass) : ErrorKind :=
  match branches with
  | [] => .runtimeError
  | (c', k) :: rest => if c = c' then k else chain rest c

/-- Branches of `new_error_from_value` in the CURRENT source (vm.rs:1816-1832). -/
def branchesCurrent : List (ErrClass × ErrorKind) :=
  [ (.attributeError, .attributeError), (.importError, .importError), (.indexError, .indexError),
    (.nameError, .nameError), (.runtimeError, .runtimeError), (.typeError, .typeError), (.valueError, .valueError) ]

/-- Branches before the repair (ledger F20): the RuntimeError class was tested first against
`ErrorKind::CompileError`, which made the later RuntimeError branch dead. -/
def branchesPreRepair : List (ErrClass × ErrorKind) :=
  [ (.attributeError, .attributeError), (.runtimeError, .compileError), (.importError, .importError),
    (.indexError, .indexError), (.nameError, .nameError), (.runtimeError, .runtimeError),
    (.typeError, .typeError), (.valueError, .valueError) ]

/-- `new_error_from_value` on an instance of class `c` (current source). -/
def kindOfClass (c : ErrClass) : ErrorKind := chain branchesCurrent c

def kindOfClassPreRepair (c : ErrClass) : ErrorKind := chain branchesPreRepair c

/-- What is thrown. -/
inductive Thrown where
  | instance (c : ErrClass) (hasContext : Bool)   -- `Value::ObjInstance`; `hasContext`: it has a field `context`
  | nonInstance                                   -- every other Value variant: nil, booleans, numbers, strings, tuples,
                                                  -- vecs, ranges, maps, iterators, functions, natives, bound methods,
                                                  -- CLASSES themselves (`throw TypeError;`), modules, fibers
deriving DecidableEq, Repr

inductive Described where
  | className      -- "Unhandled <class name>: …"
  | exception      -- "Unhandled exception: …"
deriving DecidableEq, Repr

inductive Shown where
  | contextField   -- the instance's `context` field is printed
  | valueItself    -- the thrown value is printed (`<X instance>` for an instance without `context`)
deriving DecidableEq, Repr

/-- `new_error_from_value`: (kind, how the first message line starts, what is printed after the colon). -/
def uncaught : Thrown → ErrorKind × Described × Shown
  | .instance c hasContext => (kindOfClass c, .className, if hasContext then .contextField else .valueItself)
  | .nonInstance => (.runtimeError, .exception, .valueItself)

/-- A host native (or the VM) fails with `kind`, nothing catches it: what the embedder gets back. -/
def hostErrorUncaught (k : ErrorKind) : ErrorKind × Described × Shown :=
  uncaught (.instance (classOfKind k) true)   -- new_root_obj_err_with_class sets `context` to the message

end Yarel.ChunkLines
