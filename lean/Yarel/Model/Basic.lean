/-
Shared small utilities for the model drivers (no Mathlib; core only).
-/
namespace Yarel

/-- SplitMix64, the one PRNG used by every generator/driver. -/
structure Rng where
  s : UInt64
deriving Repr

def Rng.next (r : Rng) : UInt64 × Rng :=
  let s := r.s + 0x9E3779B97F4A7C15
  let z := s
  let z := (z ^^^ (z >>> 30)) * 0xBF58476D1CE4E5B9
  let z := (z ^^^ (z >>> 27)) * 0x94D049BB133111EB
  (z ^^^ (z >>> 31), ⟨s⟩)

def hexDigit (n : Nat) : Char :=
  if n < 10 then Char.ofNat (48 + n) else Char.ofNat (87 + n)

def hexOfBytes (bs : List UInt8) : String :=
  String.ofList (bs.flatMap fun b => [hexDigit (b.toNat / 16), hexDigit (b.toNat % 16)])

def hexVal (c : Char) : Option Nat :=
  if '0' ≤ c ∧ c ≤ '9' then some (c.toNat - 48)
  else if 'a' ≤ c ∧ c ≤ 'f' then some (c.toNat - 87)
  else if 'A' ≤ c ∧ c ≤ 'F' then some (c.toNat - 55)
  else none

def bytesOfHexAux : List Char → List UInt8 → Option (List UInt8)
  | [], acc => some acc.reverse
  | [_], _ => none
  | a :: b :: rest, acc =>
    match hexVal a, hexVal b with
    | some x, some y => bytesOfHexAux rest (UInt8.ofNat (x * 16 + y) :: acc)
    | _, _ => none

/-- "-" encodes the empty byte string (so a field is never empty). -/
def bytesOfHex (s : String) : Option (List UInt8) :=
  if s == "-" then some [] else bytesOfHexAux s.toList []

def hexField (bs : List UInt8) : String :=
  if bs.isEmpty then "-" else hexOfBytes bs

def natOfHex (s : String) : Option Nat :=
  s.toList.foldl (fun acc c => match acc, hexVal c with
    | some a, some v => some (a * 16 + v)
    | _, _ => none) (some 0)

def hex16 (n : Nat) : String :=
  String.ofList ((List.range 16).reverse.map fun i => hexDigit ((n / 16 ^ i) % 16))

/-- Read all stdin lines, answer each with `f`. -/
partial def lineLoop {σ : Type} (h : IO.FS.Stream) (st : σ) (f : σ → String → σ × String) : IO Unit := do
  let line ← h.getLine
  if line.isEmpty then return ()
  let l := line.trimAscii.toString
  let (st', out) := f st l
  IO.println out
  lineLoop h st' f

end Yarel
