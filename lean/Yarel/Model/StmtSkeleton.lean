/- What the statement compilers of compiler.rs are expected to do, as lists of the calls they make (`Rs.Eff`): the reference that
Props/FnsTie/Statements.lean proves the translated bodies equal to, and that Search/TieStatements.lean compares them with when a proof no
longer checks.  Definitions only. -/
import Yarel.Gen.Fns

namespace Yarel.StmtSkeleton
open Yarel Yarel.Gen

def opByte (o : Fns.OpCode) : Rs.Arg := .n ((Rs.bvOfInt 8 (Fns.OpCode.discr o))).toNat
def emitOp (o : Fns.OpCode) : Rs.Eff := ⟨"self.emit_byte", [opByte o]⟩
def call0 (name : String) : Rs.Eff := ⟨name, []⟩
def consume (k : Fns.TokenKind) (msg : String) : Rs.Eff := ⟨"self.consume", [.s (Fns.TokenKind.name k), .s msg]⟩
def matchTok (k : Fns.TokenKind) : Rs.Eff := ⟨"self.match_token", [.s (Fns.TokenKind.name k)]⟩

/-- `emit_return`: a constructor returns its receiver (slot 0), anything else nil; inside a try block the pending finally blocks run first. -/
def emitReturnSkeleton (kind : Fns.FunctionKind) (inTry : Bool) : List Rs.Eff :=
  [if kind = .Initialiser then (⟨"self.emit_bytes", [.s "[OpCode::GetLocal as u8,0]"]⟩ : Rs.Eff) else emitOp .Nil]
    ++ (if inTry then [emitOp .JumpFinally] else []) ++ [emitOp .Return]

def throwSkeleton : List Rs.Eff := [call0 "self.expression", consume .SemiColon "Expected ';' after throw value.", emitOp .Throw]

/-- `return;` goes through `emit_return`; `return e;` evaluates e, then `JumpFinally` iff inside a try block, then `Return`; the two compile
errors are reported before anything is emitted. -/
def returnSkeleton (kind : Fns.FunctionKind) (bare : Bool) (kind2 : Fns.FunctionKind) (inTry : Bool) : List Rs.Eff :=
  (if kind = .Script then [(⟨"self.error", [.s "Cannot return from top-level code."]⟩ : Rs.Eff)] else [])
    ++ [matchTok .SemiColon]
    ++ (if bare then [call0 "self.emit_return"]
        else (if kind2 = .Initialiser then [(⟨"self.error", [.s "Cannot return a value from an initialiser."]⟩ : Rs.Eff)] else [])
          ++ [call0 "self.expression", consume .SemiColon "Expected ';' after return value."]
          ++ (if inTry then [emitOp .JumpFinally] else []) ++ [emitOp .Return])

def storeInTry (b : Bool) : Rs.Eff := ⟨"store self.compiler().in_try_block", [.b b]⟩

/-- What an accepted try statement does (a catch clause needs its variable name; at least one clause must be present). -/
def trySkeleton (inTryBefore : Bool) (posArgs posAfterArgs jumpPos catchStart : Int) (haveCatch haveFinally : Bool) : List Rs.Eff :=
  [storeInTry true, emitOp .PushExcHandler, ⟨"self.emit_bytes", [.s "[0xff,0xff]"]⟩, ⟨"self.emit_bytes", [.s "[0xff,0xff]"]⟩,
   consume .LeftBrace "Expected '{' after 'try'.", call0 "self.begin_scope", call0 "self.block", call0 "self.end_scope",
   storeInTry inTryBefore, emitOp .PopExcHandler, ⟨"self.emit_jump", [.s (Fns.OpCode.name .Jump)]⟩, ⟨"self.patch_offset_at", [.i posArgs, .i posAfterArgs]⟩,
   matchTok .Catch]
  ++ (if haveCatch then
        [matchTok .Identifier, call0 "self.begin_scope", call0 "self.declare_variable", call0 "self.mark_initialised",
         consume .LeftBrace "Expected '{' after variable.", call0 "self.block", call0 "self.end_scope"] else [])
  ++ [⟨"self.patch_jump", [.i jumpPos]⟩, ⟨"self.patch_offset_at", [.i (posArgs + 2), .i catchStart]⟩, matchTok .Finally]
  ++ (if haveFinally then
        [consume .LeftBrace "Expected '{' after 'finally'.", call0 "self.begin_scope", call0 "self.block", call0 "self.end_scope"] else [])
  ++ [emitOp .EndFinally]


end Yarel.StmtSkeleton
