/- What the statement compilers of compiler.rs are expected to do, as lists of the calls they make (`Rs.Eff`): the reference that
Props/FnsTie/Statements.lean proves the translated bodies equal to, and that Search/TieStatements.lean compares them with when a proof no
longer checks.  Definitions only. -/
import Yarel.Gen.Fns

namespace Yarel.StmtSkeleton
open Yarel Yarel.Gen

def opByte (o : Fns.OpCode) : Rs.Arg := .n ((Rs.bvOfInt 8 (Fns.OpCode.discr o))).toNat
def emitOp (o : Fns.OpCode) : Rs.Eff := ⟨"self.emit_byte", [opByte o]⟩
def call0 (name : String) : Rs.Eff := ⟨name, []⟩
def consume (k : Fns.TokenKind) (msg : String) : Rs.Eff := ⟨"self.consume", [.s (Fns.TokenKind.name k), .s msg]⟩
def matchTok (k : Fns.TokenKind) : Rs.Eff := ⟨"self.match_token", [.s (Fns.TokenKind.name k)]⟩

/-- `emit_return`: a constructor returns its receiver (slot 0), anything else nil; inside a try block the pending finally blocks run first. -/
def emitReturnSkeleton (kind : Fns.FunctionKind) (inTry : Bool) : List Rs.Eff :=
  [if kind = .Initialiser then (⟨"self.emit_bytes", [opByte .GetLocal, .s "0"]⟩ : Rs.Eff) else emitOp .Nil]
    ++ (if inTry then [emitOp .JumpFinally] else []) ++ [emitOp .Return]

def throwSkeleton : List Rs.Eff := [call0 "self.expression", consume .SemiColon "Expected ';' after throw value.", emitOp .Throw]

/-- `return;` goes through `emit_return`; `return e;` evaluates e, then `JumpFinally` iff inside a try block, then `Return`; the two compile
errors are reported before anything is emitted. -/
def returnSkeleton (kind : Fns.FunctionKind) (bare : Bool) (kind2 : Fns.FunctionKind) (inTry : Bool) : List Rs.Eff :=
  (if kind = .Script then [(⟨"self.error", [.s "Cannot return from top-level code."]⟩ : Rs.Eff)] else [])
    ++ [matchTok .SemiColon]
    ++ (if bare then [call0 "self.emit_return"]
        else (if kind2 = .Initialiser then [(⟨"self.error", [.s "Cannot return a value from an initialiser."]⟩ : Rs.Eff)] else [])
          ++ [call0 "self.expression", consume .SemiColon "Expected ';' after return value."]
          ++ (if inTry then [emitOp .JumpFinally] else []) ++ [emitOp .Return])

def storeInTry (b : Bool) : Rs.Eff := ⟨"store self.compiler().in_try_block", [.b b]⟩

/-- What an accepted try statement does (a catch clause needs its variable name; at least one clause must be present). -/
def trySkeleton (inTryBefore : Bool) (posArgs posAfterArgs jumpPos catchStart : Int) (haveCatch haveFinally : Bool) : List Rs.Eff :=
  [storeInTry true, emitOp .PushExcHandler, ⟨"self.emit_bytes", [.s "0xff", .s "0xff"]⟩, ⟨"self.emit_bytes", [.s "0xff", .s "0xff"]⟩,
   consume .LeftBrace "Expected '{' after 'try'.", call0 "self.begin_scope", call0 "self.block", call0 "self.end_scope",
   storeInTry inTryBefore, emitOp .PopExcHandler, ⟨"self.emit_jump", [.s (Fns.OpCode.name .Jump)]⟩, ⟨"self.patch_offset_at", [.i posArgs, .i posAfterArgs]⟩,
   matchTok .Catch]
  ++ (if haveCatch then
        [matchTok .Identifier, call0 "self.begin_scope", call0 "self.declare_variable", call0 "self.mark_initialised",
         consume .LeftBrace "Expected '{' after variable.", call0 "self.block", call0 "self.end_scope"] else [])
  ++ [⟨"self.patch_jump", [.i jumpPos]⟩, ⟨"self.patch_offset_at", [.i (posArgs + 2), .i catchStart]⟩, matchTok .Finally]
  ++ (if haveFinally then
        [consume .LeftBrace "Expected '{' after 'finally'.", call0 "self.begin_scope", call0 "self.block", call0 "self.end_scope"] else [])
  ++ [emitOp .EndFinally]


def reportErr (e : Fns.CompilerError) : Rs.Eff := ⟨"self.compiler_error", [.s (Fns.CompilerError.name e)]⟩
def emitJump (o : Fns.OpCode) : Rs.Eff := ⟨"self.emit_jump", [.s (Fns.OpCode.name o)]⟩
def patchJump (pos : Int) : Rs.Eff := ⟨"self.patch_jump", [.i pos]⟩
def scopeEndTo (depth : Int) : Rs.Eff := ⟨"self.emit_scope_end", [.b false, .i depth]⟩

/-- `break`: the locals of the scopes inside the loop are discarded (down to the depth the loop was entered at) BEFORE the jump out; the
jump is registered with the innermost loop; outside a loop there is nothing to discard and the registration fails (reported). -/
def breakSkeleton (header : Option (Int × Int)) (breakPos : Int) (pushed : Except Fns.CompilerError Unit) : List Rs.Eff :=
  [call0 "self.compiler().current_loop_header"]
    ++ (match header with | some (_, depth) => [scopeEndTo depth] | none => [])
    ++ [emitJump .Jump, ⟨"self.compiler().push_break", [.i breakPos]⟩]
    ++ (match pushed with | .ok _ => [consume .SemiColon "Expected ';' after 'break'."] | .error e => [reportErr e])

/-- `continue`: the same discarding, then a backward jump to the start of the innermost loop; an error outside a loop. -/
def continueSkeleton (header : Option (Int × Int)) : List Rs.Eff :=
  [call0 "self.compiler().current_loop_header"]
    ++ (match header with
        | some (start, depth) => [scopeEndTo depth, ⟨"self.emit_loop", [.i start]⟩, consume .SemiColon "Expected ';' after 'continue'."]
        | none => [⟨"self.error", [.s "Cannot use 'continue' statement outside of loop body."]⟩])

/-- `while`: the loop is entered in the compiler's bookkeeping first; the condition is compiled at `loopStart` (the code length then);
the condition value is popped on both ways out of the test; the body is a scope; the backward jump goes to `loopStart`; the exit jump is
patched behind it; leaving the loop patches the registered breaks (a jump too far is reported). -/
def whileSkeleton (loopStart exitJump : Int) (popped : Except Fns.CompilerError Unit) : List Rs.Eff :=
  [call0 "self.compiler().push_loop", call0 "self.expression", emitJump .JumpIfFalse, emitOp .Pop,
   consume .LeftBrace "Expected '{' after condition.", call0 "self.begin_scope", call0 "self.block", call0 "self.end_scope",
   ⟨"self.emit_loop", [.i loopStart]⟩, patchJump exitJump, emitOp .Pop, call0 "self.compiler().pop_loop"]
    ++ (match popped with | .ok _ => [] | .error e => [reportErr e])

/-- `if`: the condition value is popped on both branches; the jump over the else branch is emitted behind the then block and patched at
the very end; `else` must be followed by `if` or a block. -/
def ifSkeleton (thenJump elseJump : Int) (haveElse startsOk : Bool) : List Rs.Eff :=
  [call0 "self.expression", emitJump .JumpIfFalse, emitOp .Pop,
   consume .LeftBrace "Expected '{' after condition.", call0 "self.begin_scope", call0 "self.block", call0 "self.end_scope",
   emitJump .Jump, patchJump thenJump, emitOp .Pop, matchTok .Else]
    ++ (if haveElse then
          [(⟨"self.check_any", [.s "&[TokenKind::If,TokenKind::LeftBrace]"]⟩ : Rs.Eff)]
            ++ (if startsOk then [] else [⟨"self.error_at_current", [.s "Expected '{' after 'else'."]⟩])
            ++ [call0 "self.statement"]
        else [])
    ++ [patchJump elseJump]

/-! ## Expressions -/

def parsePrec (p : Fns.Precedence) : Rs.Eff := ⟨"self.parse_precedence", [.s (Fns.Precedence.name p)]⟩
def emitOps (os : List Fns.OpCode) : Rs.Eff :=
  match os with
  | [o] => emitOp o
  | _ => ⟨"self.emit_bytes", os.map opByte⟩

/-- The binary operators of the language: token, the level of the operator, the level its RIGHT operand is parsed at (one tighter:
left-associative), what is emitted after both operands. `!=`, `>=`, `<=` are the negations of `==`, `<`, `>`. -/
def binaryTable : List (Fns.TokenKind × Fns.Precedence × Fns.Precedence × List Fns.OpCode) :=
  [ (.BangEqual, .Equality, .Comparison, [.Equal, .LogicalNot]), (.EqualEqual, .Equality, .Comparison, [.Equal]),
    (.Greater, .Comparison, .BitwiseOr, [.Greater]), (.GreaterEqual, .Comparison, .BitwiseOr, [.Less, .LogicalNot]),
    (.Less, .Comparison, .BitwiseOr, [.Less]), (.LessEqual, .Comparison, .BitwiseOr, [.Greater, .LogicalNot]),
    (.Bar, .BitwiseOr, .BitwiseXor, [.BitwiseOr]), (.Caret, .BitwiseXor, .BitwiseAnd, [.BitwiseXor]), (.Amp, .BitwiseAnd, .BitShift, [.BitwiseAnd]),
    (.LessLess, .BitShift, .Term, [.BitShiftLeft]), (.GreaterGreater, .BitShift, .Term, [.BitShiftRight]),
    (.Plus, .Term, .Factor, [.Add]), (.Minus, .Term, .Factor, [.Subtract]),
    (.Star, .Factor, .Range, [.Multiply]), (.Slash, .Factor, .Range, [.Divide]), (.Percent, .Factor, .Range, [.Modulo]) ]

def binarySkeleton (right : Fns.Precedence) (ops : List Fns.OpCode) : List Rs.Eff := [parsePrec right, emitOps ops]

/-- prefix operators: the operand is parsed at Unary level (so `-a.b`, `-f(x)` apply to the whole postfix expression and `- -a` nests) -/
def unaryTable : List (Fns.TokenKind × Fns.OpCode) := [(.Minus, .Negate), (.Bang, .LogicalNot), (.Tilde, .BitwiseNot)]
def unarySkeleton (o : Fns.OpCode) : List Rs.Eff := [parsePrec .Unary, emitOp o]

/-- `a and b`: if a is falsy jump over b keeping a as the value; otherwise pop a, the value is b. -/
def andSkeleton (endJump : Int) : List Rs.Eff := [emitJump .JumpIfFalse, emitOp .Pop, parsePrec .And, patchJump endJump]
/-- `a or b`: if a is falsy fall into (pop a; b); otherwise jump over it keeping a. -/
def orSkeleton (elseJump endJump : Int) : List Rs.Eff :=
  [emitJump .JumpIfFalse, emitJump .Jump, patchJump elseJump, emitOp .Pop, parsePrec .Or, patchJump endJump]
def dotdotSkeleton : List Rs.Eff := [parsePrec .Unary, emitOp .BuildRange]

/-! ## Declarations, scopes, `for` -/

def storeDepth (d : Int) : Rs.Eff := ⟨"store self.compiler().scope_depth", [.i d]⟩

/-- `var x = e;` / `var x;` (nil): the initialiser is compiled BEFORE the variable is defined (so it cannot see itself). -/
def varDeclSkeleton (global : BitVec 16) (hasInit : Bool) : List Rs.Eff :=
  [call0 "self.check_no_attributes", ⟨"self.parse_variable", [.s "Expected variable name."]⟩, matchTok .Equal]
    ++ (if hasInit then [call0 "self.expression"] else [emitOp .Nil])
    ++ [consume .SemiColon "Expected ';' after variable declaration.", ⟨"self.define_variable", [.n global.toNat]⟩]

/-- an expression statement discards its value -/
def exprStmtSkeleton : List Rs.Eff := [call0 "self.expression", consume .SemiColon "Expected ';' after expression.", emitOp .Pop]

/-- leaving a scope: the depth goes down first, then the locals deeper than it are discarded -/
def endScopeSkeleton (depth : Int) : List Rs.Eff := [storeDepth (depth - 1), ⟨"self.emit_scope_end", [.b true, .i (depth - 1)]⟩]

/-- inside a scope a definition only marks the local initialised; at top level it emits DefineGlobal with the name constant -/
def defineVarSkeleton (depth : Int) : List Rs.Eff :=
  if depth > 0 then [call0 "self.mark_initialised"]
  else [emitOp .DefineGlobal, ⟨"self.emit_bytes", [.s "global.to_ne_bytes()"]⟩]

/-- `for v in e { body }`: an outer scope holds the loop variable (initialised to nil BEFORE the iterable is evaluated, marked usable only
after it) and the hidden iterator (`e.iter()`, invoked with no arguments); each pass: IterNext, store into the loop variable, leave if it is
the stop marker, pop the copy, body in its own scope, jump back to the IterNext; on exit the copy is popped too, the breaks are patched and
the outer scope ends (discarding iterator and variable). -/
def forSkeleton (loopVar : Int) (iterName : BitVec 16) (addOk : Bool) (loopStart exitJump : Int) (popped : Except Fns.CompilerError Unit) :
    List Rs.Eff :=
  [call0 "self.begin_scope", matchTok .Identifier, call0 "self.declare_variable", emitOp .Nil,
   consume .In "Expected 'in' after loop variable.", call0 "self.expression",
   ⟨"self.compiler().mark_initialised", [.i loopVar]⟩, ⟨"self.compiler().add_local", [.s "&Token::from_string(loop_iter_name)"]⟩]
    ++ (if addOk then [] else [⟨"self.error", [.s "Too many variables in function."]⟩])
    ++ [⟨"self.identifier_constant", [.s "&Token::from_string(\"iter\")"]⟩,
        ⟨"self.emit_constant_op", [.s (Fns.OpCode.name .Invoke), .n iterName.toNat]⟩, ⟨"self.emit_byte", [.s "0"]⟩,
        call0 "self.mark_initialised", call0 "self.compiler().push_loop", call0 "self.compiler().current_loop_header",
        emitOp .IterNext, ⟨"self.emit_bytes", [opByte .SetLocal, .n (Rs.bvOfInt 8 loopVar).toNat]⟩, emitJump .JumpIfStopIter, emitOp .Pop,
        consume .LeftBrace "Expected '{' after loop expression.", call0 "self.begin_scope", call0 "self.block", call0 "self.end_scope",
        ⟨"self.emit_loop", [.i loopStart]⟩, patchJump exitJump, emitOp .Pop, call0 "self.compiler().pop_loop"]
    ++ (match popped with | .ok _ => [] | .error e => [reportErr e])
    ++ [call0 "self.end_scope"]

end Yarel.StmtSkeleton
