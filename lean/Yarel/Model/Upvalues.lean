/-
Bug-compatible model of the captured-variable ("upvalue") mechanism of ONE fiber of the yarel VM.

Rust sources transcribed (yarel/src):
  vm.rs      capture_upvalue, closure_impl, get_upvalue_impl, set_upvalue_impl, close_upvalue_impl,
             return_impl, get_local_impl, set_local_impl
  object.rs  ObjUpvalue { data: Open(*mut Value) | Closed(Value), next }, get/set/close/is_open_with_pred,
             ObjFiber::close_upvalues(index), close_upvalues_for_frame
  stack.rs   Stack<T,N>: a fixed array of N values plus a `top` pointer. Indexing (`stack[i]`) is checked
             against N, NOT against the logical length, and `Open(ptr)` cells are dereferenced raw: an access
             to a slot at or above `top` silently reads/writes DEAD stack memory. The model makes that
             explicit: such an access returns `Res.fault`.

Representation
  * `stack`     the live part of the value stack, slot i = i-th element.
  * `cells`     the heap of upvalue cells, indexed by cell id (allocation order); a cell is
                `opened slot` (raw pointer to `stack[slot]`) or `closed v` (owns the value).
  * `openList`  the per-fiber singly linked list `open_upvalues`, head first. Each node is stored as
                (cell id, slot the cell points to). The slot component is the `Open(ptr)` field of the cell that
                the list walks read through `is_open_with_pred`; `Proofs/UpvaluesInv.lean` (`coh_step`) proves
                that for EVERY operation sequence (including the undisciplined ones) it coincides with what
                `cells` records and that no closed cell is ever in the list, so the walks below see exactly what
                the Rust walks see.
  The pure list bookkeeping (`captureList`, `closeList`) is separate so that the trace driver
  (Yarel/Drv/Upv.lean) can run it without stack values.

Not modelled: the capacity N of the stack (push overflow), GC of cells.
Core Lean only (linked into the executable).
-/
namespace Yarel.Upv

/-- Values are abstract; `Nat` stands in for `Value`. -/
abbrev Val := Nat

/-- `ObjUpvalueState`. `opened slot` = `Open(&stack[slot])`. -/
inductive Cell where
  | opened (slot : Nat)
  | closed (v : Val)
deriving DecidableEq, Repr, Inhabited

/-- Result of an operation. `fault` = the real code touches dead stack memory at this point
(raw pointer / unchecked index at or above the stack top). `bad` = the request itself is meaningless
for the model (a cell id that was never allocated) – cannot happen in the VM, where cells are GC pointers. -/
inductive Res (α : Type) where
  | ok (a : α)
  | fault
  | bad
deriving DecidableEq, Repr

/-! ## Open-list bookkeeping (shared with the trace driver) -/

section ListPart
variable {κ : Type}

/-- `capture_upvalue`: walk the list while the node's address is `> loc`; if the node found has address `== loc`
reuse it; otherwise splice a new node (`fresh`) in before the node found.
Returns ((cell, isNew), new list). -/
def captureList (fresh : κ) (loc : Nat) : List (κ × Nat) → (κ × Bool) × List (κ × Nat)
  | [] => ((fresh, true), [(fresh, loc)])
  | (c, s) :: t =>
    if s > loc then
      let r := captureList fresh loc t
      (r.1, (c, s) :: r.2)
    else if s = loc then ((c, false), (c, s) :: t)
    else ((fresh, true), (fresh, loc) :: (c, s) :: t)

/-- `close_upvalues(idx)`: pop nodes from the head while their address is `>= &stack[idx]`.
Returns (popped nodes in pop order, remaining list). -/
def closeList (idx : Nat) : List (κ × Nat) → List (κ × Nat) × List (κ × Nat)
  | [] => ([], [])
  | (c, s) :: t =>
    if s ≥ idx then
      let r := closeList idx t
      ((c, s) :: r.1, r.2)
    else ([], (c, s) :: t)

end ListPart

/-! ## One fiber -/

structure Fiber where
  stack : List Val := []
  cells : List Cell := []
  openList : List (Nat × Nat) := []
deriving DecidableEq, Repr

namespace Fiber

def empty : Fiber := {}

def height (s : Fiber) : Nat := s.stack.length

/-- `get_local_impl`: `stack[slot_base + slot]` (unchecked against the logical length). -/
def getLocal (i : Nat) (s : Fiber) : Res Val :=
  match s.stack[i]? with
  | some v => .ok v
  | none => .fault

/-- `set_local_impl`. -/
def setLocal (i : Nat) (v : Val) (s : Fiber) : Res Fiber :=
  if i < s.stack.length then .ok { s with stack := s.stack.set i v } else .fault

/-- `Stack::push`. -/
def push (v : Val) (s : Fiber) : Fiber := { s with stack := s.stack ++ [v] }

/-- `Stack::truncate(n)` / `pop` – BARE truncation, closes nothing. (With `n` above the height the release
build moves `top` up over dead memory: `fault`.) -/
def truncate (n : Nat) (s : Fiber) : Res Fiber :=
  if n ≤ s.stack.length then .ok { s with stack := s.stack.take n } else .fault

/-- `ObjUpvalue::get`. -/
def getCell (c : Nat) (s : Fiber) : Res Val :=
  match s.cells[c]? with
  | none => .bad
  | some (.closed v) => .ok v
  | some (.opened sl) =>
    match s.stack[sl]? with
    | some v => .ok v
    | none => .fault

/-- `ObjUpvalue::set`. -/
def setCell (c : Nat) (v : Val) (s : Fiber) : Res Fiber :=
  match s.cells[c]? with
  | none => .bad
  | some (.closed _) => .ok { s with cells := s.cells.set c (.closed v) }
  | some (.opened sl) =>
    if sl < s.stack.length then .ok { s with stack := s.stack.set sl v } else .fault

/-- `capture_upvalue(loc)`. Never dereferences the slot. Returns (fiber, cell id, isNew). -/
def capture (loc : Nat) (s : Fiber) : Fiber × Nat × Bool :=
  let r := captureList s.cells.length loc s.openList
  if r.1.2 then
    ({ s with cells := s.cells ++ [.opened loc], openList := r.2 }, r.1.1, true)
  else
    ({ s with openList := r.2 }, r.1.1, false)

/-- `ObjUpvalue::close`: `let value = self.get(); self.data = Closed(value)`. -/
def closeCell (c : Nat) (s : Fiber) : Res Fiber :=
  match s.getCell c with
  | .ok v => .ok { s with cells := s.cells.set c (.closed v) }
  | .fault => .fault
  | .bad => .bad

/-- close the popped nodes one after the other, in pop order. -/
def closeCells : List (Nat × Nat) → Fiber → Res Fiber
  | [], s => .ok s
  | (c, _) :: t, s =>
    match closeCell c s with
    | .ok s' => closeCells t s'
    | .fault => .fault
    | .bad => .bad

/-- `ObjFiber::close_upvalues(idx)`. Returns the fiber and the ids of the cells closed, in order. -/
def closeFrom (idx : Nat) (s : Fiber) : Res (Fiber × List Nat) :=
  let r := closeList idx s.openList
  match closeCells r.1 { s with openList := r.2 } with
  | .ok s' => .ok (s', r.1.map (·.1))
  | .fault => .fault
  | .bad => .bad

/-- What scope exit (`CloseUpvalue`: `close_upvalues(len-1); pop`) and `return_impl`
(`close_upvalues(slot_base); truncate(slot_base)`) do. -/
def closeAndTruncate (n : Nat) (s : Fiber) : Res (Fiber × List Nat) :=
  match closeFrom n s with
  | .ok (s', cs) =>
    match truncate n s' with
    | .ok s'' => .ok (s'', cs)
    | .fault => .fault
    | .bad => .bad
  | .fault => .fault
  | .bad => .bad

end Fiber

/-! ## Operation sequences -/

inductive Op where
  | push (v : Val)
  | getLocal (i : Nat)
  | setLocal (i : Nat) (v : Val)
  | capture (loc : Nat)
  | getCell (c : Nat)
  | setCell (c : Nat) (v : Val)
  | closeAndTruncate (n : Nat)
  /-- bare `close_upvalues` without the truncation that always follows it in the VM. -/
  | closeFrom (idx : Nat)
  /-- bare truncation (exists in the VM on some paths, e.g. unwinding). -/
  | truncate (n : Nat)
deriving DecidableEq, Repr

/-- What an operation returns to its caller. -/
inductive Obs where
  | unit
  | val (v : Val)
  | cell (c : Nat) (isNew : Bool)
  | closedCells (cs : List Nat)
deriving DecidableEq, Repr

open Fiber in
def step (op : Op) (s : Fiber) : Res (Fiber × Obs) :=
  match op with
  | .push v => .ok (s.push v, .unit)
  | .getLocal i =>
    match s.getLocal i with
    | .ok v => .ok (s, .val v)
    | .fault => .fault
    | .bad => .bad
  | .setLocal i v =>
    match s.setLocal i v with
    | .ok s' => .ok (s', .unit)
    | .fault => .fault
    | .bad => .bad
  | .capture loc =>
    let r := s.capture loc
    .ok (r.1, .cell r.2.1 r.2.2)
  | .getCell c =>
    match s.getCell c with
    | .ok v => .ok (s, .val v)
    | .fault => .fault
    | .bad => .bad
  | .setCell c v =>
    match s.setCell c v with
    | .ok s' => .ok (s', .unit)
    | .fault => .fault
    | .bad => .bad
  | .closeAndTruncate n =>
    match s.closeAndTruncate n with
    | .ok (s', cs) => .ok (s', .closedCells cs)
    | .fault => .fault
    | .bad => .bad
  | .closeFrom idx =>
    match s.closeFrom idx with
    | .ok (s', cs) => .ok (s', .closedCells cs)
    | .fault => .fault
    | .bad => .bad
  | .truncate n =>
    match s.truncate n with
    | .ok s' => .ok (s', .unit)
    | .fault => .fault
    | .bad => .bad

/-- Run a sequence, collecting the observations. -/
def run : List Op → Fiber → Res (Fiber × List Obs)
  | [], s => .ok (s, [])
  | op :: ops, s =>
    match step op s with
    | .ok (s', o) =>
      match run ops s' with
      | .ok (s'', os) => .ok (s'', o :: os)
      | .fault => .fault
      | .bad => .bad
    | .fault => .fault
    | .bad => .bad

/-- The DISCIPLINED operations: everything in range, and the stack only ever shrinks through
`closeAndTruncate` (never below an open cell without closing it). Bare `truncate` and bare `closeFrom` are not
disciplined. -/
def Disc (s : Fiber) : Op → Prop
  | .push _ => True
  | .getLocal i => i < s.stack.length
  | .setLocal i _ => i < s.stack.length
  | .capture loc => loc < s.stack.length
  | .getCell c => c < s.cells.length
  | .setCell c _ => c < s.cells.length
  | .closeAndTruncate n => n ≤ s.stack.length
  | .closeFrom _ => False
  | .truncate _ => False

instance (s : Fiber) (op : Op) : Decidable (Disc s op) := by
  cases op <;> simp only [Disc] <;> infer_instance

/-- A whole sequence is disciplined when every operation is, in the state it is executed in.
(Nothing is required after a faulting step – that disciplined sequences never fault is a theorem,
`no_fault_disciplined`, not part of this definition.) -/
def Disciplined : Fiber → List Op → Prop
  | _, [] => True
  | s, op :: ops =>
    Disc s op ∧
      match step op s with
      | .ok (s', _) => Disciplined s' ops
      | .fault => True
      | .bad => True

instance instDecidableDisciplined : (s : Fiber) → (ops : List Op) → Decidable (Disciplined s ops)
  | _, [] => isTrue trivial
  | s, op :: ops =>
    if hd : Disc s op then
      match h : step op s with
      | .ok (s', _) =>
        match instDecidableDisciplined s' ops with
        | isTrue h' => isTrue (by unfold Disciplined; rw [h]; exact ⟨hd, h'⟩)
        | isFalse h' => isFalse (by unfold Disciplined; rw [h]; exact fun hh => h' hh.2)
      | .fault => isTrue (by unfold Disciplined; rw [h]; exact ⟨hd, trivial⟩)
      | .bad => isTrue (by unfold Disciplined; rw [h]; exact ⟨hd, trivial⟩)
    else isFalse (by unfold Disciplined; exact fun hh => hd hh.1)

/-- States reached from the empty fiber by disciplined operations. -/
inductive Reachable : Fiber → Prop where
  | empty : Reachable Fiber.empty
  | step {s s' : Fiber} {op : Op} {o : Obs} :
      Reachable s → Disc s op → step op s = .ok (s', o) → Reachable s'

/-! ## Abstract semantics: one variable per slot instance

Every `push` creates a fresh variable; a stack slot *is* a variable id; a cell *is* (permanently) the variable it
was created for. `getCell`/`setCell` read/write that variable, whether or not its slot still exists. -/

structure AState where
  /-- variable id ↦ value (ids allocated sequentially, never freed). -/
  store : List Val := []
  /-- the stack, as variable ids. -/
  astack : List Nat := []
  /-- cell id ↦ the variable the cell was created for. -/
  cellVar : List Nat := []
deriving DecidableEq, Repr

def AState.empty : AState := {}

/-- Abstract step. `none` = the operation is not meaningful (index out of range / not an abstract operation).
`closeAndTruncate n` just pops the slots; the variables live on in the store. -/
def astep (op : Op) (a : AState) : Option (AState × Obs) :=
  match op with
  | .push v => some ({ a with store := a.store ++ [v], astack := a.astack ++ [a.store.length] }, .unit)
  | .getLocal i =>
    match a.astack[i]? with
    | some x => match a.store[x]? with
      | some v => some (a, .val v)
      | none => none
    | none => none
  | .setLocal i v =>
    match a.astack[i]? with
    | some x => some ({ a with store := a.store.set x v }, .unit)
    | none => none
  | .capture loc =>
    match a.astack[loc]? with
    | some x =>
      if x ∈ a.cellVar then some (a, .cell (a.cellVar.idxOf x) false)
      else some ({ a with cellVar := a.cellVar ++ [x] }, .cell a.cellVar.length true)
    | none => none
  | .getCell c =>
    match a.cellVar[c]? with
    | some x => match a.store[x]? with
      | some v => some (a, .val v)
      | none => none
    | none => none
  | .setCell c v =>
    match a.cellVar[c]? with
    | some x => some ({ a with store := a.store.set x v }, .unit)
    | none => none
  | .closeAndTruncate n =>
    if n ≤ a.astack.length then some ({ a with astack := a.astack.take n }, .unit) else none
  | .closeFrom _ => none
  | .truncate _ => none

def arun : List Op → AState → Option (AState × List Obs)
  | [], a => some (a, [])
  | op :: ops, a =>
    match astep op a with
    | some (a', o) =>
      match arun ops a' with
      | some (a'', os) => some (a'', o :: os)
      | none => none
    | none => none

/-- The abstract semantics has no notion of "closing": which cells a `closeAndTruncate` closed is not an
abstract observation. Everything else (values, cell identities, isNew flags) is compared exactly. -/
def Obs.erase : Obs → Obs
  | .closedCells _ => .unit
  | o => o

end Yarel.Upv
