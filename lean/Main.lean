import Yarel.Model.Basic
import Yarel.Drv.Intern
import Yarel.Drv.Gc
import Yarel.Drv.Pace
import Yarel.Drv.Upv
import Yarel.Drv.Map
import Yarel.Drv.Str
import Yarel.Drv.Verify
import Yarel.Drv.Exc
import Yarel.Drv.Fib
import Yarel.Drv.Iter
import Yarel.Drv.Mod
import Yarel.Drv.Cls
import Yarel.Drv.Err
import Yarel.Drv.Num
import Yarel.Drv.Spec

def main (args : List String) : IO UInt32 := do
  match args with
  | "intern" :: rest => do Yarel.Drv.Intern.run rest; return 0
  | "gc" :: rest => do Yarel.Drv.Gc.run rest; return 0
  | "pace" :: rest => do Yarel.Drv.Pace.run rest; return 0
  | "upv" :: rest => do Yarel.Drv.Upv.run rest; return 0
  | "map" :: rest => do Yarel.Drv.Map.run rest; return 0
  | "str" :: rest => do Yarel.Drv.Str.run rest; return 0
  | "verify" :: rest => do Yarel.Drv.Verify.run rest; return 0
  | "exc" :: rest => do Yarel.Drv.Exc.run rest; return 0
  | "fib" :: rest => do Yarel.Drv.Fib.run rest; return 0
  | "iter" :: rest => do Yarel.Drv.Iter.run rest; return 0
  | "mod" :: rest => do Yarel.Drv.Mod.run rest; return 0
  | "cls" :: rest => do Yarel.Drv.Cls.run rest; return 0
  | "err" :: rest => do Yarel.Drv.Err.run rest; return 0
  | "num" :: rest => do Yarel.Drv.Num.run rest; return 0
  | "spec" :: rest => do Yarel.Drv.Spec.run rest; return 0
  | _ => do
    IO.eprintln "usage: yarel_model <family> [args]"
    return 2
