import Yarel.Model.Basic

def main (args : List String) : IO UInt32 := do
  match args with
  | _ => do
    IO.eprintln "usage: yarel_model <family> [args]"
    return 2
