import Yarel.Model.Basic
import Yarel.Drv.Intern

def main (args : List String) : IO UInt32 := do
  match args with
  | "intern" :: rest => do Yarel.Drv.Intern.run rest; return 0
  | _ => do
    IO.eprintln "usage: yarel_model <family> [args]"
    return 2
