// Correspondence harness for the /verif machinery: runs the real yarel implementation (linked from
// /repo/yarel with feature `verif_hooks`) on cases read from stdin, one case per line, and prints one
// JSON object per case on stdout.
//
// Case line:   case <id> [key=value]... -- <step> <step> ...
//   options:   gc=default|always|never   quarantine=0|1   events=0|1   steps=<n>   dumpgc=<n>
//              allocs=0|1   itrace=<n>   bytecode=0|1   stats=0|1   stack_mb=<n>
//   steps:     M:<name-hex>:<src-hex>   define a module source for the loader
//              S:<src-hex>              compile + execute a snippet on the case's interpreter
//              C:<src-hex>              compile only
//              R                        Vm::reset()
//              N                        replace the interpreter by a new one
//              G                        force a collection and report heap statistics
//              ID:<text-hex>            identity of the interned string (via the interpreter)
//              I:<hash16>:<text-hex>    intern in a bare intern table with a chosen hash
//              IDUMP                    layout of that bare intern table
//              VDUMP                    layout of the interpreter's intern table
//              SCAN:<src-hex>           token stream
// Every case runs in its own thread (the managed heap is thread-local), under catch_unwind.

use std::cell::RefCell;
use std::collections::HashMap;
use std::fmt::Write as FmtWrite;
use std::hash::{Hash, Hasher};
use std::io::{self, BufRead, Write};
use std::panic;

use yarel::compiler;
use yarel::error::{Error, ErrorKind};
use yarel::memory::{self, Root};
use yarel::object::ObjFunction;
use yarel::value::Value;
use yarel::vm::{self, Vm};

thread_local! {
    static OUTPUT: RefCell<Vec<String>> = RefCell::new(Vec::new());
    static MODULES: RefCell<HashMap<String, String>> = RefCell::new(HashMap::new());
}

// Captures the u64 a `Hash` impl writes (yarel values hash by writing one precomputed u64).
struct CaptureHasher(u64);

impl Hasher for CaptureHasher {
    fn write(&mut self, bytes: &[u8]) {
        let mut b = [0u8; 8];
        let n = bytes.len().min(8);
        b[..n].copy_from_slice(&bytes[..n]);
        self.0 = u64::from_ne_bytes(b);
    }

    fn finish(&self) -> u64 {
        self.0
    }
}

fn unhex(s: &str) -> Option<Vec<u8>> {
    if s == "-" {
        return Some(Vec::new());
    }
    if s.len() % 2 != 0 {
        return None;
    }
    let b = s.as_bytes();
    let mut out = Vec::with_capacity(b.len() / 2);
    for i in (0..b.len()).step_by(2) {
        let hi = (b[i] as char).to_digit(16)?;
        let lo = (b[i + 1] as char).to_digit(16)?;
        out.push((hi * 16 + lo) as u8);
    }
    Some(out)
}

fn unhex_str(s: &str) -> Option<String> {
    String::from_utf8(unhex(s)?).ok()
}

fn json_str(out: &mut String, s: &str) {
    out.push('"');
    for c in s.chars() {
        match c {
            '"' => out.push_str("\\\""),
            '\\' => out.push_str("\\\\"),
            '\n' => out.push_str("\\n"),
            '\r' => out.push_str("\\r"),
            '\t' => out.push_str("\\t"),
            c if (c as u32) < 0x20 => {
                let _ = write!(out, "\\u{:04x}", c as u32);
            }
            c => out.push(c),
        }
    }
    out.push('"');
}

fn json_str_list(out: &mut String, items: &[String]) {
    out.push('[');
    for (i, s) in items.iter().enumerate() {
        if i > 0 {
            out.push(',');
        }
        json_str(out, s);
    }
    out.push(']');
}

fn local_print(vm: &mut Vm, num_args: usize) -> Result<Value, Error> {
    if num_args != 1 {
        return Err(Error::with_message(
            ErrorKind::TypeError,
            "Expected one argument to 'print'.",
        ));
    }
    let text = format!("{}", vm.native_arg(1));
    OUTPUT.with(|output| output.borrow_mut().push(text));
    Ok(Value::None)
}

// host_raise(kind_name, message): a host-provided native that fails with the given ErrorKind.
fn host_raise(vm: &mut Vm, num_args: usize) -> Result<Value, Error> {
    if num_args != 2 {
        return Err(Error::with_message(
            ErrorKind::TypeError,
            "Expected two arguments to 'host_raise'.",
        ));
    }
    let kind = format!("{}", vm.native_arg(1));
    let msg = format!("{}", vm.native_arg(2));
    let kind = match kind.as_str() {
        "AttributeError" => ErrorKind::AttributeError,
        "CompileError" => ErrorKind::CompileError,
        "ImportError" => ErrorKind::ImportError,
        "IndexError" => ErrorKind::IndexError,
        "NameError" => ErrorKind::NameError,
        "RuntimeError" => ErrorKind::RuntimeError,
        "TypeError" => ErrorKind::TypeError,
        "ValueError" => ErrorKind::ValueError,
        _ => return Ok(Value::None),
    };
    Err(Error::with_message(kind, &msg))
}

// host_id(v): a host-provided native that returns its argument.
fn host_id(vm: &mut Vm, num_args: usize) -> Result<Value, Error> {
    if num_args != 1 {
        return Err(Error::with_message(
            ErrorKind::TypeError,
            "Expected one argument to 'host_id'.",
        ));
    }
    Ok(vm.native_arg(1))
}

fn module_loader(path: &str) -> Result<String, Error> {
    MODULES.with(|m| match m.borrow().get(path) {
        Some(src) => Ok(src.clone()),
        None => Err(Error::with_message(
            ErrorKind::ImportError,
            &format!("Unable to read file '{}.yl' (file not found).", path),
        )),
    })
}

fn new_vm() -> Vm {
    let mut vm = Vm::with_built_ins();
    vm.set_printer(local_print);
    vm.set_module_loader(module_loader);
    vm.define_native("main", "host_raise", host_raise);
    vm.define_native("main", "host_id", host_id);
    vm
}

#[derive(Clone, Default)]
struct Opts {
    gc: String,
    quarantine: bool,
    events: bool,
    steps: Option<u64>,
    dumpgc: usize,
    allocs: bool,
    itrace: usize,
    bytecode: bool,
    stats: bool,
    stack_mb: usize,
}

fn dump_value(out: &mut String, v: &Value, funcs: &mut Vec<Root<ObjFunction>>) {
    match v {
        Value::Number(n) => {
            let _ = write!(out, "[\"n\",\"{:016x}\"]", n.to_bits());
        }
        Value::ObjString(s) => {
            out.push_str("[\"s\",");
            json_str(out, s.as_str());
            out.push(']');
        }
        Value::ObjFunction(f) => {
            let idx = funcs.len();
            funcs.push(f.as_root());
            let _ = write!(out, "[\"f\",{}]", idx);
        }
        Value::Boolean(b) => {
            let _ = write!(out, "[\"b\",{}]", b);
        }
        Value::None => out.push_str("[\"nil\"]"),
        _ => out.push_str("[\"other\"]"),
    }
}

// Dump a compiled function and, recursively, every function among its constants.
fn dump_functions(out: &mut String, top: &Root<ObjFunction>) {
    let mut funcs: Vec<Root<ObjFunction>> = vec![top.clone()];
    let mut i = 0;
    out.push('[');
    while i < funcs.len() {
        let f = funcs[i].clone();
        if i > 0 {
            out.push(',');
        }
        out.push_str("{\"name\":");
        json_str(out, f.name.as_str());
        let chunk = &*f.chunk;
        let _ = write!(
            out,
            ",\"arity\":{},\"upvalues\":{},\"chunk\":{},\"code\":\"",
            f.arity,
            f.upvalue_count,
            chunk as *const _ as usize
        );
        for b in &chunk.code {
            let _ = write!(out, "{:02x}", b);
        }
        out.push_str("\",\"lines\":[");
        for (k, l) in chunk.lines.iter().enumerate() {
            if k > 0 {
                out.push(',');
            }
            let _ = write!(out, "{}", l);
        }
        out.push_str("],\"constants\":[");
        for (k, c) in chunk.constants.iter().enumerate() {
            if k > 0 {
                out.push(',');
            }
            dump_value(out, c, &mut funcs);
        }
        out.push_str("]}");
        i += 1;
    }
    out.push(']');
}

fn kind_name(kind: ErrorKind) -> &'static str {
    match kind {
        ErrorKind::AttributeError => "AttributeError",
        ErrorKind::CompileError => "CompileError",
        ErrorKind::ImportError => "ImportError",
        ErrorKind::IndexError => "IndexError",
        ErrorKind::NameError => "NameError",
        ErrorKind::RuntimeError => "RuntimeError",
        ErrorKind::TypeError => "TypeError",
        ErrorKind::ValueError => "ValueError",
    }
}

fn stats_json(out: &mut String) {
    let st = memory::verif::stats();
    let _ = write!(
        out,
        "{{\"bytes\":{},\"payload_bytes\":{},\"threshold\":{},\"objects\":{},\"sum_roots\":{},\"collections\":{},\"by_type\":[",
        st.bytes_allocated, st.payload_bytes, st.threshold, st.num_objects, st.sum_roots, st.collections
    );
    for (i, (name, count, roots)) in st.by_type.iter().enumerate() {
        if i > 0 {
            out.push(',');
        }
        out.push('[');
        json_str(out, name);
        let _ = write!(out, ",{},{}]", count, roots);
    }
    out.push_str("]}");
}

fn run_source(vm: &mut Vm, src: String, opts: &Opts, compile_only: bool, out: &mut String) {
    OUTPUT.with(|o| o.borrow_mut().clear());
    if opts.steps.is_some() {
        vm::verif::set_step_budget(opts.steps);
    }
    let compiled = compiler::compile(vm, src, None);
    let result: Result<Value, Error> = match compiled {
        Ok(function) => {
            if opts.bytecode {
                out.push_str("\"functions\":");
                dump_functions(out, &function);
                out.push(',');
            }
            if compile_only {
                Ok(Value::None)
            } else {
                vm.execute(function, &[])
            }
        }
        Err(e) => Err(e),
    };
    let printed = OUTPUT.with(|o| std::mem::take(&mut *o.borrow_mut()));
    match &result {
        Ok(v) => {
            out.push_str("\"status\":\"ok\",\"value\":");
            json_str(out, &format!("{}", v));
        }
        Err(e) => {
            let _ = write!(out, "\"status\":\"err\",\"kind\":\"{}\",\"messages\":", kind_name(e.kind()));
            json_str_list(out, e.messages());
        }
    }
    out.push_str(",\"printed\":");
    json_str_list(out, &printed);
    let r = vm.verif_residue();
    let _ = write!(
        out,
        ",\"residue\":[{},{},{},{},{},{}]",
        r.0, r.1, r.2, r.3, r.4, r.5
    );
}

// Runs one snippet under catch_unwind; returns false (after reporting the panic) if it panicked, in
// which case the interpreter is in an unknown state and the case ends.
fn guarded_run(vm: &mut Vm, src: String, opts: &Opts, compile_only: bool, out: &mut String) -> bool {
    let mut tmp = String::new();
    let result = panic::catch_unwind(panic::AssertUnwindSafe(|| {
        run_source(vm, src, opts, compile_only, &mut tmp);
    }));
    match result {
        Ok(()) => {
            out.push_str(&tmp);
            collect_side_channels(opts, out);
            true
        }
        Err(payload) => {
            let msg = if let Some(s) = payload.downcast_ref::<&str>() {
                s.to_string()
            } else if let Some(s) = payload.downcast_ref::<String>() {
                s.clone()
            } else {
                "panic".to_string()
            };
            out.push_str("\"status\":\"panic\",\"message\":");
            json_str(out, &msg);
            let printed = OUTPUT.with(|o| std::mem::take(&mut *o.borrow_mut()));
            out.push_str(",\"printed\":");
            json_str_list(out, &printed);
            collect_side_channels(opts, out);
            false
        }
    }
}

fn collect_side_channels(opts: &Opts, out: &mut String) {
    let uaf = memory::verif::take_uaf();
    if !uaf.is_empty() {
        out.push_str(",\"uaf\":");
        json_str_list(out, &uaf);
    }
    if opts.events {
        out.push_str(",\"events\":");
        json_str_list(out, &vm::verif::take_events());
    }
    if opts.allocs {
        out.push_str(",\"allocs\":[");
        for (i, a) in memory::verif::take_allocs().iter().enumerate() {
            if i > 0 {
                out.push(',');
            }
            let _ = write!(
                out,
                "[{},{},{},{},{},{}]",
                a.size,
                a.bytes_before,
                a.threshold_before,
                a.collected as u8,
                a.bytes_after,
                a.threshold_after
            );
        }
        out.push(']');
    }
    if opts.itrace > 0 {
        out.push_str(",\"itrace\":[");
        for (i, t) in vm::verif::take_instructions().iter().enumerate() {
            if i > 0 {
                out.push(',');
            }
            let _ = write!(out, "[{},{},{},{},{},{}]", t.0, t.1, t.2, t.3, t.4, t.5);
        }
        out.push(']');
    }
    if opts.dumpgc > 0 {
        out.push_str(",\"gcdumps\":[");
        for (i, d) in memory::verif::take_dumps().iter().enumerate() {
            if i > 0 {
                out.push(',');
            }
            out.push_str("{\"objects\":[");
            for (k, o) in d.objects.iter().enumerate() {
                if k > 0 {
                    out.push(',');
                }
                out.push('[');
                let _ = write!(out, "{},", o.0);
                json_str(out, memory::verif::type_of(o.0).unwrap_or("?"));
                let _ = write!(out, ",{},{}]", o.1, o.2);
            }
            out.push_str("],\"calls\":[");
            for (k, c) in d.calls.iter().enumerate() {
                if k > 0 {
                    out.push(',');
                }
                let _ = write!(out, "[{},{},{},{}]", c.0, c.1 as u8, c.2, c.3 as u8);
            }
            out.push_str("],\"retained\":[");
            for (k, r) in d.retained.iter().enumerate() {
                if k > 0 {
                    out.push(',');
                }
                let _ = write!(out, "{}", r);
            }
            let _ = write!(out, "],\"bytes_freed\":{}}}", d.bytes_freed);
        }
        out.push(']');
    }
    if opts.stats {
        out.push_str(",\"stats\":");
        stats_json(out);
    }
}

fn run_case(id: &str, opts: &Opts, steps: &[String]) -> String {
    let mut out = String::new();
    out.push_str("{\"id\":");
    json_str(&mut out, id);
    out.push_str(",\"steps\":[");

    match opts.gc.as_str() {
        "always" => memory::verif::set_mode(memory::verif::Mode::Always),
        "never" => memory::verif::set_mode(memory::verif::Mode::Never),
        _ => memory::verif::set_mode(memory::verif::Mode::Default),
    }
    memory::verif::set_quarantine(opts.quarantine);
    memory::verif::set_log_allocs(false);
    vm::verif::set_events(false);

    let mut vm = Some(new_vm());
    let mut store = vm::verif::StringStore::new();
    // Observation starts after the interpreter exists (its construction is not part of a case).
    memory::verif::set_log_allocs(opts.allocs);
    memory::verif::set_dump_collections(opts.dumpgc);
    vm::verif::set_events(opts.events);
    vm::verif::set_trace_instructions(opts.itrace);

    for (n, step) in steps.iter().enumerate() {
        if n > 0 {
            out.push(',');
        }
        out.push('{');
        let vmr = vm.as_mut().unwrap();
        if let Some(rest) = step.strip_prefix("M:") {
            let mut it = rest.splitn(2, ':');
            let name = it.next().and_then(unhex_str);
            let src = it.next().and_then(unhex_str);
            match (name, src) {
                (Some(name), Some(src)) => {
                    MODULES.with(|m| m.borrow_mut().insert(name, src));
                    out.push_str("\"status\":\"module\"");
                }
                _ => out.push_str("\"status\":\"bad-step\""),
            }
        } else if let Some(hex) = step.strip_prefix("S:") {
            match unhex_str(hex) {
                Some(src) => {
                    if !guarded_run(vmr, src, opts, false, &mut out) {
                        out.push('}');
                        std::mem::forget(vm.take());
                        break;
                    }
                }
                None => out.push_str("\"status\":\"bad-step\""),
            }
        } else if let Some(hex) = step.strip_prefix("C:") {
            match unhex_str(hex) {
                Some(src) => {
                    if !guarded_run(vmr, src, opts, true, &mut out) {
                        out.push('}');
                        std::mem::forget(vm.take());
                        break;
                    }
                }
                None => out.push_str("\"status\":\"bad-step\""),
            }
        } else if step == "R" {
            vmr.reset();
            out.push_str("\"status\":\"reset\"");
        } else if step == "N" {
            drop(vm.take());
            vm = Some(new_vm());
            out.push_str("\"status\":\"new\"");
        } else if step == "G" {
            memory::verif::force_collect();
            out.push_str("\"status\":\"gc\",\"stats\":");
            stats_json(&mut out);
        } else if let Some(hex) = step.strip_prefix("ID:") {
            match unhex_str(hex) {
                Some(text) => {
                    let id = vmr.verif_string_id(&text);
                    let gc = vmr.new_gc_obj_string(&text);
                    let mut hasher = CaptureHasher(0);
                    Value::ObjString(gc).hash(&mut hasher);
                    let _ = write!(
                        out,
                        "\"status\":\"id\",\"addr\":{},\"hash\":\"{:016x}\"",
                        id, hasher.0
                    );
                }
                None => out.push_str("\"status\":\"bad-step\""),
            }
        } else if let Some(rest) = step.strip_prefix("I:") {
            let mut it = rest.splitn(2, ':');
            let hash = it.next().and_then(|h| u64::from_str_radix(h, 16).ok());
            let text = it.next().and_then(unhex_str);
            match (hash, text) {
                (Some(hash), Some(text)) => {
                    let (addr, hit) = store.intern(hash, &text);
                    let _ = write!(out, "\"status\":\"intern\",\"addr\":{},\"hit\":{}", addr, hit);
                }
                _ => out.push_str("\"status\":\"bad-step\""),
            }
        } else if step == "IDUMP" || step == "VDUMP" {
            let (cap, size, slots) = if step == "IDUMP" {
                store.dump()
            } else {
                vmr.verif_string_store_dump()
            };
            let _ = write!(out, "\"status\":\"dump\",\"cap\":{},\"size\":{},\"slots\":[", cap, size);
            for (k, (slot, addr)) in slots.iter().enumerate() {
                if k > 0 {
                    out.push(',');
                }
                let _ = write!(out, "[{},{}]", slot, addr);
            }
            out.push(']');
        } else if let Some(hex) = step.strip_prefix("SCAN:") {
            match unhex_str(hex) {
                Some(src) => {
                    out.push_str("\"status\":\"tokens\",\"tokens\":[");
                    for (k, t) in yarel::verif_scan(&src, 1_000_000).iter().enumerate() {
                        if k > 0 {
                            out.push(',');
                        }
                        let _ = write!(out, "[{},", t.0);
                        json_str(&mut out, &t.1);
                        let _ = write!(out, ",{},", t.2);
                        json_str(&mut out, &t.3);
                        out.push(']');
                    }
                    out.push(']');
                }
                None => out.push_str("\"status\":\"bad-step\""),
            }
        } else {
            out.push_str("\"status\":\"bad-step\"");
        }
        out.push('}');
    }
    out.push_str("]}");

    // Tear down: the interpreter first, then whatever the collector quarantined.
    vm::verif::set_events(false);
    drop(store);
    drop(vm);
    memory::verif::set_quarantine(false);
    memory::verif::purge_quarantine();
    out
}

fn parse_case(line: &str) -> Option<(String, Opts, Vec<String>)> {
    let mut parts = line.split_whitespace();
    if parts.next()? != "case" {
        return None;
    }
    let id = parts.next()?.to_string();
    let mut opts = Opts {
        gc: "default".to_string(),
        stack_mb: 64,
        ..Default::default()
    };
    let mut steps = Vec::new();
    let mut in_steps = false;
    for p in parts {
        if in_steps {
            steps.push(p.to_string());
        } else if p == "--" {
            in_steps = true;
        } else {
            let mut kv = p.splitn(2, '=');
            let k = kv.next()?;
            let v = kv.next()?;
            match k {
                "gc" => opts.gc = v.to_string(),
                "quarantine" => opts.quarantine = v == "1",
                "events" => opts.events = v == "1",
                "steps" => opts.steps = v.parse().ok(),
                "dumpgc" => opts.dumpgc = v.parse().ok()?,
                "allocs" => opts.allocs = v == "1",
                "itrace" => opts.itrace = v.parse().ok()?,
                "bytecode" => opts.bytecode = v == "1",
                "stats" => opts.stats = v == "1",
                "stack_mb" => opts.stack_mb = v.parse().ok()?,
                _ => return None,
            }
        }
    }
    Some((id, opts, steps))
}

fn main() {
    panic::set_hook(Box::new(|_| {}));
    let stdin = io::stdin();
    let stdout = io::stdout();
    for line in stdin.lock().lines() {
        let line = match line {
            Ok(l) => l,
            Err(_) => break,
        };
        let line = line.trim().to_string();
        if line.is_empty() {
            continue;
        }
        let answer = match parse_case(&line) {
            None => "{\"error\":\"bad-case\"}".to_string(),
            Some((id, opts, steps)) => {
                let id2 = id.clone();
                let stack = opts.stack_mb * 1024 * 1024;
                let handle = std::thread::Builder::new()
                    .stack_size(stack)
                    .spawn(move || {
                        panic::catch_unwind(panic::AssertUnwindSafe(|| run_case(&id, &opts, &steps)))
                    })
                    .expect("spawn");
                match handle.join() {
                    Ok(Ok(s)) => s,
                    Ok(Err(payload)) | Err(payload) => {
                        let msg = if let Some(s) = payload.downcast_ref::<&str>() {
                            s.to_string()
                        } else if let Some(s) = payload.downcast_ref::<String>() {
                            s.clone()
                        } else {
                            "panic".to_string()
                        };
                        let mut out = String::new();
                        out.push_str("{\"id\":");
                        json_str(&mut out, &id2);
                        out.push_str(",\"panic\":");
                        json_str(&mut out, &msg);
                        out.push('}');
                        out
                    }
                }
            }
        };
        let mut lock = stdout.lock();
        let _ = writeln!(lock, "{}", answer);
        let _ = lock.flush();
    }
}
