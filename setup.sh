#!/bin/sh
# Build the framework from files on disk only (offline).
set -e
cd "$(dirname "$0")"
exec python3 tools/setup.py "$@"
