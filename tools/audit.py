"""Axiom / forbidden-construct audit of theorem modules: python3 tools/audit.py Yarel.Props.C11 ..."""
import sys, os
sys.path.insert(0, os.path.dirname(os.path.abspath(__file__)))
import vlib

bad = False
hits = vlib.scan_forbidden()
for h in hits:
    print("FORBIDDEN", h)
    bad = True
for m in sys.argv[1:]:
    thms, ok, log = vlib.axiom_audit(m)
    for n, ax in sorted(thms.items()):
        print("%s: %s" % (n, ", ".join(ax) or "no axioms"))
    if not ok:
        print("AUDIT FAILED for", m, log[-800:])
        bad = True
sys.exit(1 if bad else 0)
