"""Independent confirmation of a seeded change before it is kept:  python3 tools/confirm_seed.py <src-dir> <ID> <name>
  <src-dir> has patch.diff, demo.yl (or demo*.yl / run.sh), meta.json.
In a fresh scratch worktree of /repo: the patch applies, the workspace test suite gives exactly the baseline result, and the demo's
output on the changed tree differs from the unchanged tree (dev and release CLI).  On success the change is copied to
/verif/seeded/<ID>-<name>/ with confirmation.json.  The worktree and its build output are removed."""
import glob, json, os, shutil, subprocess, sys, time

src, pid, name = sys.argv[1], sys.argv[2], sys.argv[3]
V = os.path.dirname(os.path.dirname(os.path.abspath(__file__)))
wt = "/tmp/wt/confirm_%s_%s" % (pid, name)
tgt = wt + ".target"
ENV = dict(os.environ, CARGO_TARGET_DIR=tgt, CARGO_NET_OFFLINE="true", RUST_BACKTRACE="0")


def sh(cmd, **kw):
    return subprocess.run(cmd, capture_output=True, text=True, **kw)


def cli(build, script):
    """Runs the script as a file and, separately, line by line through the REPL (for multi-snippet demos); cwd = the demo's directory
    so that module files next to it are found."""
    exe = os.path.join(tgt, build, "yarel-cli")
    lim = os.environ.get("CONFIRM_ULIMIT_V")      # a demo whose failure is memory growth: run under an address-space limit (KB)
    wrap = (lambda argv: ["bash", "-c", "ulimit -v %s; exec \"$@\"" % lim, "x"] + argv) if lim else (lambda argv: argv)
    out = {}
    for mode in ("file", "repl"):
        try:
            if mode == "file":
                p = subprocess.run(wrap([exe, script]), capture_output=True, text=True, timeout=int(os.environ.get("CONFIRM_TIMEOUT", "60")), cwd=os.path.dirname(script))
            else:
                p = subprocess.run(wrap([exe]), stdin=open(script), capture_output=True, text=True, timeout=int(os.environ.get("CONFIRM_TIMEOUT", "60")), cwd=os.path.dirname(script))
            out[mode] = {"rc": p.returncode, "stdout": p.stdout[-4000:], "stderr": p.stderr[-2000:]}
        except subprocess.TimeoutExpired:
            out[mode] = {"rc": "timeout", "stdout": "", "stderr": ""}
    return out


def build_clis():
    a = sh(["cargo", "build", "--offline", "-q", "-p", "yarel-cli"], cwd=wt, env=ENV)
    b = sh(["cargo", "build", "--offline", "-q", "--release", "-p", "yarel-cli"], cwd=wt, env=ENV)
    return a.returncode == 0 and b.returncode == 0, (a.stderr + b.stderr)[-1500:]


out = {"property": pid, "name": name, "at": time.strftime("%Y-%m-%dT%H:%M:%S")}
sh(["git", "-C", "/repo", "worktree", "remove", "--force", wt])
r = sh(["git", "-C", "/repo", "worktree", "add", "-q", "--detach", wt, "HEAD"])
try:
    demos = sorted(glob.glob(os.path.join(src, "demo*.yl")))
    ok, log = build_clis()
    out["unchanged_builds"] = ok
    base = {os.path.basename(d): {b: cli(b, d) for b in ("debug", "release")} for d in demos}
    r = sh(["git", "-C", wt, "apply", os.path.join(src, "patch.diff")])
    out["patch_applies"] = r.returncode == 0
    if r.returncode != 0:
        out["error"] = r.stderr[-500:]
    else:
        t = sh(["cargo", "test", "--workspace", "--no-fail-fast", "--offline"], cwd=wt, env=ENV)
        lines = [l for l in (t.stdout + t.stderr).splitlines() if l.startswith("test result") or "FAILED" in l and l.startswith("test ")]
        out["test_suite_lines"] = lines
        out["tests_at_baseline"] = any("3 passed; 0 failed" in l for l in lines) and any("543 passed; 1 failed" in l for l in lines) and \
            [l for l in lines if l.startswith("test ") and not l.startswith("test result") and "FAILED" in l] == ["test number_long_decimal ... FAILED"]
        ok, log = build_clis()
        out["changed_builds"] = ok
        changed = {os.path.basename(d): {b: cli(b, d) for b in ("debug", "release")} for d in demos}
        diff = {d: {b: base[d][b] != changed[d][b] for b in ("debug", "release")} for d in base}
        out["demo_differs"] = diff
        out["demo_unchanged"] = base
        out["demo_changed"] = changed
        out["confirmed"] = bool(out["tests_at_baseline"] and any(any(v.values()) for v in diff.values()))
finally:
    sh(["git", "-C", "/repo", "worktree", "remove", "--force", wt])
    shutil.rmtree(tgt, ignore_errors=True)
    shutil.rmtree(wt, ignore_errors=True)
dst = os.path.join(V, "seeded", "%s-%s" % (pid, name))
if out.get("confirmed"):
    os.makedirs(dst, exist_ok=True)
    for f in os.listdir(src):
        p = os.path.join(src, f)
        if os.path.isfile(p) and os.path.getsize(p) < 2_000_000:
            shutil.copy(p, dst)
    meta = json.load(open(os.path.join(src, "meta.json"))) if os.path.exists(os.path.join(src, "meta.json")) else {}
    meta["confirmed_by"] = "tools/confirm_seed.py: fresh worktree, cargo test --workspace --no-fail-fast --offline at baseline, demo differs (dev/release CLI)"
    json.dump(meta, open(os.path.join(dst, "meta.json"), "w"), indent=1)
    json.dump(out, open(os.path.join(dst, "confirmation.json"), "w"), indent=1)
print(json.dumps({k: v for k, v in out.items() if k not in ("demo_unchanged", "demo_changed")}, indent=1))
