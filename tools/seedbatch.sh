#!/bin/bash
# Runs inside an isolated snapshot (vp run --with-repo): tools/seedbatch.sh "seeded/<dir>:<CHECK> <CHECK>" ...
# Applies each seeded change to the snapshot's copy of the repository ($VP_RUN_REPO), runs the named checks, reverts.
export VERIF_REPO=${VP_RUN_REPO:?needs vp run --with-repo}
./setup.sh > setup.log 2>&1
for spec in "$@"; do
  d=${spec%%:*}; checks=${spec#*:}
  echo "== $d [$checks]"
  python3 tools/seedtest.py $d $checks 2>&1 | grep -E "CAUGHT|rc=|VIOLATION|BROKEN" | cut -c1-220
done
echo SEEDBATCH-DONE
