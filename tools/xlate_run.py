"""Regenerates lean/Yarel/Gen/*.lean (+ facts.json) from /repo/yarel/src with the syn-based translator."""
import os, shutil, sys
sys.path.insert(0, os.path.dirname(os.path.abspath(__file__)))
import vlib

GEN_DIR = os.path.join(vlib.LEAN_DIR, "Yarel", "Gen")


def regenerate():
    with vlib.Lock("xlate"):
        rc, out = vlib.run_cmd(["cargo", "build", "--offline", "--target-dir", os.path.join(vlib.XLATE_DIR, "target")],
                               cwd=vlib.XLATE_DIR, timeout=900)
        if rc != 0:
            return False, "xlate does not build: " + out[-800:]
        exe = os.path.join(vlib.XLATE_DIR, "target", "debug", "xlate")
        tmp = os.path.join(vlib.VERIF, ".tmp", "gen_%d" % os.getpid())
        os.makedirs(tmp, exist_ok=True)
        rc, out = vlib.run_cmd([exe, os.path.join(vlib.REPO, "yarel", "src"), tmp], timeout=120)
        if rc != 0:
            shutil.rmtree(tmp, ignore_errors=True)
            lines = [l for l in out.splitlines() if l.startswith("XLATE-")]
            return False, "; ".join(lines)[:800] or out[-800:]
        os.makedirs(GEN_DIR, exist_ok=True)
        changed = []
        for fn in sorted(os.listdir(tmp)):
            src = os.path.join(tmp, fn)
            dst = os.path.join(GEN_DIR, fn)
            new = open(src, "rb").read()
            if not os.path.exists(dst) or open(dst, "rb").read() != new:
                with open(dst, "wb") as f:
                    f.write(new)
                changed.append(fn)
        shutil.rmtree(tmp, ignore_errors=True)
        return True, {"files": sorted(os.listdir(GEN_DIR)), "changed_since_last_run": changed}


if __name__ == "__main__":
    ok, info = regenerate()
    print(ok, info)
    sys.exit(0 if ok else 1)
