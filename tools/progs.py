"""Program corpora for the differential checks: the repository's own scripts and generated profiles."""
import glob
import os

import vlib
from gen import yl

SCRIPTS_DIR = os.path.join(vlib.REPO, "yarel", "tests", "scripts")


def corpus_scripts():
    """[(name, src, modules)] for every script in the repository's test corpus; modules = all scripts by
    their path-relative name, as the repository's own test build does."""
    paths = sorted(glob.glob(os.path.join(SCRIPTS_DIR, "**", "*.yl"), recursive=True))
    modules = {}
    items = []
    for p in paths:
        try:
            src = open(p, encoding="utf-8").read()
        except Exception:
            continue
        name = os.path.relpath(p, SCRIPTS_DIR)[:-3]
        modules[name] = src
        items.append((name, src))
    return [(n, s, modules) for n, s in items]


def module_steps(modules, src):
    """Only the modules a source could import (textual filter keeps case lines short)."""
    steps = []
    for name, msrc in modules.items():
        if name in src:
            steps.append("M:%s:%s" % (vlib.hx(name), vlib.hx(msrc)))
            # transitive imports
            for n2, s2 in modules.items():
                if n2 != name and n2 in msrc:
                    steps.append("M:%s:%s" % (vlib.hx(n2), vlib.hx(s2)))
    return list(dict.fromkeys(steps))


def generated(rng, profiles, n, avoid=None):
    out = []
    for i in range(n):
        prof = profiles[i % len(profiles)]
        p = yl.generate(rng.fork("%s/%d" % (prof, i)), prof, avoid)
        out.append(("gen:%s:%d" % (prof, i), p["src"], p["modules"], p["tags"]))
    return out


def canon_step(st):
    """The observable of one executed snippet: status, error kind, printed lines, error messages."""
    if st is None:
        return ("missing",)
    if "status" not in st:
        return ("crash", str(st)[:200])
    status = st["status"]
    if status == "panic":
        return ("panic", vlib.canon_text(st.get("message", "")), tuple(vlib.canon_text(x) for x in st.get("printed", [])))
    return (status, st.get("kind", ""), tuple(vlib.canon_text(x) for x in st.get("printed", [])),
            tuple(vlib.canon_text(x) for x in st.get("messages", [])))


def run_programs(runner, progs, opts, steps_budget=3000000, tag="", timeout_per_batch=600, batch=200):
    """progs: [(name, src, modules, ...)]. Returns list of the last step's result dict (or crash dict)."""
    lines = []
    for i, p in enumerate(progs):
        name, src, modules = p[0], p[1], p[2]
        steps = module_steps(modules, src) + ["S:" + vlib.hx(src)]
        o = dict(opts)
        o.setdefault("steps", steps_budget)
        lines.append(vlib.case_line("%s%d" % (tag, i), steps, **o))
    res = vlib.run_real(runner, lines, timeout_per_batch=timeout_per_batch, batch=batch)
    out = []
    for r in res:
        if "steps" in r and r["steps"]:
            out.append(r["steps"][-1])
        else:
            out.append(r)
    return out, lines


def corpus_dir(prop):
    """Minimised past failures and ledger replays kept under /verif/corpus/<ID>/*.yl (run first)."""
    d = os.path.join(vlib.VERIF, "corpus", prop)
    out = []
    for p in sorted(glob.glob(os.path.join(d, "*.yl"))):
        out.append(("corpus:" + os.path.basename(p), open(p, encoding="utf-8").read(), dict(CORPUS_MODULES)))
    return out


CORPUS_MODULES = {}
