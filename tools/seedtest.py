"""Runs the registered checks against a seeded change:  python3 tools/seedtest.py <seeded-dir> [PROP ...] [--tier quick|thorough]

Applies <seeded-dir>/patch.diff to /repo (git apply), runs the checks of the named properties (default: the property in meta.json),
ALWAYS reverts /repo (git checkout -- .), and prints/records which checks raised a VIOLATION.  /repo must be clean before.
"""
import json
import os
import subprocess
import sys
import time

V = os.path.dirname(os.path.dirname(os.path.abspath(__file__)))
REPO = os.environ.get("VERIF_REPO", "/repo")      # a scratch copy of the repository when run inside an isolated snapshot (vp run --with-repo)


def sh(cmd, **kw):
    return subprocess.run(cmd, capture_output=True, text=True, **kw)


def main():
    args = [a for a in sys.argv[1:] if not a.startswith("--")]
    tier = "quick"
    if "--tier" in sys.argv:
        tier = sys.argv[sys.argv.index("--tier") + 1]
        args = [a for a in args if a != tier]
    d = os.path.abspath(args[0])
    meta = json.load(open(os.path.join(d, "meta.json"))) if os.path.exists(os.path.join(d, "meta.json")) else {}
    props = args[1:] or [meta.get("property")]
    st = sh(["git", "-C", REPO, "status", "--porcelain"]).stdout.strip()
    if st:
        print("refusing: the repository is not clean:\n" + st)
        sys.exit(2)
    patch = os.path.join(d, "patch.diff")
    r = sh(["git", "-C", REPO, "apply", patch])
    if r.returncode != 0:
        print("patch does not apply:", r.stderr[-500:])
        sys.exit(2)
    results = {}
    saved = {}
    for p in props:
        ev = os.path.join(V, "evidence", "%s.json" % p)
        if os.path.exists(ev):
            saved[ev] = open(ev).read()
    try:
        for p in props:
            t = time.time()
            c = sh(["./check", p, "--tier", tier], cwd=V)
            lines = [l for l in c.stdout.splitlines() if l.startswith(("VIOLATION", "BROKEN", "OK", "KNOWN"))]
            results[p] = {"rc": c.returncode, "wall_s": round(time.time() - t, 1), "lines": lines[:12]}
            print(p, "rc=%d" % c.returncode, "%.0fs" % (time.time() - t))
            for l in lines[:8]:
                print("   ", l[:260])
    finally:
        sh(["git", "-C", REPO, "checkout", "--", "."])
        for ev, text in saved.items():      # evidence belongs to the unchanged tree
            open(ev, "w").write(text)
        sh([sys.executable, os.path.join(V, "tools", "xlate_run.py")])      # lean/Yarel/Gen back to what the unchanged tree says
        left = sh(["git", "-C", REPO, "status", "--porcelain"]).stdout.strip()
        if left:
            print("WARNING: /repo not clean after revert:\n" + left)
    out = os.path.join(d, "detection_%s.json" % tier)
    json.dump({"tier": tier, "results": results, "at": time.strftime("%Y-%m-%dT%H:%M:%S")}, open(out, "w"), indent=1)
    caught = [p for p, r in results.items() if r["rc"] != 0]
    print("CAUGHT by:", caught if caught else "nothing")


if __name__ == "__main__":
    main()
