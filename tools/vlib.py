"""Shared library of the /verif check driver: building, running the real implementation (harness) and the
Lean model driver, axiom audit, evidence, known findings, replays."""
import fcntl
import hashlib
import json
import os
import re
import shutil
import subprocess
import sys
import time

VERIF = os.path.dirname(os.path.dirname(os.path.abspath(__file__)))
REPO = os.environ.get("VERIF_REPO", "/repo")
LEAN_DIR = os.path.join(VERIF, "lean")
HARNESS_DIR = os.path.join(VERIF, "harness")
XLATE_DIR = os.path.join(VERIF, "xlate")
MODEL_EXE = os.path.join(LEAN_DIR, ".lake", "build", "bin", "yarel_model")
ALLOWED_AXIOMS = {"propext", "Classical.choice", "Quot.sound"}
FORBIDDEN = re.compile(
    r"\bsorry\b|\badmit\b|^\s*axiom\s|native_decide|bv_decide|implemented_by|\bunsafe\s|maxHeartbeats\s+0")

ENV = dict(os.environ)
ENV["CARGO_NET_OFFLINE"] = "true"


def log(msg):
    sys.stderr.write(msg + "\n")
    sys.stderr.flush()


class Lock:
    def __init__(self, name):
        self.path = os.path.join(VERIF, ".locks", name)
        os.makedirs(os.path.dirname(self.path), exist_ok=True)

    def __enter__(self):
        self.f = open(self.path, "w")
        fcntl.flock(self.f, fcntl.LOCK_EX)
        return self

    def __exit__(self, *a):
        fcntl.flock(self.f, fcntl.LOCK_UN)
        self.f.close()


def hx(s):
    if isinstance(s, str):
        s = s.encode("utf-8")
    return s.hex() if s else "-"


def unhx(s):
    return b"" if s == "-" else bytes.fromhex(s)


# ----------------------------------------------------------------------------------------------
# Building

def run_cmd(cmd, cwd=None, timeout=None, env=None):
    p = subprocess.run(cmd, cwd=cwd, env=env or ENV, stdout=subprocess.PIPE, stderr=subprocess.STDOUT,
                       text=True, timeout=timeout)
    return p.returncode, p.stdout


def harness_dir():
    """The harness crate names /repo/yarel as a path dependency. For a relocated repository (VERIF_REPO, used to run the checks
    against a scratch worktree without touching /repo) a sibling crate directory is generated with the path substituted."""
    if REPO == "/repo":
        return HARNESS_DIR
    tag = hashlib.sha1(REPO.encode()).hexdigest()[:10]
    d = os.path.join(VERIF, ".tmp", "harness_" + tag)
    os.makedirs(os.path.join(d, ".cargo"), exist_ok=True)
    toml = open(os.path.join(HARNESS_DIR, "Cargo.toml")).read().replace('path = "/repo/yarel"', 'path = "%s/yarel"' % REPO)
    open(os.path.join(d, "Cargo.toml"), "w").write(toml)
    shutil.copyfile(os.path.join(HARNESS_DIR, ".cargo", "config.toml"), os.path.join(d, ".cargo", "config.toml"))
    if not os.path.exists(os.path.join(d, "src")):
        os.symlink(os.path.join(HARNESS_DIR, "src"), os.path.join(d, "src"))
    return d


def harness_target_dir(profile, features):
    tag = profile + ("-" + "-".join(sorted(features)) if features else "")
    return os.path.join(harness_dir(), "targets", tag)


def build_harness(profile="release", features=()):
    """Build the runner against the repository's current working tree (hooks on). Returns (path, ok, log)."""
    features = tuple(sorted(features))
    hdir = harness_dir()
    tdir = harness_target_dir(profile, features)
    with Lock("cargo-" + os.path.basename(hdir) + "-" + os.path.basename(tdir)):
        lock_src = os.path.join(REPO, "Cargo.lock")
        if os.path.exists(lock_src):
            shutil.copyfile(lock_src, os.path.join(hdir, "Cargo.lock"))
        cmd = ["cargo", "build", "--offline", "--target-dir", tdir]
        if profile == "release":
            cmd.append("--release")
        if features:
            cmd += ["--features", ",".join(features)]
        rc, out = run_cmd(cmd, cwd=hdir, env=dict(ENV), timeout=1800)
        exe = os.path.join(tdir, "release" if profile == "release" else "debug", "runner")
        return exe, rc == 0 and os.path.exists(exe), out


def lake_build(targets, timeout=3600):
    with Lock("lake"):
        rc, out = run_cmd(["lake", "build"] + list(targets), cwd=LEAN_DIR, timeout=timeout)
    return rc == 0, out


def scan_forbidden():
    """Forbidden constructs in the Lean sources (comments stripped line-wise)."""
    hits = []
    for root, _, files in os.walk(os.path.join(LEAN_DIR, "Yarel")):
        if os.path.basename(root) == "Gen":
            continue     # generated data tables (string literals quoting Rust source), no proofs in there
        for fn in files:
            if not fn.endswith(".lean"):
                continue
            path = os.path.join(root, fn)
            in_block = 0
            for n, line in enumerate(open(path, encoding="utf-8"), 1):
                code = line
                # crude block-comment tracking
                out = ""
                i = 0
                while i < len(code):
                    if code.startswith("/-", i):
                        in_block += 1
                        i += 2
                    elif code.startswith("-/", i) and in_block:
                        in_block -= 1
                        i += 2
                    else:
                        if not in_block:
                            out += code[i]
                        i += 1
                out = out.split("--")[0]
                out = re.sub(r'"(?:[^"\\]|\\.)*"', '""', out)   # string literals are data
                if FORBIDDEN.search(out):
                    hits.append("%s:%d: %s" % (os.path.relpath(path, VERIF), n, line.strip()))
    return hits


AUDIT_TEMPLATE = """import Lean
import {module}
open Lean Elab Command
run_cmd do
  let env ← getEnv
  let some idx := env.getModuleIdx? `{module} | throwError "module not found"
  let mut names : Array Name := #[]
  for (n, ci) in env.constants.map₁.toList do
    if env.getModuleIdxFor? n == some idx then
      match ci with
      | .thmInfo _ => if !n.isInternal then names := names.push n
      | _ => pure ()
  for n in names.qsort (fun a b => a.toString < b.toString) do
    let ax ← liftCoreM (collectAxioms n)
    logInfo m!"AXIOMS {{n}} :: {{ax.toList}}"
"""


def axiom_audit(module):
    """Returns (theorems: dict name -> [axioms], ok, log). Every theorem of the module is audited."""
    os.makedirs(os.path.join(VERIF, ".tmp"), exist_ok=True)
    tmp = os.path.join(VERIF, ".tmp", "audit_%s_%d.lean" % (module.replace(".", "_"), os.getpid()))
    with open(tmp, "w") as f:
        f.write(AUDIT_TEMPLATE.format(module=module))
    try:
        rc, out = run_cmd(["lake", "env", "lean", tmp], cwd=LEAN_DIR, timeout=1800)
    finally:
        try:
            os.remove(tmp)
        except OSError:
            pass
    thms = {}
    for m in re.finditer(r"AXIOMS (\S+) :: \[(.*?)\]", out, re.S):
        axs = [a.strip() for a in m.group(2).replace("\n", " ").split(",") if a.strip()]
        thms[m.group(1)] = axs
    bad = {n: [a for a in axs if a not in ALLOWED_AXIOMS] for n, axs in thms.items()}
    bad = {n: a for n, a in bad.items() if a}
    ok = rc == 0 and not bad and len(thms) > 0
    return thms, ok, out if not ok else ""


# ----------------------------------------------------------------------------------------------
# Running

def run_lines(exe_cmd, lines, timeout=600, cwd=None):
    """Feed lines to a line-protocol process; returns (list of output lines, returncode)."""
    data = "\n".join(lines) + "\n"
    p = subprocess.run(exe_cmd, input=data, stdout=subprocess.PIPE, stderr=subprocess.PIPE, text=True,
                       timeout=timeout, cwd=cwd, env=ENV)
    out = p.stdout.split("\n")     # NOT splitlines(): U+0085/U+2028/U+2029 inside a JSON string are not line ends
    if out and out[-1] == "":
        out.pop()
    return out, p.returncode, p.stderr


def run_model(family, lines, timeout=900, extra_args=()):
    out, rc, err = run_lines([MODEL_EXE, family] + list(extra_args), lines, timeout=timeout)
    if rc != 0:
        raise RuntimeError("model driver %s failed rc=%s: %s" % (family, rc, err[-2000:]))
    if len(out) != len(lines):
        raise RuntimeError("model driver %s answered %d lines for %d requests" % (family, len(out), len(lines)))
    return out


HANGS = {"count": 0}
MAX_HANGS = 3


def _run_real_chunk(runner, case_lines, timeout_per_batch):
    results = []
    i = 0
    n = len(case_lines)
    while i < n:
        chunk = case_lines[i:]
        if HANGS["count"] >= MAX_HANGS:
            # several cases already ran into the wall-clock limit: the rest of this run is not executed (each is reported as such)
            for l in chunk:
                results.append({"id": l.split()[1] if len(l.split()) > 1 else "?", "crash": "not-run-after-%d-hangs" % MAX_HANGS})
            break
        try:
            out, rc, err = run_lines([runner], chunk, timeout=timeout_per_batch)
        except subprocess.TimeoutExpired as e:
            raw = e.stdout or b""
            out = (raw.decode("utf-8", "replace") if isinstance(raw, bytes) else raw).split("\n")
            rc = "timeout"
            HANGS["count"] += 1
        parsed = []
        for l in out:
            try:
                parsed.append(json.loads(l))
            except Exception:
                break
        parsed = parsed[:len(chunk)]
        results.extend(parsed)
        if len(parsed) < len(chunk):
            bad = chunk[len(parsed)]
            cid = bad.split()[1] if len(bad.split()) > 1 else "?"
            results.append({"id": cid, "crash": str(rc)})
            i += len(parsed) + 1
        else:
            i += len(chunk)
    return results


def run_real(runner, case_lines, timeout_per_batch=600, batch=200, workers=None):
    """Run cases on the real implementation (every case runs in a thread of its own with its own heap, so cases are independent and
    batches run in parallel processes; results keep the order of the cases). A runner process that dies (abort, SIGSEGV, native stack
    overflow, hang) is bisected: the killing case is reported as {"id":…, "crash": rc} and the rest go on."""
    if not case_lines:
        return []
    workers = workers or int(os.environ.get("VERIF_WORKERS", "0")) or min(12, os.cpu_count() or 1)
    batch = min(batch, max(4, -(-len(case_lines) // (4 * workers))))
    chunks = [case_lines[i:i + batch] for i in range(0, len(case_lines), batch)]
    if len(chunks) == 1 or workers <= 1:
        outs = [_run_real_chunk(runner, c, timeout_per_batch) for c in chunks]
    else:
        from concurrent.futures import ThreadPoolExecutor
        with ThreadPoolExecutor(max_workers=workers) as ex:
            outs = list(ex.map(lambda c: _run_real_chunk(runner, c, timeout_per_batch), chunks))
    return [r for o in outs for r in o]


def case_line(cid, step_list, **opts):
    o = " ".join("%s=%s" % (k, v) for k, v in opts.items())
    return "case %s %s -- %s" % (cid, o, " ".join(step_list))


ADDR = re.compile(r"0x[0-9a-f]+")


def canon_text(s):
    return ADDR.sub("[MEMADDR]", s)


# ----------------------------------------------------------------------------------------------
# Known findings, replays, evidence

def known_findings(prop):
    path = os.path.join(VERIF, "known_findings.json")
    if not os.path.exists(path):
        return []
    return [f for f in json.load(open(path)) if f.get("property") == prop or prop in f.get("properties", [])]


def write_replay(prop, payload):
    d = os.path.join(VERIF, "replays", prop)
    os.makedirs(d, exist_ok=True)
    blob = json.dumps(payload, indent=1, sort_keys=True)
    name = hashlib.sha1(blob.encode()).hexdigest()[:12] + ".json"
    path = os.path.join(d, name)
    with open(path, "w") as f:
        f.write(blob)
    return path


def write_evidence(prop, tier, seed, level, coverage, wall_s, violations, assumptions):
    evdir = os.environ.get("VERIF_EVIDENCE_DIR", os.path.join(VERIF, "evidence"))
    os.makedirs(evdir, exist_ok=True)
    ev = {
        "property_id": prop,
        "tier": tier,
        "seed": seed,
        "level": level,
        "coverage": coverage,
        "assumptions": assumptions,
        "wall_s": round(wall_s, 2),
        "violations": violations,
    }
    with open(os.path.join(evdir, prop + ".json"), "w") as f:
        json.dump(ev, f, indent=1)
    return ev


class SplitMix:
    def __init__(self, seed):
        self.s = seed & 0xFFFFFFFFFFFFFFFF

    def next(self):
        self.s = (self.s + 0x9E3779B97F4A7C15) & 0xFFFFFFFFFFFFFFFF
        z = self.s
        z = ((z ^ (z >> 30)) * 0xBF58476D1CE4E5B9) & 0xFFFFFFFFFFFFFFFF
        z = ((z ^ (z >> 27)) * 0x94D049BB133111EB) & 0xFFFFFFFFFFFFFFFF
        return z ^ (z >> 31)

    def below(self, n):
        return self.next() % n

    def choice(self, xs):
        return xs[self.below(len(xs))]

    def chance(self, num, den):
        return self.below(den) < num

    def fork(self, tag):
        h = int(hashlib.sha1(("%d/%s" % (self.s, tag)).encode()).hexdigest()[:16], 16)
        return SplitMix(h)
