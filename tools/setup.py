"""Build the framework offline: Lean project (all modules + model driver), translator, harness runners."""
import os, sys, subprocess, time
sys.path.insert(0, os.path.dirname(os.path.abspath(__file__)))
import vlib

t0 = time.time()
ok_all = True
if os.path.isdir(vlib.XLATE_DIR):
    import xlate_run
    ok, info = xlate_run.regenerate()
    print("xlate:", ok, str(info)[:300])
    ok_all &= ok
ok, out = vlib.lake_build([])
print("lake build:", ok)
if not ok:
    print(out[-3000:])
ok_all &= ok
for profile in ("release", "dev"):
    exe, ok, out = vlib.build_harness(profile)
    print("harness", profile, ok, exe)
    if not ok:
        print(out[-3000:])
    ok_all &= ok
print("setup wall %.1fs" % (time.time() - t0))
sys.exit(0 if ok_all else 1)
