"""python3 tools/try_hist.py file  : the file holds REPL snippets separated by lines '----' (a line 'R' alone = Vm::reset); runs the
history on the implementation (release harness) and on the Lean reference interpreter (S), prints both (development helper)."""
import json, os, sys
sys.path.insert(0, os.path.dirname(os.path.abspath(__file__)))
import vlib, progs, specdiff
exe, ok, out = vlib.build_harness("release" if "--dev" not in sys.argv else "dev")
snips = [s.strip("\n") + "\n" for s in open(sys.argv[1]).read().split("\n----\n")]
steps = [("R" if s.strip() == "R" else "S:" + vlib.hx(s)) for s in snips]
lines = [vlib.case_line("h", steps, steps=2000000)]
real = vlib.run_real(exe, lines)
spec = specdiff.run_spec(lines)
rs, ss = real[0].get("steps") or [], spec[0].get("steps") or []
if not rs:
    print("impl:", str(real[0])[:600])
for i, s in enumerate(snips):
    cr = progs.canon_step(rs[i]) if i < len(rs) else ("missing",)
    cs = specdiff.canon_spec_step(ss[i]) if i < len(ss) else ("missing",)
    print("== snippet", i, "AGREE" if cr == cs else "DIFFER")
    print(" impl:", cr)
    if cr != cs:
        print(" spec:", cs)
