"""Hand-written GC probes: in each, an object is held ONLY through one kind of reference, then memory is
allocated (every allocation collects in the always-collect mode), then the object is used.  A reference kind
the collector does not trace makes the probe touch a swept object (UafDeref/UafStack event) or print
something different from the never-collect run."""

CHURN = "fn churn() { var i = 0; while i < 3 { var t = [i, [i]]; var s = (i, t); i = i + 1; } }\n"

PROBES = [
    ("vec.element", "var v = [[1, 2], \"s\"]; churn(); print(v[0]); print(v);"),
    ("tuple.element", "var t = ([1], (2, [3])); churn(); print(t[0]); print(t[1][1]);"),
    ("map.value", "var m = {1: [1], \"k\": (2,)}; churn(); print(m.get(1)); print(m.get(\"k\"));"),
    ("map.key", "var m = {(1, 2): \"k\"}; churn(); print(m.keys()); print(m.has_key((1, 2)));"),
    ("map.key.range", "var m = {}; { var i = 0; while i < 12 { m.insert(i..(i + 100), i); i = i + 1; } } churn(); print(m.len()); var ks = m.keys(); churn(); print(ks.len()); print(ks);"),
    ("map.key.class", "fn mk() { class K {} var m = {K: 1}; return m; } var m = mk(); churn(); print(m.keys());"),
    ("instance.field", "#[constructor(new)] class O {} var o = O.new(); o.f = [1, [2]]; churn(); print(o.f);"),
    ("instance.class", "fn mk() { #[constructor(new)] class L { fn hi(self) { return \"hi\"; } } return L.new(); } var o = mk(); churn(); print(o.hi()); print(type(o));"),
    ("class.methods", "fn mk() { class L { #[static] fn s() { return \"static\"; } fn m(self) { return \"m\"; } } return L; } var c = mk(); churn(); print(c.s());"),
    ("class.metaclass", "fn mk() { #[constructor(new)] class L { #[static] fn make() { return Self.new(); } fn m(self) { return \"m\"; } } return L; } var c = mk(); churn(); print(c.make().m());"),
    ("class.superclass", "fn mk() { class A { fn a(self) { return \"a\"; } } #[derive(A), constructor(new)] class B {} return B; } var b = mk(); churn(); print(b.new().derives(Object)); print(b.new().a());"),
    ("class.superclass.deep", "fn mk() { class A {} #[derive(A)] class B {} #[derive(B), constructor(new)] class C {} return C; } var c = mk(); churn(); var o = c.new(); churn(); print(o.derives(Num)); print(o.derives(Object));"),
    ("closure.function", "fn mk() { fn inner(x) { return x + 1; } return inner; } var f = mk(); churn(); print(f(1));"),
    ("closure.upvalue.closed", "fn mk() { var x = [1, 2]; return || x; } var f = mk(); churn(); print(f());"),
    ("closure.upvalue.open", "fn run() { var x = [3, 4]; var f = || x; churn(); print(f()); x = [5]; churn(); print(f()); } run();"),
    ("closure.upvalue.chain", "fn run() { var a = [1]; var b = [2]; var c = [3]; var fa = || a; var fc = || c; var fb = || b; churn(); print(fa()); print(fb()); print(fc()); } run();"),
    ("closure.upvalue.return.through.finally", "fn mk() { try { var p1 = 1; var p2 = 2; var p3 = 3; var data = [1, [2], 3]; return || data; } finally { churn(); } } var f = mk(); churn(); print(f());"),
    ("closure.upvalue.return.through.finally.inline", "fn mk() { try { var a = 1; var b = 2; var c = 3; var d = 4; var e = 5; var data = [1, [2], 3]; return || data; } finally { var scratch = [9]; var more = [8]; } } var f = mk(); churn(); print(f());"),
    ("closure.upvalue.unwind.to.catch.inline", "var keep = nil; fn thrower() { var a = 1; var b = 2; var c = 3; var d = 4; var v = [\"kept\", [1]]; keep = || v; throw \"x\"; } try { thrower(); } catch e { var s1 = [1]; var s2 = [2]; } churn(); print(keep());"),
    ("closure.upvalue.unwind.to.catch", "var keep = nil; fn thrower() { var p1 = 1; var v = [\"kept\", [1]]; keep = || v; throw \"x\"; } try { thrower(); } catch e { churn(); } churn(); print(keep());"),
    ("closure.upvalue.break.out.of.loop", "var fs = []; var i = 0; while true { var a = [i]; fs.push(|| a); if i == 2 { break; } i = i + 1; } churn(); for f in fs { print(f()); }"),
    ("closure.module", "import \"gcmod\"; var f = gcmod.getter; churn(); print(f());"),
    ("bound.native", "var bm = [1, 2, 3].len; churn(); print(bm());"),
    ("bound.closure", "#[constructor(new)] class O { fn m(self) { return self.v; } } fn mk() { var o = O.new(); o.v = [7]; return o.m; } var bm = mk(); churn(); print(bm());"),
    ("bound.in.vec", "var v = []; var m = v.len; v.push(m); churn(); print(v[0]());"),
    ("bound.cycle", "var w = []; var v = []; var m = v.len; w.push(v); w.push(0); v.push(m); v.push(w); v.push(m); churn(); print(v.len()); print(w.len());"),
    ("function.constants", "fn mk() { fn deep() { fn deeper() { return \"const string\" + \"!\"; } return deeper; } return deep; } var d = mk(); churn(); print(d()());"),
    ("iter.vec", "var it = [[1], [2]].iter(); churn(); print(it.next()); churn(); print(it.next());"),
    ("iter.tuple", "var it = ([1], [2]).iter(); churn(); print(it.next()); churn(); print(it.next());"),
    ("iter.string", "var it = (\"a\" + \"é\").iter(); churn(); print(it.next()); print(it.next());"),
    ("iter.range.evicted", "var it = (100..103).iter(); { var i = 0; while i < 10 { var r = i..(i + 1); i = i + 1; } } churn(); print(it.next()); print(it.next());"),
    ("for.range.evicted.and.block.reused", "var n = 0; for x in 0..3 { var i = 0; while i < 10 { var q = (i + 50)..(i + 60); i = i + 1; } n = n + 1; if n > 6 { print(\"runaway\"); break; } print(x); } print(n);"),
    ("iter.range.evicted.and.block.reused", "var it = (100..103).iter(); { var i = 0; while i < 10 { var r = i..(i + 1); i = i + 1; } } var keep = []; { var i = 0; while i < 10 { keep.push((i + 500)..(i + 900)); i = i + 1; } } print(it.next()); print(it.next()); print(it.next()); print(it.next().derives(StopIter));"),
    ("range.evicted", "var r = 200..203; { var i = 0; while i < 10 { var q = i..(i + 1); i = i + 1; } } churn(); print(r); for x in r { print(x); }"),
    ("iter.adapters", "var it = [1, 2, 3].iter().map(|v| [v]).filter(|v| v[0] > 1); churn(); print(it.next()); churn(); print(it.collect());"),
    ("module.attributes", "import \"gcmod\"; churn(); print(gcmod.data); print(gcmod.getter());"),
    ("fiber.suspended.locals", "var fb = Fiber.new(|| { var loc = [1, [2]]; Fiber.yield(0); return loc; }); fb.call(); churn(); print(fb.call());"),
    ("fiber.suspended.frames", "fn helper(v) { var inner = [v]; Fiber.yield(1); return inner; } var fb = Fiber.new(|| { var r = helper([9]); return r; }); fb.call(); churn(); print(fb.call());"),
    ("fiber.caller", "var r = Fiber.new(|| { var mine = [1]; var inner = Fiber.new(|| { churn(); return [2]; }); var got = inner.call(); churn(); return [mine, got]; }).call(); print(r);"),
    ("fiber.return_value", "fn f() { try { return [1, [2]]; } finally { churn(); } } print(f());"),
    ("fiber.finished.captured.local", "fn spawn(n) { var fb = Fiber.new(|| { var count = [n]; return || { count.push(count.len()); return count; }; }); return fb.call(); } "
                                      "var c1 = spawn(1); var c2 = spawn(2); churn(); print(c1()); churn(); print(c2()); print(c1());"),
    ("fiber.finished.captured.after.yield", "fn spawn() { var fb = Fiber.new(|| { var held = [\"h\"]; var get = || held; Fiber.yield(get); held = [\"h2\"]; return 0; }); var g = fb.call(); fb.call(); return g; } "
                                            "var g = spawn(); churn(); print(g()); var pads = [[1], [2], [3]]; churn(); print(g());"),
    ("fiber.failed.captured.local", "var keep = nil; fn spawn() { var fb = Fiber.new(|| { var v = [\"kept\"]; keep = || v; return v; }); fb.call(); } spawn(); churn(); print(keep()); churn(); print(keep());"),
    # temporaries: the only reference to an object is an operand of the operation that allocates
    ("temp.vec.slice", "fn mk() { return [[1], [2], [3], [4]]; } print(mk()[0..3]); print(mk()[1..2][0]); print(mk()[-2..4]);"),
    ("temp.tuple.slice", "fn mk() { return ([1], [2], [3]); } print(mk()[0..2]); print(mk()[1..3][1]);"),
    ("temp.string.slice", "fn mk() { return \"ab\" + \"cdé\"; } print(mk()[1..3]); print(mk()[3]); print((mk() + mk())[2..6]);"),
    ("temp.vec.index.then.use", "fn mk() { return [[1, [2]], [3]]; } var e = mk()[0]; churn(); print(e); print(mk()[0][1]);"),
    ("temp.iter", "fn mk() { return [[1], [2]]; } var it = mk().iter(); churn(); print(it.next()); print(it.next()); for x in mk() { churn(); print(x); }"),
    ("temp.adapters", "fn mk() { return [[1], [2], [3]]; } print(mk().iter().map(|v| [v, v]).filter(|v| v[0][0] > 1).collect()); print(mk().iter().reduce(|a, v| [a, v], [0]));"),
    ("temp.literals", "fn mk(n) { return [n, [n]]; } print([mk(1), mk(2), mk(3)]); print((mk(1), mk(2), mk(3))); print({\"a\": mk(1), \"b\": mk(2)}.get(\"a\")); print({(1, 2): mk(3)}.values());"),
    ("temp.args", "fn mk(n) { return [n, [n]]; } fn three(a, b, c) { churn(); return [a, b, c]; } print(three(mk(1), mk(2), mk(3))); var v = []; v.push(mk(4)); v.push(mk(5)); print(v);"),
    ("temp.strings", "fn mk(n) { return \"s\" + String.from(n); } print(mk(1) + mk(2) + mk(3)); print(\"${mk(1)}-${mk(2)}-${[mk(3)]}\"); print(String.from([mk(1), [mk(2)]])); print(mk(7).replace(\"s\", mk(8))); print((mk(1) + \",\" + mk(2)).split(\",\"));"),
    ("temp.map.natives", "fn mk() { return {\"k\": [1], (1, 2): [2]}; } print(mk().get(\"k\")); print(mk().values().len()); print(mk().items().len()); var m = mk(); m.insert([1, 2].len(), mk()); print(m.len());"),
    ("temp.instances", "#[constructor(new)] class B { fn me(self) { return self; } fn mk(self) { return [self.v]; } } fn mk(n) { var b = B.new(); b.v = [n]; return b; } print(mk(1).me().v); print(mk(2).mk()); var bm = mk(3).mk; churn(); print(bm());"),
    ("temp.closures", "fn mk(n) { var c = [n]; return || c; } print(mk(1)()); print([mk(2), mk(3)][1]()); var fb = Fiber.new(mk(4)); churn(); print(fb.call());"),
    ("temp.ranges", "fn mk() { return [10, 20, 30, 40]; } for x in mk()[1..3] { churn(); print(x); } var r = (1..3); print(mk()[r]); print((0..2).iter().map(|i| [i]).collect());"),
    ("temp.throw", "fn mk(n) { return [n, [n]]; } try { throw mk(1); } catch e { churn(); print(e); } fn t() { throw [mk(2), mk(3)]; } try { t(); } catch e { churn(); print(e); }"),
    # the callee itself is a temporary: the only reference to the bound-method object is the stack slot the call overwrites (F48)
    ("temp.bound.native.callee", "print(((\"ab\" + \"c\").iter)().next()); var it = ([[1], [2]].iter)(); churn(); print(it.next()); print(it.next()); print(([1, 2, 3].len)()); print(((\"k\" + \"v\").len)());"),
    ("temp.bound.closure.callee", "#[constructor(new)] class B { fn m(self, a) { return [a, [a]]; } } try { (B.new().m)(); } catch e { print(type(e)); } print((B.new().m)(1)); var r = (B.new().m)([2]); churn(); print(r);"),
    ("temp.instance.field.callee", "#[constructor(new)] class H {} fn mk(f) { var h = H.new(); h.f = f; return h; } print(mk(String.from).f(12345)); var it = mk((\"xy\" + \"z\").iter).f(); churn(); print(it.next()); print(mk(|| [1, [2]]).f()); print(mk([5, 6].len).f());"),
    # many fibers run to their end, each handing a fresh object to its caller: whatever a fiber switch does, the result must arrive
    ("fiber.results.many", "var out = []; for i in 0..20 { var f = Fiber.new(|| { return [i, [i, i]]; }); out.push(f.call()); } churn(); print(out); "
                            "var sum = 0; for i in 0..20 { var g = Fiber.new(|a| { var inner = Fiber.new(|| (a, [a])); return [inner.call(), a]; }); var r = g.call(i); sum = sum + r[0][1][0] + r[1]; } print(sum);"),
    ("fiber.yields.many", "var f = Fiber.new(|| { var i = 0; while i < 20 { Fiber.yield([i, [i]]); i = i + 1; } return [\"end\"]; }); var got = []; for k in 0..21 { got.push(f.call()); } churn(); print(got);"),
    ("fiber.in.field", "#[constructor(new)] class H {} var h = H.new(); h.fb = Fiber.new(|| { var x = [4]; Fiber.yield(x); return x; }); print(h.fb.call()); churn(); print(h.fb.call());"),
    ("exception.in.flight", "try { try { throw [1, [2]]; } finally { churn(); } } catch e { print(e); }"),
    ("exception.instance", "try { var z = nil + 1; } catch e { churn(); print(e.context); print(type(e)); }"),
    ("class.definition.in.progress", "class Big { fn a(self) { return [1]; } fn b(self) { return (2,); } #[static] fn c() { return {3: 4}; } fn d(self) { return \"d\"; } } print(Big.c());"),
    ("native.temporaries.items", "var m = {1: [1], 2: [2], 3: [3]}; var it = m.items(); churn(); print(it.len());"),
    ("native.temporaries.split", "var parts = (\"a,b\" + \",c\").split(\",\"); churn(); print(parts);"),
    ("native.temporaries.collect", "print([1, 2, 3].iter().map(|v| [v, [v]]).collect());"),
    ("interp.temporaries", "var a = [1]; print(\"x${a}y${[2, [3]]}z${(4,)}\");"),
    ("slice.temporaries", "var v = [[1], [2], [3]]; var s = v[0..2]; churn(); print(s); var t = ([1], [2])[0..1]; churn(); print(t);"),
    ("hash_map.literal.temporaries", "print({1: [1], 2: {3: [4]}}.get(2).get(3));"),
    ("error.value.from.native", "try { [1].pop(); [].pop(); } catch e { churn(); print(e.context); }"),
    ("import.in.progress", "import \"gcmod2\"; print(gcmod2.made);"),
    # modules: what a module body handed out before it failed stays usable (its globals live in the module object); a built-in
    # rebound in one module is still the built-in in a module imported later
    ("module.failed.body.closure", "import \"gcreg\"; try { import \"gcfail\"; } catch err { print(err); } churn(); import \"gcother\"; churn(); print(gcreg.hooks[0]()); print(gcreg.hooks[1].get());"),
    ("module.failed.body.closure.retry", "import \"gcreg\"; try { import \"gcfail\"; } catch err { print(err); } churn(); try { import \"gcfail\"; } catch err { print(type(err)); } churn(); print(gcreg.hooks[0]());"),
    ("module.failed.body.closure.retry.twice", "import \"gcreg\"; try { import \"gcfail\"; } catch err { print(err); } var kept = gcreg.hooks[0]; try { import \"gcfail\"; } catch err { print(type(err)); } "
     "var pad = [1]; print(kept()); try { import \"gcfail\"; } catch err { print(type(err)); } churn(); print(kept()); print(gcreg.hooks[1].get()); print(gcreg.hooks.len());"),
    ("module.builtin.rebound.then.import", "var type = \"circle\"; var clock = [1]; var print2 = print; churn(); import \"gcshapes\"; churn(); print(gcshapes.describe(1)); print(gcshapes.describe(\"one\")); print(type);"),
    ("module.builtin.rebound.in.module", "import \"gcrebind\"; churn(); import \"gcshapes\"; churn(); print(gcshapes.describe(nil)); print(gcrebind.type);"),
    ("module.imported.only.by.failed.module", "import \"gcreg\"; try { import \"gcfail2\"; } catch err { print(err); } churn(); print(gcreg.hooks[0]());"),
]

# objects made on the fly, used through every access route and dropped, in an ASYMMETRIC rhythm (shapes alternate with period 3, garbage of
# varying size in between) so that the block of a reclaimed object is re-used by a different one: anything the interpreter remembers about
# an object by its address (a look-up cache, a memo table) then answers for the wrong object.  Each object must answer with its own tag.
_CHURN_SHAPES = (
    "fn make_plain(tag) { #[constructor(new)] class H { fn who(self) { return tag; } #[static] fn swho() { return tag; } } return H; } "
    "fn make_rich(tag) { #[constructor(new)] class H { fn describe(self) { return \"h${tag}\"; } fn who(self) { return tag; } fn iter(self) { return [tag].iter(); } "
    "#[static] fn swho() { return tag; } } return H; } "
    "fn make_sub(tag) { var B = make_plain(0 - tag); #[derive(B), constructor(new)] class S { fn who(self) { return tag; } fn up(self) { return super.who(); } } return S; } "
    "fn pad(n) { var g = []; var i = 0; while i < n { g.push([i]); i = i + 1; } return g; } ")
_CHURN_LOOP = ("var bad = 0; var r = 0; while r < %d { var C = nil; if r %% 3 == 0 { C = make_rich(r); } else { if r %% 7 == 0 { C = make_sub(r); } else { C = make_plain(r); } } "
               "var h = C.new(); %s pad(r %% 5); r = r + 1; } print(bad);")
CHURN_PROBES = [
    ("churn.class.invoke", _CHURN_SHAPES + _CHURN_LOOP % (240, "if h.who() != r { bad = bad + 1; }")),
    ("churn.class.bound", _CHURN_SHAPES + _CHURN_LOOP % (240, "var m = h.who; if m() != r { bad = bad + 1; }")),
    ("churn.class.static", _CHURN_SHAPES + _CHURN_LOOP % (240, "if r % 3 == 0 || r % 7 != 0 { if C.swho() != r { bad = bad + 1; } if h.swho() != r { bad = bad + 1; } } else { if h.swho() != 0 - r { bad = bad + 1; } }")),
    ("churn.class.super", _CHURN_SHAPES + _CHURN_LOOP % (240, "if r % 7 == 0 && r % 3 != 0 { if h.up() != 0 - r { bad = bad + 1; } } if h.who() != r { bad = bad + 1; }")),
    ("churn.class.protocol", _CHURN_SHAPES + _CHURN_LOOP % (240, "if r % 3 == 0 { for x in h { if x != r { bad = bad + 1; } } } if type(h) != C { bad = bad + 1; } if !h.derives(C) { bad = bad + 1; }")),
    ("churn.class.field.over.method", _CHURN_SHAPES + _CHURN_LOOP % (240, "if r % 2 == 0 { h.who = || r + 1000; if h.who() != r + 1000 { bad = bad + 1; } } else { if h.who() != r { bad = bad + 1; } }")),
    ("churn.closures", "fn pad(n) { var g = []; var i = 0; while i < n { g.push([i]); i = i + 1; } return g; } fn mk(tag) { if tag % 3 == 0 { return || tag; } return |x| tag + x; } "
                       "var bad = 0; var r = 0; while r < 300 { var f = mk(r); if r % 3 == 0 { if f() != r { bad = bad + 1; } } else { if f(1) != r + 1 { bad = bad + 1; } } pad(r % 4); r = r + 1; } print(bad);"),
    ("churn.fibers", "fn pad(n) { var g = []; var i = 0; while i < n { g.push([i]); i = i + 1; } return g; } var bad = 0; var r = 0; while r < 200 { var fb = nil; "
                     "if r % 3 == 0 { fb = Fiber.new(|| { Fiber.yield(r); return r + 1; }); if fb.call() != r { bad = bad + 1; } if fb.call() != r + 1 { bad = bad + 1; } } "
                     "else { fb = Fiber.new(|a| a + r); if fb.call(1) != r + 1 { bad = bad + 1; } } pad(r % 4); r = r + 1; } print(bad);"),
    ("churn.maps.and.iterators", "fn pad(n) { var g = []; var i = 0; while i < n { g.push([i]); i = i + 1; } return g; } var bad = 0; var r = 0; while r < 300 { var m = {r: [r], (r, 1): r}; "
                                 "if m.get(r)[0] != r { bad = bad + 1; } if m.get((r, 1)) != r { bad = bad + 1; } var it = [r, r + 1].iter().map(|v| v * 2); if it.next() != r * 2 { bad = bad + 1; } "
                                 "var rg = r..(r + 2); var n = 0; for x in rg { n = n + x; } if n != r + r + 1 { bad = bad + 1; } pad(r % 6); r = r + 1; } print(bad);"),
]

# volume under the PACED schedule (collections only when the byte threshold is crossed - the schedule optimised builds really run): many
# records of every kind are built and kept, through every kind of holder (a list, and a mutable container reachable only through an OLD
# immutable or old mutable object), so that allocations cross the threshold many times with the newest object in every state of
# construction; then every record is verified.  A collection that runs at a point where collect-at-every-allocation never puts one (after
# linking and before rooting, every n-th cycle only, ...) damages a few records out of thousands.
def paced_volume_programs(n=6000):
    kinds = {
        "vec": ("[i, i + 1]", "r[0] == i && r[1] == i + 1"),
        "tuple": ("(i, [i])", "r[0] == i && r[1][0] == i"),
        "map": ("{\"k\": i, i: [i]}", "r.get(\"k\") == i && r.get(i)[0] == i"),
        "instance": ("mk(i)", "r.v[0] == i && r.get() == i"),
        "closure": ("clo(i)", "r() == i"),
        "string": ("\"s${i}\" + \"x\"", "r == \"s${i}x\""),
        "bound": ("mk(i).get", "r() == i"),
        "nested": ("[[i], ([i],)]", "r[0][0] == i && r[1][0][0] == i"),
    }
    holders = {
        "list": ("var keep = [];", "keep.push(e);", "keep[i]"),
        "old-tuple": ("var keep = (\"journal\", []);", "keep[1].push(e);", "keep[1][i]"),
        "old-instance-field": ("var keep = mk(0); keep.v = [];", "keep.v.push(e);", "keep.v[i]"),
        "old-closure": ("var store = []; var adder = |x| { store.push(x); return store; }; var keep = adder;", "keep(e);", "store[i]"),
        "old-map-value": ("var keep = {\"all\": []};", "keep.get(\"all\").push(e);", "keep.get(\"all\")[i]"),
    }
    defs = ("#[constructor(new)] class Rec { fn get(self) { return self.v[0]; } } fn mk(i) { var o = Rec.new(); o.v = [i]; return o; } "
            "fn clo(i) { var c = [i]; return || c[0]; } ")
    out = []
    for kn, (make, check) in kinds.items():
        for hn, (init, put, at) in holders.items():
            src = (defs + init + " var i = 0; while i < %d { var e = %s; %s i = i + 1; } var bad = 0; i = 0; while i < %d { var r = %s; if !(%s) { bad = bad + 1; } i = i + 1; } print(bad);"
                   % (n, make, put, n, at, check))
            out.append(("paced.%s.%s" % (kn, hn), src))
    return out


# every built-in the interpreter itself keeps using - the error classes it raises, StopIter and the iterator classes of core.yl, the classes
# of built-in values - re-bound by the program (so that only the interpreter still refers to the object), a collection, MANY new classes
# (whatever was freed gets reused), and then operations that make the interpreter use the object again
def _decoys():
    return "fn mkc(k) { class Decoy { fn who(self) { return k; } } return Decoy; } var decoys = []; { var i = 0; while i < 24 { decoys.push(mkc(i)); i = i + 1; } } "


def _describe():
    return ("fn describe(e) { var t = type(e); var chain = String.from(t); var c = 0; return chain + \" \" + String.from(e.derives(t)) + \" \" + String.from(e.context); } ")


REBOUND = [
    ("builtin.rebound.error.classes",
     _describe() + "Error = nil; RuntimeError = nil; AttributeError = nil; IndexError = nil; ImportError = nil; NameError = nil; TypeError = nil; ValueError = nil; churn(); " + _decoys() +
     "churn(); try { undefined_name; } catch e { print(describe(e)); } try { nil + 1; } catch e { print(describe(e)); } try { [1][5]; } catch e { print(describe(e)); } "
     "try { [1][0.5]; } catch e { print(describe(e)); } try { nil.x; } catch e { print(describe(e)); } try { import \"no_such_module_here\"; } catch e { print(describe(e)); } "
     "try { [].pop(); } catch e { print(describe(e)); } churn(); try { {}.get([1]); } catch e { print(describe(e)); } print(decoys[3].new == nil);"),
    ("builtin.rebound.iteration.classes",
     "StopIter = nil; Iter = nil; MapIter = nil; FilterIter = nil; churn(); " + _decoys() +
     "churn(); var out = []; for x in [1, 2, 3] { out.push(x); } for c in \"ab\" { out.push(c); } for x in 0..2 { out.push(x); } for x in (7, 8) { out.push(x); } print(out); "
     "print([1, 2, 3].iter().map(|x| x * 2).filter(|x| x > 2).collect()); print([1, 2, 3].iter().reduce(|a, b| a + b, 0)); var it = [1].iter(); it.next(); churn(); print(type(it.next())); print(type([1].iter().map(|x| x)));"),
    ("builtin.rebound.value.classes",
     "String = nil; Vec = nil; Tuple = nil; HashMap = nil; Range = nil; Num = nil; Bool = nil; Nil = nil; Fiber = nil; Func = nil; BuiltIn = nil; Method = nil; BuiltInMethod = nil; Object = nil; Type = nil; churn(); " + _decoys() +
     "churn(); print(\"abc\".len()); print([1, 2].len()); print((1, 2).len()); print({1: 2}.len()); print((0..3).iter().next()); print(type(1)); print(type(true)); print(type(nil)); "
     "print(type(\"s\")); print(type([1])); print(type((1,))); print(type({})); print(type(0..1)); print(type(|| 1)); print(type(print)); print(type([1].len)); churn(); print(type(type(1))); print(1.derives(type(1)));"),
    ("builtin.rebound.in.a.class.declaration",
     _describe() + "class NameError {} class StopIter {} class TypeError {} churn(); " + _decoys() +
     "churn(); try { undefined_name; } catch e { print(describe(e)); } try { nil + 1; } catch e { print(describe(e)); } var out = []; for x in [1, 2] { out.push(x); } print(out);"),
]

PROBE_MODULES = {
    "gcreg": "var hooks = [];\nvar attempts = 0;\n",
    # (every load attempt gives the module's global a different content: memory of a dropped module object that a later one re-uses
    # then shows in what the functions of the first attempt read)
    "gcfail": "import \"gcreg\";\ngcreg.attempts = gcreg.attempts + 1;\nvar greeting = \"hello from plugin, attempt \" + String.from(gcreg.attempts);\nfn hook() { return greeting; }\n#[constructor(new)] class Box { fn get(self) { return greeting + \"!\"; } }\n"
              "gcreg.hooks.push(hook);\ngcreg.hooks.push(Box.new());\nthrow \"plugin failed\";\n",
    "gcother": "var greeting = \"I am the OTHER module\";\nvar pad = [[1], [2], [3]];\n",
    "gcshapes": "fn describe(value) { return type(value); }\n",
    "gcrebind": "var type = \"rebound in gcrebind\";\n",
    "gcfail2": "import \"gcinner\";\nimport \"gcreg\";\ngcreg.hooks.push(gcinner.get);\nthrow \"outer failed\";\n",
    "gcinner": "var secret = [\"inner\", [1]];\nfn get() { return secret; }\n",
    "gcmod": "var data = [1, [2]];\nvar hidden = [\"h\"];\nfn getter() { return hidden; }\n",
    "gcmod2": "fn mk() { var xs = []; var i = 0; while i < 5 { xs.push([i]); i = i + 1; } return xs; }\nvar made = mk();\n",
}

# Open in the current tree (see known_findings.json): a closure over a local of a suspended fiber that is then dropped.
PROBE_F3 = ("upvalue.open.into.dropped.fiber",
            "var g = nil; { var fb = Fiber.new(|| { var loc = [1, 2]; g = || loc; Fiber.yield(0); }); fb.call(); } churn(); print(g());")


# containers that SHRANK, listed before and after collections: a map that lost most of its entries (remove, clear) lists what is left in
# one order whether or not a collection ran in between - keys, values, items, Display - for several sizes and key kinds; likewise the
# fields of an instance that gained many and the elements of a vector that was popped down
def _shrink_probes():
    out = []
    for kind, key in (("int", "i * 8 + 3"), ("str", '"k" + String.from(i)'), ("tuple", "(i, i % 3)")):
        for put, took in ((40, 35), (100, 99), (17, 9), (600, 590)):
            src = ("var m = {}; var i = 0; while i < %d { m.insert(%s, [i]); i = i + 1; } i = 0; while i < %d { m.remove(%s); i = i + 1; } "
                   "print(m.keys()); churn(); print(m.keys()); print(m.values()); print(m.items()); print(m); m.insert(\"late\", 1); churn(); print(m); "
                   "m.clear(); churn(); m.insert(1, 1); m.insert(2, 2); m.insert(\"three\", 3); churn(); print(m.keys());" % (put, key, took, key))
            out.append(("shrunk.map.%s.%d-%d" % (kind, put, took), src))
    out.append(("shrunk.vec", "var v = []; var i = 0; while i < 300 { v.push([i]); i = i + 1; } while v.len() > 5 { v.pop(); } churn(); print(v); v.push(1); churn(); print(v);"))
    return out


SHRINK_PROBES = _shrink_probes()
# chains DEEPER than any bound a marker might put on its recursion and far shallower than the native stack (F7 is at ~10^5): 1500 links of
# vectors, of tuples, of instances, of closures over their predecessor; walked to the bottom after collections
SHRINK_PROBES += [
    ("deep.chain.vec", "var head = [\"bottom\"]; var i = 0; while i < 1500 { head = [i, head]; i = i + 1; } churn(); var p = head; var n = 0; while p.len() == 2 { p = p[1]; n = n + 1; } churn(); print(n); print(p);"),
    ("deep.chain.tuple", "var head = (\"bottom\",); var i = 0; while i < 1500 { head = (head, i); i = i + 1; } churn(); var p = head; var n = 0; while p.len() == 2 { p = p[0]; n = n + 1; } churn(); print(n); print(p);"),
    ("deep.chain.instance", "#[constructor(new)] class Node {} var head = Node.new(); head.v = [\"bottom\"]; head.next = nil; var i = 0; while i < 1500 { var nd = Node.new(); nd.v = [i]; nd.next = head; head = nd; i = i + 1; } "
                            "churn(); var p = head; var n = 0; while p.next != nil { p = p.next; n = n + 1; } churn(); print(n); print(p.v);"),
    ("deep.chain.closure", "var f = || [\"bottom\"]; var i = 0; while i < 1500 { var g = f; var k = [i]; f = || [k, g]; i = i + 1; } churn(); var p = f(); var n = 0; while p.len() == 2 { p = p[1](); n = n + 1; } churn(); print(n); print(p);"),
]


def all_probes():
    return [(n, CHURN + src, PROBE_MODULES) for n, src in PROBES + REBOUND + CHURN_PROBES + SHRINK_PROBES]
