"""Regenerates /verif/MANIFEST.json from the table below (run after adding a check)."""
import json, os, subprocess, sys
VERIF = os.path.dirname(os.path.dirname(os.path.abspath(__file__)))
props = [json.loads(l)["id"] for l in open(os.path.join(VERIF, "properties.jsonl"))]

TRUST = ("Trusted: Lean 4.33 kernel (axioms propext, Classical.choice, Quot.sound only; no sorry/native_decide); the hand-written model "
         "corresponds to the Rust code only as far as the differential runs show; rustc/std; the harness and hooks (cargo feature verif_hooks).")

CHECKS = {
 "C11": dict(
  text="Lean 4 theorem intern_id_iff_bytes: for an ARBITRARY hash function and every finite sequence of string creations the model of the intern table (open addressing, linear probing, growth by rehash) returns equal identities iff the byte strings are equal; invariant and termination of the probe loop proved for every reachable table. The model is tied to vm.rs by op-sequence correspondence on the real table with adversarially chosen hashes, plus identity runs through the whole interpreter and in-language route programs.",
  note=TRUST + " The hook StringStore::intern repeats the get-else-insert glue of new_gc_obj_string.",
  technique="Lean 4 proof (invariant by induction over operations, arbitrary hash function) + op-sequence correspondence with the real table",
  ref="DESIGN.md section 5 C11"),
 "C12": dict(
  text="Lean 4 theorems: the language's value hash (with -0 normalised) is coherent with == on all hashable keys (coherent_fixed; the unrepaired hash is proved incoherent at 0/-0); under a coherent hash a map that only inspects equal-hash entries (the std::HashMap contract) behaves exactly like an association list keyed by == on every operation sequence (bucketed_refines_assoc); that list is a map by == (assoc_is_map_by_eq: get/insert/remove/len laws, enumerations list each entry once); unhashable keys are rejected and leave the map unchanged; NaN keys stated. Tie: operation sequences over pools of equal-but-differently-built and hash-colliding keys run on the real HashMap and on the model, plus an independent abstract map keyed by ==.",
  note=TRUST + " std::collections::HashMap is assumed to meet its contract (only equal-hash candidates are compared with ==). Tuple identity shortcut (a NaN-containing tuple compared with itself) is outside the model.",
  technique="Lean 4 proof (hash/== coherence by induction on keys; refinement bucketed map -> association list) + op-sequence correspondence with an independent == oracle",
  ref="DESIGN.md section 5 C12"),
 "C14": dict(
  text="Lean 4 theorems on the module-registry model: body_at_most_once (every run starts each module body at most once), starts_le_paths/run_terminates (termination: body starts <= distinct paths, fuel suffices), same_object(_shared_writes), cycle_reported(_on_stack) (importing a module that is still loading - self-import, 2-cycles, longer cycles - is an ImportError and starts no body, state untouched), errors_are_values (missing/uncompilable: registry unchanged; failing body: delivered to the importing statement), globals_private(_no_leak), builtins_everywhere; quirks stated (failed_body_poisons_forever). Tie: import graphs over <=4 modules (random + enumerated over 3 modules) with top-level/aliased/in-function/repeated imports and missing, uncompilable and failing members against a reference of the import rules written independently; real import events replayed through the Lean registry model; 2 GC modes.",
  note=TRUST + " Functions/fibers inside module bodies are outside the registry model; a stack overflow raised while entering a module body registers the module without running it (finding of the model work, noted).",
  technique="Lean 4 proof (registry invariant by induction over fuelled execution) + enumerated import graphs with an independent reference + replay of real import events",
  ref="DESIGN.md section 5 C14"),
 "C15": dict(
  text="Lean 4 theorems on the reuse model (the transient fields of Vm across runs): residue_fresh(_after_any_run) - whatever a previous run left behind (exception in flight, stale fiber stack/frames/handlers/pending return, class definition in progress) the next run's observable start state depends only on the persistent definitions; reset_eq_new; the unrepaired prologue/reset are shown to leak (F18, F29 witnesses); C09's execute_dual. Tie: the model's prologue/reset are re-read from the current source of Vm::execute/Vm::reset on every run; histories of snippets on one interpreter in dev and release builds: no panic, a failing snippet replaced by the definitions it completed must not change what later snippets print (13 kinds of failure), reset-then-continue equals new-then-continue (generated + directed), differential against the Lean reference interpreter.",
  note=TRUST + " The reuse model is a small transcription of execute()/reset(); 'piecewise equals whole' for arbitrary programs rests on the metamorphic histories and the reference interpreter (partial). A fiber suspended in the caller chain of an aborted run stays 'already called' (documented quirk).",
  technique="Lean 4 proof on the reuse state machine + source-anchored prologue check + metamorphic snippet histories on one interpreter (dev and release builds)",
  ref="DESIGN.md section 5 C15"),
 "C18": dict(
  text="Lean 4 theorems on the iterator models: range_iter_spec (for all bounds: exactly begin, begin+-1, ..., then stop forever; empty iff begin = end), tuple/vec/string_iter_spec, vec_iter_index_based (under arbitrary interleaved push/pop/set the k-th next returns the element at index k as it is at that call, or stop) and vec_mutation_never_panics, chain_spec / map_filter_collect_reduce_spec (the adapters of core.yl equal List.map/filter/foldl on the yielded list; sentinel_cuts states the early-sentinel behaviour), for_loop_spec, break_leaves_no_state, nested_loops_independent, loops_independent, iter_allocates_fresh. Tie: generated range / vector-with-mutation / adapter-chain requests answered by the model and by the implementation; 13 constructed-oracle scenarios (every iterable kind, break/continue/return at every position, shared iterators, user iterators, mutation during iteration) in 2 GC modes; differential against the Lean reference interpreter.",
  note=TRUST + " The compiled shape of the for loop is tied by scenarios and the reference interpreter only. An instance of a user subclass of StopIter does not end a for loop but passes through map/filter unchanged (finding of the model work, documented).",
  technique="Lean 4 proof (iterator step functions, adapters as list functions, loop semantics) + request correspondence + constructed-oracle scenarios",
  ref="DESIGN.md section 5 C18"),
 "C16": dict(
  text="Lean 4 theorems on the pacing model (overshoot_le_one_alloc, thr_is_twice_survivors, no_unbounded_growth for every allocation history), on root counting (roots_exact) and on the collector model (collect_complete: nothing unreachable survives; sweep_bytes: exact byte accounting). Tie: every allocation event of real paced runs is replayed through the model and checked against the property's bound; leak detection by census metamorphics after forced collections.",
  note=TRUST + " usize overflow is not modelled; interned strings, chunks and functions are excluded by design.",
  technique="Lean 4 proof (invariants over allocation histories; tri-colour completeness) + replay of real allocator event streams + census metamorphics",
  ref="DESIGN.md section 5 C16"),
 "C02": dict(
  text="Lean 4 theorems that exclude the panic sites of the data-level code: no_fault (no indexing/slicing/string native can reach a Rust panic, for all arguments), unhashable_rejected_unchanged + stored_keys_hashable (the panicking hash arm is unreachable from the map), find_fuel_enough (the intern probe loop terminates), collect_terminates, verify_sound (in verified bytecode every operand access is in range, so the operand `expect`/index sites are unreachable), guard_free_equiv; and the panic-site inventory regenerated from the source: every unwrap/expect/panic!/index/unsafe site of the run-time files is paired with a lemma, the verifier, a ledger entry or 'dynamic only'. Tie: every method name x 57 receivers/arguments of every value kind x all argument tuples of arity 0-2, every operator x all operand pairs, 18 further construct sweeps, resource-limit and ill-typed generated programs, in the optimised and in the fully checked build: each run must end Ok or with a catchable error, never panic/abort/hang/touch freed memory.",
  note=TRUST + " VM-wide progress (every opcode on every operand kind) is NOT proved for vm.rs; it rests on the inventory plus the exhaustive sweeps (partial). Memory safety of unsafe blocks is outside any model. Known findings F4-F7 (and F13/F26 panics under C08) are listed with replays.",
  technique="Lean 4 proof (no-fault theorems of the data-level models, bytecode verifier soundness, decide over the regenerated panic-site inventory) + exhaustive native/operator sweeps in checked and optimised builds",
  ref="DESIGN.md section 5 C02"),
 "C04": dict(
  text="Lean 4 theorem verify_sound: if the Lean bytecode verifier (abstract interpretation over operand-stack height and handler stack) accepts a function, then on EVERY execution of the frame machine the pc is an instruction boundary inside the code, the height and handler stack at each instruction are the statically assigned ones and every local, constant, upvalue and pop is in range; proved from the post-fixpoint check alone (the worklist is untrusted); jump-limit lemmas. The verifier runs on the REAL compiler's output for every function of every program (translation validation); on real runs every executed instruction's height and handler depth is compared with the annotation; byte-exact limit sweeps.",
  note=TRUST + " The frame machine abstracts vm.rs per frame (calls atomic, values nondeterministic, the exception-in-flight flag not modelled); its opcode effects are tied to vm.rs by the per-instruction comparison only. Known findings F13, F23, F27 are programs the verifier rightly rejects.",
  technique="Lean 4 proof (soundness of abstract interpretation from a checked post-fixpoint) + translation validation of every compiled function + per-instruction trace comparison",
  ref="DESIGN.md section 5 C04"),
 "C06": dict(
  text="Lean 4 theorems on the captured-variable mechanism (open-cell list of a fiber): open_sorted, capture_shares, close_exact and the refinement refines_cells(_run): every disciplined operation sequence behaves like the abstract store 'one variable per slot instance' in which cells read/write the variable they were created for, before and after the slot is closed and popped. Tie: every capture/close event of real runs replayed through the model; scoping scenarios with constructed expected output in six syntactic positions; program differential against the Lean reference interpreter.",
  note=TRUST + " The discipline hypothesis (the compiler never truncates below an open cell without closing it) is checked per program (C04 verifier, scenario runs), not proved; name resolution of the real compiler is tied to the reference interpreter by differential runs only.",
  technique="Lean 4 proof (forward simulation to an abstract variable store) + replay of real capture/close events + constructed-oracle scenarios",
  ref="DESIGN.md section 5 C06"),
 "C07": dict(
  text="Lean 4 theorems on the class-table model: copy_down_is_nearest (after any sequence of class definitions a class's table maps a name to the method defined nearest in its ancestry as recorded at definition time), rebinding_irrelevant, fields_first, invoke_eq_get_call (for EVERY receiver, name and argument count the fast path and get-then-call select the same body with the same receiver and arity check, or the same error), bound_keeps_receiver, super_static, static_self, ctor_returns_instance, errors_classified; statements that are false of the code (static methods are not inherited through the class value; copy-down for metaclass objects) are proved false with witnesses. Tie: random hierarchies - every lookup through instances and through the class value answered by the model and by the implementation; 12 constructed-oracle scenarios (2 GC modes); generated class programs (GC-mode metamorphic, reference interpreter).",
  note=TRUST + " How the compiler captures super/Self and compiles constructors is tied by scenarios and the reference interpreter only. Deriving from built-in classes is known finding F4.",
  technique="Lean 4 proof (class-definition protocol as operations on method tables; lookup-path equivalence) + hierarchy-query correspondence + constructed-oracle scenarios",
  ref="DESIGN.md section 5 C07"),
 "C08": dict(
  text="Lean 4 theorems on the exception-handler mechanism: unwind_contract (unwinding with handlers h::r leaves r, exactly h's frames, the first h.initStack slots unchanged plus the exception, pc at h's catch address; with no handler the run ends naming the value), unwind_selects_innermost, handler_lifo, balanced_region for every nesting depth, finally_flag, handlers_per_fiber; with C04's verify_sound every verified function leaves the handler stack as it found it on every path. Tie: every handler event of real runs replayed through the model; 20 constructed-oracle scenarios covering each clause of the property (2 GC modes); program differential against the Lean reference interpreter.",
  note=TRUST + " Source-level 'finally exactly once on every exit' is proved on the models only; six open compiler/VM findings (F13, F14, F23, F25, F26, F27) are listed with replays and excluded from generated programs.",
  technique="Lean 4 proof (handler-stack invariants, well-bracketed regions) + replay of real handler events + constructed-oracle scenarios",
  ref="DESIGN.md section 5 C08"),
 "C13": dict(
  text="Lean 4 theorems on the byte-exact model of indexing, slicing and every string native: index_spec / range_spec for ALL lengths and ALL bit patterns (negative from the end, fractional/NaN -> ValueError, inf and 2^63 saturate -> IndexError), boundary_iff_prefix, slice_valid and all_ops_valid (every produced string is valid UTF-8), no_fault (no operation can panic or slice off a boundary), find_spec/find_least, iter_concat, char_count_spec, validate_iff_valid. Tie: exhaustive small-scope correspondence (all strings of <=2 / <=3 characters over a 1-2-3-4-byte alphabet x all boundary and special indices/ranges x every native x argument pool) on the real implementation, with an independent Python byte reference and UTF-8 oracle.",
  note=TRUST + " Rust std str methods (find/replace/split/is_char_boundary) are assumed to meet their documentation; number<->text conversion inside to_num/String.from is C19's.",
  technique="Lean 4 proof on a List UInt8 model (for all lengths and doubles) + exhaustive small-scope correspondence",
  ref="DESIGN.md section 5 C13"),
 "C09": dict(
  text="Lean 4 theorems on the fiber mechanism: chain_ok (in every reachable state the caller links from the active fiber form a finite duplicate-free chain ending at the root; a fiber has a caller iff it is on the chain below the top), reject_untouched (calling a finished fiber, a fiber on the chain or the running fiber returns the error and leaves the whole state unchanged), handover_first_call / handover_resume_repaired / handover_yield / handover_finish, isolation_load/unload/finish (a switch changes nothing in any other fiber), active_fiber_dual. Tie: every load/unload event of real runs replayed through the model; 18 constructed-oracle scenarios and all interleavings of two fibers with 2-3 steps (enumerated) in 2 GC modes; bodies wrapped in (nested) fibers; differential against the Lean reference interpreter.",
  note=TRUST + " Yield from module level consumes its argument before it is rejected (reject_yield_root_partial) - not observable from programs; fibers suspended in the caller chain of a run that aborted stay 'already called' (documented quirk).",
  technique="Lean 4 proof (chain invariant by induction over fiber operations, frame lemmas) + replay of real switch events + constructed-oracle scenarios with enumerated interleavings",
  ref="DESIGN.md section 5 C09"),
 "C10": dict(
  text="Lean 4 theorems: guard_free_equiv (the unchecked value stack of stack.rs equals the bounds-checked one on every operation sequence in which no guard fires, and each guard matters), active_fiber_dual (the borrow-checked and the raw designation of the active fiber agree after every fiber operation), cfg_sites_accounted (every cfg-dependent site regenerated from the source is paired with a modelled operation). Tie: the harness is built in dev/release x feature switches and every program must produce identical traces in all builds.",
  note=TRUST + " What rustc does with unreachable_unchecked and unchecked pointer arithmetic is outside any model: covered only by the cross-build differential runs (partial).",
  technique="Lean 4 proof on the guard/designator models + build-matrix differential of all program profiles",
  ref="DESIGN.md section 5 C10"),
 "C01": dict(
  text="Lean 4 theorems: the collector model (mark/blacken recursion as an explicit-stack machine, passes, sweep) retains every object reachable from a rooted one whenever every pointer field is traced by blacken (collect_safe), retains nothing else (collect_complete) and terminates for well-formed tables; the per-type trace tables are REGENERATED from /repo's source on every run and shown by `decide` to cover every pointer-bearing field except a stated exempt set (schema_covers, schema_wellFormed). Tie: real collections replayed through the Lean collector; traced-edge log vs the schema; all programs run with collection at every allocation (+quarantine, use-after-free monitor) against never-collect.",
  note=TRUST + " The translator xlate is trusted to read the GcManaged impls (validated against the traced-edge log). Values the interpreter holds mid-operation (root discipline of vm.rs/core.rs) are NOT covered by the theorem: monitored runs only. Raw Open(*mut Value) cells are outside the schema (known finding F3).",
  technique="Lean 4 proof (tri-colour invariant; decide over tables regenerated from the source) + collector replay + always-vs-never differential with quarantine",
  ref="DESIGN.md section 5 C01"),
}

def check(pid, c):
    return {"property_id": pid, "quick_cmd": "./check %s --tier quick" % pid, "thorough_cmd": "./check %s --tier thorough" % pid,
            "evidence_file": "/verif/evidence/%s.json" % pid, "replay_cmd_template": "./check %s --replay {path}" % pid,
            "engine": "lean4+correspondence", "level_claimed": {"category": "proof", "text": c["text"], "design_ref": c["ref"]},
            "level_note": c["note"], "technique": c["technique"]}

enabled = [p for p in props if p in CHECKS and os.path.exists(os.path.join(VERIF, "tools", "props", p.lower() + ".py"))
           and not os.path.exists(os.path.join(VERIF, "tools", "props", p.lower() + ".disabled"))]
hooks_commits = subprocess.run(["git", "-C", "/repo", "log", "--format=%h %s"], capture_output=True, text=True).stdout.splitlines()
hooks_commits = [l.split()[0] for l in hooks_commits if "verif hooks" in l]
m = {"version": 1, "setup_cmd": "./setup.sh",
     "hooks": {"guard": "cargo feature verif_hooks (crate yarel)",
               "enable": "harness crate /verif/harness depends on /repo/yarel with features=[\"verif_hooks\"]",
               "baseline_off_cmd": "cd /repo && cargo test --workspace --no-fail-fast --offline",
               "source_commits": hooks_commits[::-1], "add_only": True},
     "engines": [{"name": "lean4+correspondence", "path": "/verif/lean, /verif/harness, /verif/xlate, /verif/tools",
                  "serves_properties": enabled,
                  "kind_free_text": "Lean 4 theorems over hand-written models and over tables regenerated from the source; models tied to /repo by a differential harness (Rust, in-process, hooks behind cargo feature verif_hooks)"}],
     "checks": [check(p, CHECKS[p]) for p in enabled],
     "notes": "Lean 4 proofs about models of yarel + checked correspondence with /repo; see DESIGN.md. Known findings: known_findings.json.",
     "not_applicable": [{"property_id": p, "reason": "check not built yet (work in progress; see DESIGN.md section 5)"} for p in props if p not in enabled]}
json.dump(m, open(os.path.join(VERIF, "MANIFEST.json"), "w"), indent=1)
print("enabled:", enabled)
