"""Driver of one property check.  ./check <ID> [--tier quick|thorough] [--replay path]

Flow (DESIGN.md section 4.7): regenerate tables from /repo -> lake build the property's theorem module(s) ->
axiom/forbidden-construct audit -> build the harness against /repo's working tree (hooks on) -> corpus, ledger
replays, generated correspondence -> targeted search if an obligation or the correspondence broke -> evidence.
"""
import argparse
import importlib
import json
import os
import sys
import time
import traceback

sys.path.insert(0, os.path.dirname(os.path.abspath(__file__)))
import vlib  # noqa: E402


class Ctx:
    def __init__(self, prop, tier, seed):
        self.prop = prop
        self.tier = tier
        self.seed = seed
        self.rng = vlib.SplitMix(seed)
        self.thorough = tier == "thorough"
        self.runner = None
        self.runners = {}
        self.notes = []

    def build_runner(self, profile="release", features=()):
        key = (profile, tuple(sorted(features)))
        if key not in self.runners:
            exe, ok, out = vlib.build_harness(profile, features)
            if not ok:
                raise BuildError("harness build failed (%s %s):\n%s" % (profile, features, out[-3000:]))
            self.runners[key] = exe
        return self.runners[key]


class BuildError(Exception):
    pass


# tie theorem (Props/FnsTie/*) -> (search script, label of the function in its DISAGREE lines)
TIE_SEARCH = {
    "validate_integer_tie": ("TieIndex", "validate_integer"),
    "try_as_bounded_index_tie": ("TieIndex", "try_as_bounded_index"),
    "make_bounded_range_tie": ("TieIndex", "make_bounded_range"),
    "range_iter_new_tie": ("TieIndex", "ObjRangeIter::new"),
    "range_iter_next_tie": ("TieIndex", "ObjRangeIter::next"),
    "vec_iter_next_tie": ("TieIndex", "ObjVecIter::next"),
    "tuple_iter_next_same": ("TieIndex", "ObjTupleIter::next"),
    "resolve_local_tie": ("TieResolver", "Compiler::resolve_local"), "resolve_local_innermost": ("TieResolver", "Compiler::resolve_local"),
    "inline_arms_match_the_bytecode_table": ("TieVm", "inline-arms"), "vm_arm_constant_effect": ("TieVm", "inline-arms"), "vm_arm_pop_effect": ("TieVm", "inline-arms"),
    "vm_arm_copy_top_effect": ("TieVm", "inline-arms"), "vm_arm_nil_effect": ("TieVm", "inline-arms"),
    "declare_variable_spec": ("TieResolver", "Parser::declare_variable"), "redeclaration_is_reported": ("TieResolver", "Parser::declare_variable"),
    "shadowing_is_allowed": ("TieResolver", "Parser::declare_variable"), "clash_test_matches_reference": ("TieResolver", "Parser::declare_variable"),
    "add_local_spec": ("TieResolver", "Compiler::add_local"), "declared_then_initialised_is_found": ("TieResolver", "Compiler::add_local"),
    "emit_scope_end_spec": ("TieResolver", "Parser::emit_scope_end"), "captured_slots_are_closed": ("TieResolver", "Parser::emit_scope_end"),
    "scope_end_matches_reference": ("TieResolver", "Parser::emit_scope_end"),
    "add_upvalue_tie": ("TieResolver", "Compiler::add_upvalue"), "add_upvalue_spec": ("TieResolver", "Compiler::add_upvalue"),
    "hash_number_tie": ("TieHash", "hash_number"),
    "fnv_write_tie": ("TieHash", "FnvHasher::write"),
    "store_find_index_tie": ("TieIntern", "find_index"), "store_find_index_is_findIndex": ("TieIntern", "find_index"),
    "store_get_tie": ("TieIntern", "ObjStringStore::get"),
    "stack_peek_form": ("TieStack", "Stack::peek"), "stack_peek_checked": ("TieStack", "Stack::peek"), "stack_peek_unchecked": ("TieStack", "Stack::peek"),
    "stack_push_form": ("TieStack", "Stack::push"), "stack_push_checked": ("TieStack", "Stack::push"), "stack_push_unchecked": ("TieStack", "Stack::push"),
    "stack_pop_form": ("TieStack", "Stack::pop"), "stack_pop_checked": ("TieStack", "Stack::pop"), "stack_pop_unchecked": ("TieStack", "Stack::pop"),
    "stack_truncate_form": ("TieStack", "Stack::truncate"), "stack_truncate_checked": ("TieStack", "Stack::truncate"),
    "stack_truncate_unchecked": ("TieStack", "Stack::truncate"),
    "store_adjust_capacity_tie": ("TieIntern", "ObjStringStore::adjust_capacity"), "rehash_loop_tie": ("TieIntern", "ObjStringStore::adjust_capacity"),
    "store_insert_tie": ("TieIntern", "ObjStringStore::insert"), "store_insert_on_reachable": ("TieIntern", "ObjStringStore::insert"),
    "grow_test_exact": ("TieIntern", "ObjStringStore::insert"),
    "sweep_tie": ("TieGc", "sweep"), "mark_roots_tie": ("TieGc", "mark_roots"), "trace_references_tie": ("TieGc", "trace_references"),
    "collect_passes_are_the_model": ("TieGc", "sweep"),
    "allocate_raw_tie": ("TiePacing", "allocate_raw"),
    "collect_if_required_tie": ("TiePacing", "allocate_raw"),
    "collect_tie": ("TiePacing", "allocate_raw"),
    "alloc_glued_is_model": ("TiePacing", "allocate_raw"),
    "op_greater_tie": ("TieOps", "op_Greater"), "op_less_tie": ("TieOps", "op_Less"), "op_subtract_tie": ("TieOps", "op_Subtract"),
    "op_multiply_tie": ("TieOps", "op_Multiply"), "op_divide_tie": ("TieOps", "op_Divide"), "op_modulo_tie": ("TieOps", "op_Modulo"),
    "op_bitwise_and_tie": ("TieOps", "op_BitwiseAnd"), "op_bitwise_or_tie": ("TieOps", "op_BitwiseOr"), "op_bitwise_xor_tie": ("TieOps", "op_BitwiseXor"),
    "op_shift_left_tie": ("TieOps", "op_BitShiftLeft"), "op_shift_right_tie": ("TieOps", "op_BitShiftRight"),
    "dispatch_is_the_pinned_table": ("TieOps", "dispatch"), "dispatch_covers_every_opcode": ("TieOps", "dispatch"),
    "vm_get_local_effect": ("TieVm", "vm_get_local_impl"), "vm_get_local_panics": ("TieVm", "vm_get_local_impl"),
    "vm_set_local_effect": ("TieVm", "vm_set_local_impl"), "vm_jump_effect": ("TieVm", "vm_jump_impl"),
    "vm_jump_if_false_effect": ("TieVm", "vm_jump_if_false_impl"), "vm_loop_effect": ("TieVm", "vm_loop_impl"),
    "vm_equal_effect": ("TieVm", "vm_equal_impl"), "vm_binary_op_numbers": ("TieVm", "vm_binary_op_impl(Subtract)"),
    "vm_binary_op_type_error": ("TieVm", "vm_binary_op_impl(Subtract)"), "vm_logical_not_effect": ("TieVm", "vm_logical_not_impl"),
    "vm_negate_number": ("TieVm", "vm_negate_impl"), "vm_negate_type_error": ("TieVm", "vm_negate_impl"),
    "vm_bitwise_not_number": ("TieVm", "vm_bitwise_not_impl"), "jump_roundtrip": ("TieVm", "vm_jump_impl"), "loop_roundtrip": ("TieVm", "vm_loop_impl"),
    "emit_return_skeleton": ("TieStatements", "emit_return"), "return_statement_skeleton": ("TieStatements", "return_statement"),
    "throw_statement_skeleton": ("TieStatements", "throw_statement"), "try_statement_skeleton": ("TieStatements", "try_statement"),
    "try_statement_no_clause": ("TieStatements", "try_statement"),
    "break_statement_skeleton": ("TieStatements", "break_statement"), "continue_statement_skeleton": ("TieStatements", "continue_statement"),
    "while_statement_skeleton": ("TieStatements", "while_statement"), "if_statement_skeleton": ("TieStatements", "if_statement"),
    "binary_operator_table": ("TieStatements", "binary"), "unary_operator_table": ("TieStatements", "unary"), "and_skeleton": ("TieStatements", "and"),
    "or_skeleton": ("TieStatements", "or"), "dotdot_skeleton": ("TieStatements", "dotdot"), "var_declaration_skeleton": ("TieStatements", "var_declaration"),
    "expression_statement_skeleton": ("TieStatements", "expression_statement"), "end_scope_skeleton": ("TieStatements", "end_scope"),
    "begin_scope_skeleton": ("TieStatements", "begin_scope"), "define_variable_skeleton": ("TieStatements", "define_variable"),
    "for_statement_skeleton": ("TieStatements", "for_statement"), "for_statement_needs_a_name": ("TieStatements", "for_statement"),
    "vm_unwind_contract": ("TieHandlers", "vm_unwind_stack"), "vm_unwind_uncaught": ("TieHandlers", "vm_unwind_stack"),
    "vm_push_handler_effect": ("TieHandlers", "fiber_push_exc_handler"), "vm_pop_handler_effect": ("TieHandlers", "vm_pop_exc_handler_impl"),
    "vm_jump_finally_effect": ("TieHandlers", "vm_jump_finally_impl"), "vm_end_finally_pending_return": ("TieHandlers", "vm_end_finally_impl"),
    "vm_end_finally_nothing_pending": ("TieHandlers", "vm_end_finally_impl"), "vm_end_finally_rethrows_uncaught": ("TieHandlers", "vm_end_finally_impl"),
    "vm_throw_effect": ("TieHandlers", "vm_unwind_stack"),
    "load_rejects_finished": ("TieFibers", "vm_load_fiber"), "load_rejects_called": ("TieFibers", "vm_load_fiber"), "load_effect": ("TieFibers", "vm_load_fiber"),
    "load_first_effect": ("TieFibers", "vm_load_fiber"), "load_stages": ("TieFibers", "vm_load_fiber"), "load_dangling_panics": ("TieFibers", "vm_load_fiber"),
    "unload_stages": ("TieFibers", "vm_unload_fiber"), "unload_no_caller": ("TieFibers", "vm_unload_fiber"), "unload_effect": ("TieFibers", "vm_unload_fiber"),
    "call_wrong_arity": ("TieCalls", "vm_call_closure"), "call_depth_limit": ("TieCalls", "vm_call_closure"), "call_effect": ("TieCalls", "vm_call_closure"),
    "return_to_caller": ("TieCalls", "vm_return_impl"), "call_return_roundtrip": ("TieCalls", "vm_return_impl"), "return_finishes_fiber": ("TieCalls", "vm_return_impl"),
    "precedence_from_discr": ("TieCompiler", "Precedence::from"),
    "precedence_from_panics_iff": ("TieCompiler", "Precedence::from"),
    "precedence_names_are_the_table": ("TieCompiler", "Precedence-enum"),
    "patch_jump_tie": ("TieCompiler", "patch_jump"),
    "emit_loop_tie": ("TieCompiler", "emit_loop"),
    "patch_offset_at_tie": ("TieCompiler", "patch_offset_at"),
}


def tie_search(required):
    """When a tie between a translated function body and its model no longer checks: run both (they are executable) on a grid of
    inputs and report the inputs on which they differ.  Returns failure records (one per function, the first disagreement)."""
    wanted = {}
    for r in required:
        if r in TIE_SEARCH:
            script, label = TIE_SEARCH[r]
            wanted.setdefault(script, set()).add(label)
    found = []
    for script, labels in sorted(wanted.items()):
        rc, out = vlib.run_cmd(["lake", "env", "lean", "--run", "Search/%s.lean" % script], cwd=vlib.LEAN_DIR, timeout=600)
        seen = set()
        for l in out.splitlines():
            if not l.startswith("DISAGREE "):
                continue
            fn = l.split()[1]
            if fn in labels and fn not in seen:
                seen.add(fn)
                found.append({"kind": "tie", "name": "tie:" + fn, "script": script, "function": fn, "line": l,
                              "signature": "translated body of %s differs from its model" % fn,
                              "detail": "the Rust function as translated on this run (lean/Yarel/Gen/Fns.lean) and the hand-written model the "
                                        "property theorems are about give different results on this input: " + l,
                              "failing_input": True})
    return found


def tie_replay(payload):
    rc, out = vlib.run_cmd(["lake", "env", "lean", "--run", "Search/%s.lean" % payload["script"]], cwd=vlib.LEAN_DIR, timeout=600)
    again = [l for l in out.splitlines() if l.startswith("DISAGREE ") and l.split()[1] == payload["function"]]
    if again:
        return False, "still differs: " + again[0]
    return True, "translated body and model agree on the searched inputs (%s)" % payload["function"]


def main():
    ap = argparse.ArgumentParser()
    ap.add_argument("prop")
    ap.add_argument("--tier", default=os.environ.get("VERIF_TIER", "quick"))
    ap.add_argument("--replay", default=None)
    args = ap.parse_args()
    prop = args.prop.upper()
    tier = args.tier if args.tier in ("quick", "thorough") else "quick"
    seed = int(os.environ.get("VERIF_SEED", "20260924"))
    mod = importlib.import_module("props." + prop.lower())
    ctx = Ctx(prop, tier, seed)
    t0 = time.time()

    if args.replay:
        payload = json.load(open(args.replay))
        if payload.get("kind") == "tie":
            import xlate_run
            xlate_run.regenerate()
            ok, text = tie_replay(payload)
        else:
            ctx.runner = ctx.build_runner()
            ok, text = mod.replay(ctx, payload)
        print(text)
        if not ok:
            print("VIOLATION property=%s replay=%s" % (prop, args.replay))
            sys.exit(1)
        sys.exit(0)

    violations = []        # (replay path, suffix)
    broken = []            # names of broken obligations / correspondences
    obligations = {}       # theorem -> axioms
    known_lines = []
    coverage = {}
    assumptions = list(getattr(mod, "ASSUMPTIONS", []))

    # 1. generated tables
    gen_info = None
    if True:      # the generated tables are re-read from /repo's source on EVERY run of every check
        import xlate_run
        ok, info = xlate_run.regenerate()
        gen_info = info
        if not ok:
            broken.append("translator: " + info)

    # 2. proofs
    hits = vlib.scan_forbidden()
    if hits:
        broken.append("forbidden construct in Lean sources: " + "; ".join(hits[:5]))
    targets = list(mod.THEOREM_MODULES) + ["yarel_model"]
    ok, out = vlib.lake_build(targets)
    build_log_tail = ""
    if not ok:
        lines = out.splitlines()
        failing = [l for l in lines if l.startswith("error:")][:8]
        # the theorem a failing tactic belongs to: the first `'<name>' depends on axioms: [sorryAx …` after the error, or the nearest `theorem` line
        named = [l.split("'")[1] for l in lines if "sorryAx" in l and "'" in l][:8]
        broken.append("lake build failed" + (" (theorems that no longer check: %s)" % ", ".join(named) if named else "") + ": " + " | ".join(failing))
        build_log_tail = out[-4000:]
    # a broken theorem does not stop the correspondence: the executable models are still run against the implementation when the
    # model driver itself builds (that is where the failing input is looked for)
    model_ok = ok
    if not ok:
        ok_exe, _ = vlib.lake_build(["yarel_model"])
        model_ok = ok_exe
    n_thm = 0
    for m in mod.THEOREM_MODULES:
        if not ok:
            break
        thms, aok, alog = vlib.axiom_audit(m)
        # every theorem is audited for axioms; the compiler's own equation lemmas (f.eq_1, f.eq_def, …) are not counted as obligations
        stated = {n: a for n, a in thms.items() if not vlib.re.search(r"\.(eq_\d+|eq_def|congr_simp|sizeOf_spec|injEq|inj)$", n)}
        obligations.update(stated)
        n_thm += len(stated)
        if not aok:
            broken.append("axiom audit failed for %s: %s" % (m, alog[-500:] if alog else "unexpected axioms"))
    # independent re-check of the compiled theorem modules by Lean's external checker (thorough tier, or VERIF_LEANCHECKER=1)
    rechecked = []
    if ok and (ctx.thorough or os.environ.get("VERIF_LEANCHECKER") == "1"):
        for m in mod.THEOREM_MODULES:
            rc, out = vlib.run_cmd(["lake", "env", "leanchecker", m], cwd=vlib.LEAN_DIR, timeout=1800)
            if rc != 0:
                broken.append("leanchecker rejects %s: %s" % (m, out[-400:]))
            else:
                rechecked.append(m)
    required = getattr(mod, "REQUIRED_THEOREMS", [])
    for r in required:
        if ok and not any(n == r or n.endswith("." + r) for n in obligations):
            broken.append("required theorem missing: " + r)

    # 3. harness
    try:
        ctx.runner = ctx.build_runner()
    except BuildError as e:
        print(str(e)[-3000:])
        broken.append("harness build failed (the /repo tree does not compile with hooks on)")
        ctx.runner = None

    # 4. correspondence
    failures = []
    if ctx.runner is not None:
        try:
            res = mod.correspondence(ctx, model_ok=model_ok)
            failures = res.get("failures", [])
            coverage.update(res.get("coverage", {}))
            broken.extend(res.get("broken", []))
        except Exception:
            tb = traceback.format_exc()
            print(tb)
            broken.append("correspondence run crashed: " + tb.splitlines()[-1])

    # 5. classify failures against the known-findings ledger
    ledger = vlib.known_findings(prop)
    open_known = [k for k in ledger if k.get("status") == "known"]
    confirmed = set()
    for f in failures:
        sig = f.get("signature", "")
        match = None
        for k in open_known:
            if k.get("signature") and k["signature"] == sig:
                # an entry that names the failing programs covers exactly those: the same symptom on another program is a new violation
                if k.get("only_names") and f.get("name") not in k["only_names"]:
                    continue
                match = k
                break
        if match is not None:
            confirmed.add(match["id"])
            continue
        path = vlib.write_replay(prop, f)
        suffix = "" if f.get("failing_input", True) else " no-failing-input-found"
        violations.append((path, suffix))
    for k in open_known:
        if k["id"] in confirmed:
            known_lines.append("KNOWN-FINDING: property=%s %s (%s)" % (prop, k["what"], k["id"]))
        else:
            ctx.notes.append("ledger entry %s did not reproduce in this run" % k["id"])

    # 6. broken obligations with no failing input found by the correspondence: targeted search
    if broken and not violations:
        found = []
        if any(b.startswith("lake build failed") for b in broken):
            try:
                found = tie_search(required)
            except Exception:
                print(traceback.format_exc())
        if not found and ctx.runner is not None and hasattr(mod, "search"):
            try:
                found = mod.search(ctx, broken)
            except Exception:
                print(traceback.format_exc())
        if not found and ctx.runner is not None and not hasattr(mod, "search") and not ctx.thorough and os.environ.get("VERIF_NO_DEEP_SEARCH") != "1":
            # no property-specific search: the correspondence at its thorough size (more generated cases, every enumeration in full) is the
            # search for a failing input
            try:
                ctx.thorough = True
                res2 = mod.correspondence(ctx, model_ok=model_ok)
                for f in res2.get("failures", []):
                    sig = f.get("signature", "")
                    if f.get("failing_input", True) and not any(k.get("signature") == sig and (not k.get("only_names") or f.get("name") in k["only_names"]) for k in open_known):
                        found.append(f)
                        if len(found) >= 5:
                            break
            except Exception:
                print(traceback.format_exc())
            finally:
                ctx.thorough = False
        if found:
            for f in found:
                violations.append((vlib.write_replay(prop, f), ""))
        else:
            payload = {"property": prop, "broken": broken, "build_log_tail": build_log_tail,
                       "note": "proof obligation or correspondence no longer checks; no failing input found"}
            violations.append((vlib.write_replay(prop, payload), " no-failing-input-found"))

    # 7. evidence
    wall = time.time() - t0
    cov = {
        "obligations": max(len(obligations), 1) if ok else max(len(obligations), 1),
        "discharged": len(obligations) if ok and not any(b.startswith(("lake", "axiom", "forbidden", "required")) for b in broken) else 0,
        "checker_cmd": "cd /verif/lean && lake build %s && python3 ../tools/audit.py %s" % (
            " ".join(mod.THEOREM_MODULES), " ".join(mod.THEOREM_MODULES)),
        "trusted_base": [
            "Lean 4.33.0 kernel",
            "axioms: " + ", ".join(sorted({a for axs in obligations.values() for a in axs}) or ["none"]),
            "correspondence harness /verif/harness + hooks (feature verif_hooks) + tools/*.py",
        ] + list(getattr(mod, "TRUSTED", [])),
        "theorems": sorted(obligations.keys()),
        "broken_obligations": broken,
        "rechecked_by_leanchecker": rechecked,
        "known_findings_confirmed": sorted(confirmed),
        "notes": ctx.notes,
    }
    if gen_info:
        cov["generated_tables"] = gen_info
    cov.update(coverage)
    vlib.write_evidence(prop, tier, seed, getattr(mod, "LEVEL", "proof"), cov, wall, len(violations), assumptions)

    for l in known_lines:
        print(l)
    for b in broken:
        print("BROKEN: " + b)
    if violations:
        for path, suffix in violations[:20]:
            print("VIOLATION property=%s replay=%s%s" % (prop, path, suffix))
        sys.exit(1)
    print("OK property=%s tier=%s theorems=%d wall=%.1fs" % (prop, tier, len(obligations), wall))
    sys.exit(0)


if __name__ == "__main__":
    main()
