"""Parsing of the event strings emitted by the verif hooks (vm::verif::event)."""
import re

KV = re.compile(r"(\w+)=(\S+)")


def parse(ev):
    head, _, rest = ev.partition(" ")
    return head, dict(KV.findall(rest))


def upv_lines(events):
    """capture/close/closed events -> request lines of the `upv` model driver."""
    lines = ["reset"]
    pending = None   # (fiber, from, [cells])
    def flush():
        nonlocal pending
        if pending is not None:
            f, frm, cells = pending
            lines.append("close %s %s %s" % (f, frm, ",".join(cells) if cells else "-"))
            pending = None
    for ev in events:
        head, kv = parse(ev)
        if head == "capture":
            flush()
            lines.append("cap %s %s %s %s" % (kv["fiber"], kv["slot"], kv["cell"], kv["new"]))
        elif head == "close":
            flush()
            pending = (kv["fiber"], kv["from"], [])
        elif head == "closed":
            if pending is not None and pending[0] == kv["fiber"]:
                pending[2].append(kv["cell"])
            else:
                flush()
                lines.append("close %s ? %s" % (kv["fiber"], kv["cell"]))   # closed without a close: malformed on purpose
        else:
            # other events do not interrupt a close group (none are emitted inside close_upvalues)
            pass
    flush()
    return lines


def exc_lines(events):
    lines = ["reset"]
    for ev in events:
        head, kv = parse(ev)
        if head == "push_handler":
            lines.append("push %s %s %s %s %s" % (kv["fiber"], kv["depth"], kv["stack"], kv["frames"], kv["no_catch"]))
        elif head == "pop_handler":
            lines.append("pop %s %s %s" % (kv["fiber"], kv["depth"], kv["frames"]))
        elif head == "unwound":
            lines.append("unwound %s %s %s %s %s %s %s" % (kv["fiber"], kv["handlers"], kv["stack"], kv["frames"],
                                                          kv["init_stack"], kv["frame_count"], kv["handling"]))
    return lines


def fib_lines(events):
    lines = []
    for ev in events:
        head, kv = parse(ev)
        if head == "load_fiber":
            if not lines:
                lines.append("reset %s" % kv["to"])
                continue
            lines.append("load %s %s %s %s" % (kv["to"], kv["caller"] if kv["caller"] != "0x0" else "0", kv["arg"], kv["agree"]))
        elif head == "unload_fiber":
            lines.append("unload %s %s %s" % (kv["to"], kv["arg"], kv["agree"]))
    return lines
