"""Runs every check registered in MANIFEST.json (quick tier by default) and prints a summary."""
import json, os, subprocess, sys, time
V = os.path.dirname(os.path.dirname(os.path.abspath(__file__)))
tier = sys.argv[1] if len(sys.argv) > 1 else "quick"
only = sys.argv[2:]
m = json.load(open(os.path.join(V, "MANIFEST.json")))
bad = 0
for c in m["checks"]:
    pid = c["property_id"]
    if only and pid not in only:
        continue
    t = time.time()
    p = subprocess.run(["./check", pid, "--tier", tier], cwd=V, capture_output=True, text=True)
    last = [l for l in p.stdout.splitlines() if l.startswith(("OK", "VIOLATION", "BROKEN"))]
    print("%s rc=%d %.0fs %s" % (pid, p.returncode, time.time() - t, " | ".join(last)[:300]))
    bad += p.returncode != 0
sys.exit(1 if bad else 0)
