"""Program differential against the Lean reference interpreter (S): Yarel/Spec, driver family `spec`."""
import json
import os

import vlib
import progs


def available():
    return os.path.exists(os.path.join(vlib.LEAN_DIR, "Yarel", "Drv", "Spec.lean"))


def run_spec(case_lines, fuel=None):
    out, rc, err = vlib.run_lines([vlib.MODEL_EXE, "spec"], case_lines, timeout=1800)
    res = []
    for l in out:
        try:
            res.append(json.loads(l))
        except Exception:
            res.append({"error": l[:200]})
    if len(res) != len(case_lines):
        raise RuntimeError("spec driver answered %d lines for %d cases (rc=%s) %s" % (len(res), len(case_lines), rc, err[-500:]))
    return res


def canon_spec_step(st):
    if st is None or "status" not in st:
        return ("missing",)
    return (st["status"], st.get("kind", ""), tuple(st.get("printed", [])), tuple(st.get("messages", [])))


def diff(ctx, programs, prop, broken, opts=None, known_signatures=()):
    """programs: [(name, src, modules)]. Runs each on the real implementation and on (S); returns failures."""
    if not available():
        ctx.notes.append("reference interpreter (S) not integrated yet: program differential skipped")
        return {"failures": [], "compared": 0}
    real, lines = progs.run_programs(ctx.runner, programs, dict(opts or {"gc": "default"}), tag="r")
    try:
        spec = run_spec(lines)
    except Exception as e:
        broken.append("reference interpreter driver: %s" % e)
        return {"failures": [], "compared": 0}
    failures = []
    compared = 0
    for (name, src, mods), r, s in zip(programs, real, spec):
        sst = (s.get("steps") or [None])[-1] if isinstance(s, dict) else None
        cs = canon_spec_step(sst)
        cr = progs.canon_step(r)
        if cs[0] in ("timeout", "missing") or (sst or {}).get("unordered"):
            continue
        compared += 1
        if cr != cs:
            failures.append({"what": "the implementation and the reference interpreter disagree", "program": src, "name": name,
                             "modules": {k: v for k, v in mods.items() if k in src}, "implementation": cr, "reference": cs,
                             "signature": "impl-vs-spec " + first_difference(cr, cs), "failing_input": True})
    return {"failures": failures, "compared": compared}


def first_difference(a, b):
    if a[0] != b[0]:
        return "status %s/%s" % (a[0], b[0])
    if len(a) > 1 and len(b) > 1 and a[1] != b[1]:
        return "kind %s/%s" % (a[1], b[1])
    if len(a) > 2 and len(b) > 2 and a[2] != b[2]:
        return "printed"
    return "messages"


def replay(ctx, payload):
    p = [("replay", payload["program"], payload.get("modules", {}))]
    real, lines = progs.run_programs(ctx.runner, p, {"gc": "default"})
    if not available():
        return False, str(progs.canon_step(real[0]))
    spec = run_spec(lines)
    cs = canon_spec_step((spec[0].get("steps") or [None])[-1])
    cr = progs.canon_step(real[0])
    return cr == cs, "implementation: %s\nreference: %s" % (cr, cs)
