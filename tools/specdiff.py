"""Program differential against the Lean reference interpreter (S): Yarel/Spec, driver family `spec`."""
import json
import os

import vlib
import progs


def available():
    return os.path.exists(os.path.join(vlib.LEAN_DIR, "Yarel", "Drv", "Spec.lean"))


SPEC_FUEL = int(os.environ.get("VERIF_SPEC_FUEL", "1000000"))      # machine steps of (S) per snippet; terminating generated programs need < 300 000
SPEC_CASE_SECONDS = float(os.environ.get("VERIF_SPEC_CASE_SECONDS", "30"))


def _with_fuel(line):
    if " fuel=" in line.split(" -- ", 1)[0]:
        return line
    head, sep, tail = line.partition(" -- ")
    return head + " fuel=%d" % SPEC_FUEL + sep + tail


def _run_spec_chunk(case_lines):
    """One driver process answers the cases in order.  A case that runs longer than SPEC_CASE_SECONDS (a non-terminating generated
    program whose data grows, so that its steps get slower and slower) is abandoned as a timeout of (S) - inconclusive, exactly like
    running out of fuel - and the remaining cases continue in a new process."""
    import subprocess, threading, queue
    res = []
    i = 0
    while i < len(case_lines):
        def _limit():
            # a driver orphaned by a killed check must not spin for ever: hard cap on its CPU time
            import resource
            resource.setrlimit(resource.RLIMIT_CPU, (1800, 1800))
        p = subprocess.Popen([vlib.MODEL_EXE, "spec"], stdin=subprocess.PIPE, stdout=subprocess.PIPE, stderr=subprocess.DEVNULL, text=True, preexec_fn=_limit)
        q = queue.Queue()

        def reader(proc=p, qq=q):
            for l in proc.stdout:
                qq.put(l)
            qq.put(None)
        threading.Thread(target=reader, daemon=True).start()
        try:
            while i < len(case_lines):
                p.stdin.write(_with_fuel(case_lines[i]) + "\n")
                p.stdin.flush()
                try:
                    l = q.get(timeout=SPEC_CASE_SECONDS)
                except queue.Empty:
                    res.append({"steps": [{"status": "timeout", "wall": "abandoned after %.0fs" % SPEC_CASE_SECONDS}]})
                    i += 1
                    break
                if l is None:
                    raise RuntimeError("spec driver ended early at case %d of %d" % (i, len(case_lines)))
                try:
                    res.append(json.loads(l))
                except Exception:
                    res.append({"error": l[:200]})
                i += 1
        finally:
            try:
                p.kill()
            except Exception:
                pass
    if len(res) != len(case_lines):
        raise RuntimeError("spec driver answered %d lines for %d cases" % (len(res), len(case_lines)))
    return res


def run_spec(case_lines, fuel=None):
    """Cases are independent (every case starts from a bootstrapped interpreter), so chunks run in parallel processes."""
    if not case_lines:
        return []
    workers = int(os.environ.get("VERIF_WORKERS", "0")) or min(12, os.cpu_count() or 1)
    size = max(10, -(-len(case_lines) // workers))
    chunks = [case_lines[i:i + size] for i in range(0, len(case_lines), size)]
    if len(chunks) == 1:
        return _run_spec_chunk(chunks[0])
    from concurrent.futures import ThreadPoolExecutor
    with ThreadPoolExecutor(max_workers=workers) as ex:
        outs = list(ex.map(_run_spec_chunk, chunks))
    return [r for o in outs for r in o]


def budget_exhausted(c):
    """The implementation's run was cut by the harness's step budget (inconclusive, like a fuel timeout of (S))."""
    return len(c) > 3 and c[0] == "err" and any(str(m).startswith("verif: step budget") for m in c[3])


def canon_spec_step(st):
    if st is None or "status" not in st:
        return ("missing",)
    return (st["status"], st.get("kind", ""), tuple(st.get("printed", [])), tuple(st.get("messages", [])))


def diff(ctx, programs, prop, broken, opts=None, known_signatures=()):
    """programs: [(name, src, modules)]. Runs each on the real implementation and on (S); returns failures."""
    if not available():
        ctx.notes.append("reference interpreter (S) not integrated yet: program differential skipped")
        return {"failures": [], "compared": 0}
    real, lines = progs.run_programs(ctx.runner, programs, dict(opts or {"gc": "default"}), tag="r")
    try:
        spec = run_spec(lines)
    except Exception as e:
        broken.append("reference interpreter driver: %s" % e)
        return {"failures": [], "compared": 0}
    failures = []
    compared = 0
    for (name, src, mods), r, s in zip(programs, real, spec):
        sst = (s.get("steps") or [None])[-1] if isinstance(s, dict) else None
        cs = canon_spec_step(sst)
        cr = progs.canon_step(r)
        if cs[0] in ("timeout", "missing") or (sst or {}).get("unordered") or budget_exhausted(cr):
            continue
        compared += 1
        if cr != cs:
            failures.append({"what": "the implementation and the reference interpreter disagree", "program": src, "name": name,
                             "modules": {k: v for k, v in mods.items() if k in src}, "implementation": cr, "reference": cs,
                             "signature": "impl-vs-spec " + first_difference(cr, cs), "failing_input": True})
    return {"failures": failures, "compared": compared}


def diff_lines(ctx, lines, real, broken, what="history", payload_of=None):
    """lines: raw case lines already executed on the implementation (results `real`). Every S/C step of every case is compared with
    the reference interpreter's answer for the same case line (status, error kind, printed lines, messages)."""
    if not available():
        return {"failures": [], "compared": 0}
    try:
        spec = run_spec(lines)
    except Exception as e:
        broken.append("reference interpreter driver (%s): %s" % (what, e))
        return {"failures": [], "compared": 0}
    failures = []
    compared = 0
    for i, (line, r, sp) in enumerate(zip(lines, real, spec)):
        rs = r.get("steps") if isinstance(r, dict) else None
        ss = sp.get("steps") if isinstance(sp, dict) else None
        if not rs or not ss:
            continue
        for j, (a, b) in enumerate(zip(rs, ss)):
            if b.get("status") not in ("ok", "err") or b.get("unordered"):
                if b.get("status") == "timeout":
                    break
                continue
            ca, cb = progs.canon_step(a), canon_spec_step(b)
            if budget_exhausted(ca):
                break
            compared += 1
            if ca != cb:
                f = {"what": "the implementation and the reference interpreter disagree at step %d of a %s" % (j, what), "case_line": line,
                     "step_index": j, "implementation": ca, "reference": cb, "signature": "impl-vs-spec %s %s" % (what, first_difference(ca, cb)),
                     "failing_input": True}
                if payload_of:
                    f.update(payload_of(i))
                failures.append(f)
                break
    return {"failures": failures, "compared": compared}


def replay_line(ctx, payload):
    real = vlib.run_real(ctx.runner, [payload["case_line"]])
    out = diff_lines(ctx, [payload["case_line"]], real, [])
    return not out["failures"], json.dumps(out["failures"][:1])[:1500]


COMPOUND = ("+=", "-=", "*=", "/=", "%=", "&=", "|=", "^=", "<<=", ">>=")


def compile_and_scan_diff(ctx, cases, broken):
    """cases: [(name, src)]. Compares, for every source text, the token stream (SCAN) and the compile result (C: accepted, or the
    full list of located messages) of the implementation with those of the reference scanner/parser.  Skipped for the compile
    comparison only: sources with a compound assignment (ledger F24).  (Results that mention attributes used to be skipped as well:
    `#[a, b]` lived in a randomly seeded hash map, so which unsupported attribute was reported first changed from run to run - F47, fixed.)"""
    if not available():
        return {"failures": [], "scan_compared": 0, "compile_compared": 0}
    lines = [vlib.case_line("d%d" % i, ["SCAN:" + vlib.hx(src), "C:" + vlib.hx(src)]) for i, (_, src) in enumerate(cases)]
    real = vlib.run_real(ctx.runner, lines, timeout_per_batch=300, batch=400)
    try:
        spec = run_spec(lines)
    except Exception as e:
        broken.append("reference interpreter driver (scan/compile): %s" % e)
        return {"failures": [], "scan_compared": 0, "compile_compared": 0}
    failures = []
    n_scan = n_comp = 0
    for (name, src), r, sp in zip(cases, real, spec):
        rs = r.get("steps") if isinstance(r, dict) else None
        ss = sp.get("steps") if isinstance(sp, dict) else None
        if not rs or not ss or len(rs) < 2 or len(ss) < 2:
            continue
        if "tokens" in rs[0] and "tokens" in ss[0]:
            n_scan += 1
            if rs[0]["tokens"] != ss[0]["tokens"]:
                k = next((i for i, (a, b) in enumerate(zip(rs[0]["tokens"], ss[0]["tokens"])) if a != b), min(len(rs[0]["tokens"]), len(ss[0]["tokens"])))
                failures.append({"what": "the scanner and the reference scanner produce different token streams (first difference at token %d: %s / %s)"
                                         % (k, rs[0]["tokens"][k:k + 1], ss[0]["tokens"][k:k + 1]), "name": name, "program": src[:3000], "kind": "scan",
                                 "signature": "scan: token streams differ", "failing_input": True})
                continue
        if any(op in src for op in COMPOUND):
            continue
        a = (rs[1].get("status"), tuple(rs[1].get("messages") or []))
        b = (ss[1].get("status"), tuple(ss[1].get("messages") or []))
        if a[0] not in ("ok", "err") or b[0] not in ("ok", "err"):
            continue            # panics / hangs of the implementation are reported by the caller; timeouts of (S) are inconclusive
        n_comp += 1
        if a != b:
            failures.append({"what": "the compiler and the reference parser disagree: %s / %s" % (str(a)[:300], str(b)[:300]), "name": name, "program": src[:3000],
                             "kind": "compile", "signature": "compile: implementation and reference disagree (%s/%s)" % (a[0], b[0]), "failing_input": True})
    return {"failures": failures, "scan_compared": n_scan, "compile_compared": n_comp}


def first_difference(a, b):
    if a[0] != b[0]:
        return "status %s/%s" % (a[0], b[0])
    if len(a) > 1 and len(b) > 1 and a[1] != b[1]:
        return "kind %s/%s" % (a[1], b[1])
    if len(a) > 2 and len(b) > 2 and a[2] != b[2]:
        return "printed"
    return "messages"


def replay(ctx, payload):
    p = [("replay", payload["program"], payload.get("modules", {}))]
    real, lines = progs.run_programs(ctx.runner, p, {"gc": "default"})
    if not available():
        return False, str(progs.canon_step(real[0]))
    spec = run_spec(lines)
    cs = canon_spec_step((spec[0].get("steps") or [None])[-1])
    cr = progs.canon_step(real[0])
    return cr == cs, "implementation: %s\nreference: %s" % (cr, cs)
