"""python3 tools/try_prog.py file.yl [more.yl ...]  : runs each program on the implementation (release harness) and on the Lean
reference interpreter (S) and prints both observations (development helper)."""
import json, os, sys
sys.path.insert(0, os.path.dirname(os.path.abspath(__file__)))
import vlib, progs, specdiff
exe, ok, out = vlib.build_harness("release")
ps = [(os.path.basename(f), open(f).read(), {}) for f in sys.argv[1:]]
real, lines = progs.run_programs(exe, ps, {"gc": "default"}, tag="t")
spec = specdiff.run_spec(lines)
for (n, s, _), r, sp in zip(ps, real, spec):
    cr = progs.canon_step(r)
    cs = specdiff.canon_spec_step((sp.get("steps") or [None])[-1])
    print("==", n, "AGREE" if cr == cs else "DIFFER")
    print(" impl:", cr)
    if cr != cs:
        print(" spec:", cs)
