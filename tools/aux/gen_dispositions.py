#!/usr/bin/env python3
# One-off generator of the INITIAL Yarel/Model/Dispositions.lean from Gen/facts.json (panic_sites).
# The produced table is committed and from then on maintained by hand (one line per site).
import json, sys
facts = json.load(open(sys.argv[1]))
sites = facts['panic_sites']['sites']

VB  = ('vb',)
def L(n): return ('lemma', n)
GUARD = ('guard',)
START = ('startup',)
def LED(i): return ('ledger', i)
def DYN(r): return ('dyn', r)
def INF(w): return ('inf', w)

ARR2 = INF("constant index 0/1 into a [u8; 2] (to_ne_bytes / array parameter)")
WRITE_STR = INF("write! into a String cannot fail")
FRAME = L("C09.chain_ok: the running fiber exists and every fiber on the caller chain has a frame")
DUAL = L("C09.active_fiber_dual: fiber and unsafe_fiber designate the same live fiber in every reachable state")
C13 = L("C13.no_fault")
C11 = L("C11.intern_total")
DEBUG = DYN("debug.rs is only called under feature debug_bytecode / debug_trace (output-only switches, C10.cfgTable); not part of the compared configurations")
F4 = LED("F4")
COMPILERS = DYN("invariant: Parser.compilers is non-empty between Parser::new and the last finalise_compiler (new_compiler/finalise_compiler are paired); C03 fuzzing")
SCAN = DYN("slice bounds come from get_next_char_boundary / start..current of the token being scanned (identifier bytes are ASCII: is_alpha/is_digit); C03 fuzzing over arbitrary UTF-8")
STACKPTR = L("StackGuard.guard_free_equiv (no checked-build guard fires => the raw pointer access stays inside the array) + C04.verify_progress (heights)")
CLASSDEF = DYN("compiler shape: DeclareClass sets working_class_def before the straight-line Inherit/Method/StaticMethod/DefineClass sequence of the same class declaration; not tracked by the C04 verifier")

def disp(s):
    f, fn, k, o, snip = s['file'], s['fn'], s['kind'], s['ordinal'], s['snippet']
    # ---------------- compile time ----------------
    if f == 'chunk.rs':
        if 'From<u8>' in fn: return DYN("only caller is debug.rs (output-only features); on verified bytecode every opcode byte is < 65 (OpcodeTable.opcode_bytes_dense)")
        if fn == 'Chunk::code_offset': return L("ChunkLines.finalised_code_nonempty: the chunk of a call frame ends with Return, so code[0] exists")
    if f == 'compiler.rs':
        if 'From<usize>' in fn: return L("C05Tables.binary_prec_succ_ok")
        if fn == 'Compiler::mark_initialised': return DYN("index = locals.len()-1 taken in for_statement before parsing the iterable expression, which cannot pop locals of this compiler; C03 fuzzing")
        if fn == 'Compiler::mark_last_initialised': return DYN("invariant: locals always keeps slot 0 (Compiler::new; emit_scope_end never pops depth 0)")
        if fn == 'Compiler::patch_jump': return L("ChunkLines.patch_after_emit_ok") if o in (0, 2) else ARR2
        if fn == 'Parser::patch_offset_at': return L("ChunkLines.patch_offset_after_emit_ok") if o in (0, 2) else ARR2
        if fn == 'Compiler::pop_loop': return DYN("invariant: break_stack is pushed/popped together with loop_stack (push_loop/pop_loop paired in while_statement/for_statement)")
        if fn == 'Parser::finalise_compiler': return COMPILERS
        if fn == 'Parser::class_declaration' and k == 'index': return INF("take_attribute(name, 1) returns Some only when arguments.len() == 1")
        if fn == 'Parser::class_declaration' and k == 'unwrap': return DYN("invariant: class_compilers was pushed earlier in this call; nested class declarations push/pop in pairs")
        if fn == 'Parser::for_statement': return INF("current_loop_header() right after push_loop() in the same function")
        if fn in ('Parser::emit_bytes', 'Parser::emit_loop'): return ARR2
        if fn == 'Parser::emit_scope_end': return DYN("invariant: a local has depth None only while its own initialiser expression is parsed, and no scope ends inside an expression (lambdas use their own Compiler); C03 fuzzing")
        if fn == 'Parser::parse_precedence': return L("C05Tables.infix_defined_loop")
        if fn in ('Parser::declare_variable', 'Parser::compiler', 'Parser::compiler_mut'): return COMPILERS
        if fn == 'Parser::get_rule': return L("C05Tables.rules_cover_token_kinds")
        if fn == 'Parser::error_at': return WRITE_STR
        if fn == 'Parser::resolve_upvalue': return DYN("guard: compilers.len() >= 2 checked first; enclosing < len-1, compiler < len, index returned by resolve_local of that same compiler")
        if fn == 'Parser::binary_assign': return DYN("guard in callers: only called after match_binary_assignment() consumed one of the ten compound-assignment tokens the match lists")
        if fn == 'Parser::super_' and k == 'unwrap': return INF("else-branch of class_compilers.is_empty()")
        if fn == 'Parser::super_' and k == 'index': return DYN("invariant: locals always keeps slot 0 (Compiler::new)")
    if f == 'scanner.rs':
        if fn == 'Scanner::read_escaped_bytes': return DYN("guard: num_bytes == 1 and the loop above pushed exactly one byte or returned Err")
        return SCAN
    # ---------------- debug ----------------
    if f == 'debug.rs': return DEBUG
    # ---------------- run time ----------------
    if f == 'core.rs':
        if fn in ('bind_type_class', 'bind_gc_obj_string_class'): return START
        if fn == 'string_from_utf8': return L("C13.no_fault (callStatic from_utf8: valid_up_to() < len)")
        if k == 'slice': return C13
        if k == 'expect': return F4
    if f == 'hash.rs': return DYN("only write_u64 (Value::hash) and the usize length prefix of a tuple's Vec reach write(): 8 bytes on the 64-bit targets considered")
    if f == 'memory.rs':
        if fn == 'Root::gc_box' or fn.startswith('UniqueRoot::'): return L("C16.roots_exact: an object with a live Root/UniqueRoot is never swept")
        if fn == 'Gc::gc_box': return L("C01.c01_collect_safe: an object reachable from the roots is never freed (residual: F3)")
        if fn == 'Heap::allocate_raw' and k == 'unwrap': return INF("objects.last() right after objects.push(); only under feature debug_trace_gc")
        if fn == 'Heap::allocate_raw': return INF("pointer into a fresh Box::pin is non-null; the box stays pinned in Heap.objects")
        if 'GcManaged' in fn: return INF("i ranges over 0..self.len()")
    if f == 'object.rs':
        if 'Display' in fn: return DYN("Display of an upvalue cell: cells are not first-class values, only debug formatting reaches it")
        if fn in ('ObjUpvalue::get', 'ObjUpvalue::set'): return LED("F3")
        if fn in ('ObjVecIter::next', 'ObjTupleIter::next'): return INF("guard on the same index immediately before (C13.no_fault elemIterNext)")
        if fn == 'ObjFiber::close_upvalues' and k == 'index': return DYN("index <= stack height; equals STACK_MAX (index panic) only if the value stack is exactly full (F6 territory)")
        if fn == 'ObjFiber::close_upvalues' and k == 'unwrap': return INF("is_some() tested in the loop condition")
        if fn == 'ObjFiber::close_upvalues_for_frame': return FRAME
        if fn == 'ObjFiber::is_new': return INF("frames.len() == 1 && short-circuit")
        if fn == 'ObjFiber::store_error_ip_or': return FRAME
        if 'native_frame_slot' in fn: return DYN("host API Vm::native_arg / unchecked_native_arg: the index is the host's responsibility (built-ins use peek); native_arity is set by call_native around every native call")
    if f == 'stack.rs':
        if k == 'panic!': return GUARD
        if fn == 'Stack::push': return LED("F6")
        if fn == 'Stack::len': return INF("top and stack.as_ptr() point into the same boxed array")
        if fn in ('Stack::peek', 'Stack::peek_mut', 'Stack::pop', 'Stack::truncate'): return STACKPTR
        if k == 'slice': return DYN("0..len() with len() <= N unless an unchecked build overflowed the stack (F6)")
        if 'Index' in fn: return VB
    if f == 'value.rs': return L("C12.unhashable_rejected_unchanged: every map operation checks has_hash() first; chunk constants are numbers, strings and functions")
    if f == 'vm.rs':
        if fn in ('Vm::get_class', 'Vm::run'): return GUARD if k in ('unreachable!', 'panic!') else VB
        if fn == 'Vm::new_gc_obj_string': return DYN("invariant: string_class is assigned in Vm::new before the first string is interned and is never written again")
        if fn == 'Vm::pop': return VB
        if fn == 'Vm::load_fiber': return FRAME if k == 'unwrap' else INF("is_new() just returned true: frames.len() == 1")
        if fn == 'Vm::unload_fiber': return INF("guarded by !has_finished() on the line above") if o == 0 else DUAL
        if fn in ('Vm::read_byte', 'Vm::read_short', 'Vm::read_constant', 'Vm::read_string',
                  'Vm::jump_impl', 'Vm::jump_if_false_impl', 'Vm::jump_if_stop_iter', 'Vm::loop_impl',
                  'Vm::push_exc_handler_impl', 'Vm::jump_finally_impl', 'Vm::build_tuple_impl',
                  'Vm::build_vec_impl', 'Vm::build_hash_map'): return VB
        if fn in ('Vm::get_local_impl', 'Vm::set_local_impl', 'Vm::get_upvalue_impl', 'Vm::set_upvalue_impl'):
            return FRAME if k == 'unwrap' else VB
        if fn in ('Vm::get_super_impl', 'Vm::super_invoke_impl'): return DYN("the popped value is the hidden local 'super', stored by Inherit after its is-a-class check; relies on correct local addressing (cf. F23); value kinds are not tracked by the C04 verifier")
        if fn == 'Vm::set_item_impl': return L("C13.no_fault (setItem: try_as_bounded_index < len)")
        if fn == 'Vm::build_string_impl': return DYN("compiler shape: every operand of BuildString is a string constant or the result of FormatString; value kinds are not tracked by the C04 verifier")
        if fn == 'Vm::closure_impl': return FRAME if k == 'unwrap' else VB
        if fn == 'Vm::return_impl': return FRAME
        if fn in ('Vm::define_class_impl', 'Vm::inherit_impl', 'Vm::define_method'): return CLASSDEF
        if fn == 'Vm::finish_import_impl': return DYN("compiler shape: FinishImport runs right after the imported module body returned onto [module, result]; value kinds are not tracked by the C04 verifier")
        if fn in ('Vm::string_get_item', 'Vm::tuple_get_item', 'Vm::vec_get_item') and k == 'expect':
            return INF("only called from get_item_impl's match arm for that variant of peek(1)")
        if fn in ('Vm::string_get_item', 'Vm::slice_get_item'): return L("C13.no_fault (getItem)")
        if fn in ('Vm::invoke_from_class', 'Vm::bind_method'): return DYN("invariant: method tables only ever receive ObjClosure (Method/StaticMethod operand = the closure just built) or ObjNative (core.rs build_methods)")
        if fn in ('Vm::call_closure', 'Vm::load_frame'): return FRAME
        if fn == 'Vm::unwind_stack': return L("C08.unwind_contract: a handler's frame_count is >= 1 and <= the current frame count")
        if fn == 'Vm::runtime_error': return L("ChunkLines.trace_line_in_range") if k == 'index' else WRITE_STR
        if fn == 'Vm::capture_upvalue': return INF("is_some() tested in the loop condition") if k == 'unwrap' else VB
        if fn == 'Vm::build_range': return INF("range_cache.len() >= RANGE_CACHE_SIZE = 8 > 0, stale_pos comes from enumerate()")
        if fn in ('Vm::init_heap_allocated_data', 'Vm::init_built_in_globals'): return START
        if fn in ('Vm::active_fiber', 'Vm::active_fiber_mut'): return DUAL
        if fn.startswith('string_store::'):
            return INF("is_none() => continue just before") if k == 'unwrap' else C11
    raise SystemExit("no rule for %r" % (s,))

def lean_str(x): return '"' + x.replace('\\', '\\\\').replace('"', '\\"') + '"'
def lean_disp(d):
    t = d[0]
    if t == 'vb': return '.excludedByVerifiedBytecode'
    if t == 'lemma': return '.excludedByLemma ' + lean_str(d[1])
    if t == 'guard': return '.guardedCheckedBuild'
    if t == 'startup': return '.startupOnly'
    if t == 'ledger': return '.ledger ' + lean_str(d[1])
    if t == 'dyn': return '.dynamicOnly ' + lean_str(d[1])
    if t == 'inf': return '.infallible ' + lean_str(d[1])

def camel(f): return f.replace('.rs','').replace('_',' ').title().replace(' ','')
files = []
for s_ in sites:
    if s_['file'] not in files: files.append(s_['file'])
out = []
for f in files:
    ss = [s_ for s_ in sites if s_['file'] == f]
    out.append('/-- %s: %d sites -/' % (f, len(ss)))
    out.append('def sites%s : List Entry :=' % camel(f))
    first = True
    for s_ in ss:
        out.append('  %s (%s, %s, %s, %d, %s)' % ('[' if first else ',', lean_str(s_['file']), lean_str(s_['fn']), lean_str(s_['kind']), s_['ordinal'], lean_disp(disp(s_))))
        first = False
    out.append('  ]')
    out.append('')
print('\n'.join(out))
