#!/usr/bin/env python3
# Cross-check driver answers against expectations taken by hand from /repo/yarel/tests/scripts/string/*.yl
import struct, subprocess, sys
def n(x): return '%016x' % struct.unpack('>Q', struct.pack('>d', float(x)))[0]
def h(s):
    b = s.encode('utf-8') if isinstance(s, str) else bytes(s)
    return b.hex() if b else '-'
def N(x): return 'n:' + n(x)
def S(s): return 's:' + h(s)
def V(xs): return 'v:' + ','.join(n(x) for x in xs)
cases = []
def t(req, exp): cases.append((req, exp))
s = "foo🎅bar🎄baz"
# char_byte_index.yl
exp = [0,1,2,3,7,8,9,10,14,15,16]
for i,e in zip(range(-11,0), exp): t(f"str char_byte_index {h(s)} {N(i)}", f"ok {N(e)}")
for i,e in zip(range(0,11), exp): t(f"str char_byte_index {h(s)} {N(i)}", f"ok {N(e)}")
t(f"str char_byte_index {h(s)} {S('eh')}", "err TypeError expected_integer")
t(f"str char_byte_index {h(s)} {N(12)}", "err IndexError index_out_of_bounds String")
t(f"str char_byte_index {h(s)} {N(-12)}", "err IndexError index_out_of_bounds String")
# count_chars
t(f"str count_chars {h('Hello! 🙂')}", f"ok {N(8)}")
t(f"str count_chars {h('Hello! 🙂')} {N(4)}", "err TypeError num_args 0 1")
# ends_with
t(f"str ends_with - {S('')}", "ok b:true")
t(f"str ends_with {h('🎁 Presents!')} {S('s!')}", "ok b:true")
t(f"str ends_with {h('Presents!')} {S('🎄')}", "ok b:false")
t(f"str ends_with {h('🎄 Presents!')} {S('nts')}", "ok b:false")
t(f"str ends_with {h('🎄 Presents!')} {S('🎁')}", "ok b:false")
t(f"str ends_with -", "err TypeError num_args 1 0")
t(f"str ends_with - b:false", "err TypeError expected_string")
# find
s2 = "Hello, World! 🙂"
t(f"str find {h(s2)} {S('e')} {N(0)}", f"ok {N(1)}")
t(f"str find {h(s2)} {S('l')} {N(0)}", f"ok {N(2)}")
t(f"str find {h(s2)} {S('l')} {N(4)}", f"ok {N(10)}")
t(f"str find {h(s2)} {S('🙂')} {N(0)}", f"ok {N(14)}")
t(f"str find {h(s2)} {S('?')} {N(0)}", "ok nil")
t(f"str find - {S('')} {N(0)}", "err ValueError cannot_find_empty")
t(f"str find - {S('a')} nil", "err TypeError expected_integer")
t(f"str find - nil {N(0)}", "err TypeError expected_string")
t(f"str find - {S('a')}", "err TypeError num_args 2 1")
t(f"str find {h(s)} {S('a')} {N(4)}", "err IndexError not_char_boundary string_index")
t(f"str find {h('some string')} {S('i')} {N(12)}", "err IndexError index_out_of_bounds String")
t(f"str find {h('some string')} {S('i')} {N(-12)}", "err IndexError index_out_of_bounds String")
# from_ascii
t(f"sfn from_ascii {V([72,101,108,108,111,33,32,240,159,153,130])}", f"ok {S('Hello! ðßÙÂ')}")
t(f"sfn from_ascii {N(1)} {N(2)}", "err TypeError num_args 1 2")
t(f"sfn from_ascii {V([-1])}", "err ValueError expected_byte")
t(f"sfn from_ascii", "err TypeError num_args 1 0")
t(f"sfn from_ascii {V([128.5])}", "err ValueError expected_byte")
t(f"sfn from_ascii v:b:true", "err TypeError expected_number")
t(f"sfn from_ascii {S('some arg')}", "err TypeError expected_vec")
t(f"sfn from_ascii {V([256])}", "err ValueError expected_byte")
# from_code_points
t(f"sfn from_code_points {V([72,101,108,108,111,33,32,128578])}", f"ok {S('Hello! 🙂')}")
t(f"sfn from_code_points {V([12312425])}", "err ValueError invalid_code_point 12312425")
t(f"sfn from_code_points {N(1)} {N(2)}", "err TypeError num_args 1 2")
t(f"sfn from_code_points {V([-1])}", "err ValueError expected_u32")
t(f"sfn from_code_points", "err TypeError num_args 1 0")
t(f"sfn from_code_points {V([1234.5])}", "err ValueError expected_u32")
t(f"sfn from_code_points v:b:true", "err TypeError expected_number")
t(f"sfn from_code_points {S('not a vector')}", "err TypeError expected_vec")
t(f"sfn from_code_points {V([1e24])}", "err ValueError expected_u32")
# from_utf8
t(f"sfn from_utf8 {V([72,101,108,108,111,33,32,240,159,153,130])}", f"ok {S('Hello! 🙂')}")
t(f"sfn from_utf8 {V([72,105,32,240,159,1,130])}", "err ValueError invalid_unicode 240 3")
t(f"sfn from_utf8 {N(1)} {N(2)}", "err TypeError num_args 1 2")
t(f"sfn from_utf8 {V([-1])}", "err ValueError expected_byte")
t(f"sfn from_utf8", "err TypeError num_args 1 0")
t(f"sfn from_utf8 {V([123.4])}", "err ValueError expected_byte")
t(f"sfn from_utf8 v:b:true", "err TypeError expected_number")
t(f"sfn from_utf8 {S('not a vec')}", "err TypeError expected_vec")
t(f"sfn from_utf8 {V([256])}", "err ValueError expected_byte")
# from_value
t("sfn from nil", f"ok {S('nil')}")
t("sfn from b:true", f"ok {S('true')}")
t("sfn from b:false", f"ok {S('false')}")
t(f"sfn from {N(42)}", "unsupported from")
# index
s3 = "🙁😐🙂"
for i, e in [(-12,"🙁"),(-8,"😐"),(-4,"🙂"),(0,"🙁"),(4,"😐"),(8,"🙂")]:
    t(f"idx str {h(s3)} {n(i)}", f"ok {S(e)}")
t(f"idx str {h(s3)} {n(3)}", "err IndexError not_char_boundary string_index")
t(f"idx str {h('abcd')} {n(20)}", "err IndexError index_out_of_bounds String")
t(f"idx str {h('abcd')} {n(-20)}", "err IndexError index_out_of_bounds String")
# is_*
t("str is_alpha -", "ok b:false"); t(f"str is_alpha {h('abc')}", "ok b:true"); t(f"str is_alpha {h('ab1')}", "ok b:false")
t("str is_digit -", "ok b:false"); t(f"str is_digit {h('123')}", "ok b:true"); t(f"str is_digit {h('12a')}", "ok b:false")
t("str is_hexdigit -", "ok b:false"); t(f"str is_hexdigit {h('0123456789abcdef')}", "ok b:true"); t(f"str is_hexdigit {h('123abcg')}", "ok b:false")
# iteration
t(f"iter {h('abc😊def')}", "ok v:" + ",".join(S(c) for c in "abc😊def"))
# len
t(f"str len {h('Hello! 🙂')}", f"ok {N(11)}")
t(f"str len {h('Hello! 🙂')} {N(4)}", "err TypeError num_args 0 1")
# replace
w = "woot! 🙂"
t(f"str replace {h(w)} {S('o')} {S('0')}", f"ok {S('w00t! 🙂')}")
t(f"str replace {h(w)} {S('oo')} {S('a')}", f"ok {S('wat! 🙂')}")
t(f"str replace {h('wat! 🙂')} {S(' 🙂')} {S('?')}", f"ok {S('wat!?')}")
t(f"str replace - {S('')} nil", "err ValueError cannot_replace_empty")
t(f"str replace - nil {S('')}", "err TypeError expected_string")
t(f"str replace - {S('a')}", "err TypeError num_args 2 1")
t(f"str replace - {S('a')} nil", "err TypeError expected_string")
# slice
t(f"rng str {h('abcdefg')} {n(1)} {n(4)}", f"ok {S('bcd')}")
t(f"rng str {h(s3)} {n(8)} {n(12)}", f"ok {S('🙂')}")
t(f"rng str {h('abcdefg')} {n(3)} {n(1)}", f"ok {S('')}")
t(f"rng str {h(s3)} {n(4)} {n(10)}", "err IndexError not_char_boundary string_slice_end")
t(f"rng str {h(s3)} {n(0)} {n(16)}", "err IndexError slice_end_out_of_range String")
t(f"rng str {h(s3)} {n(0)} {n(-16)}", "err IndexError slice_end_out_of_range String")
t(f"rng str {h(s3)} {n(6)} {n(8)}", "err IndexError not_char_boundary string_slice_start")
t(f"rng str {h(s3)} {n(16)} {n(8)}", "err IndexError slice_start_out_of_range String")
t(f"rng str {h(s3)} {n(-16)} {n(8)}", "err IndexError slice_start_out_of_range String")
# split
sp1 = "a, b,1, two,?. \n🎁"
t(f"str split {h(sp1)} {S(',')}", "ok v:" + ",".join(S(x) for x in ["a"," b","1"," two","?. \n🎁"]))
sp2 = "this is a\nmulti-line\nstring"
t(f"str split {h(sp2)} {S(chr(10))}", "ok v:" + ",".join(S(x) for x in ["this is a","multi-line","string"]))
t(f"str split - {S('')}", "err ValueError cannot_split_empty")
t(f"str split -", "err TypeError num_args 1 0")
t(f"str split - b:false", "err TypeError expected_string")
# starts_with
t(f"str starts_with - {S('')}", "ok b:true")
t(f"str starts_with {h('🎁 Presents!')} {S('🎁')}", "ok b:true")
t(f"str starts_with {h('Presents!')} {S('🎄')}", "ok b:false")
t(f"str starts_with {h('🎄 Presents!')} {S('Pres')}", "ok b:false")
t(f"str starts_with {h('🎄 Presents!')} {S('🎁')}", "ok b:false")
t(f"str starts_with -", "err TypeError num_args 1 0")
t(f"str starts_with - b:false", "err TypeError expected_string")
# to_bytes / to_code_points
t(f"str to_bytes {h('Hello! 🙂')}", "ok v:" + ",".join(N(x) for x in [72,101,108,108,111,33,32,240,159,153,130]))
t(f"str to_code_points {h('Hello! 🙂')}", "ok v:" + ",".join(N(x) for x in [72,101,108,108,111,33,32,128578]))
t(f"str to_num {h('123')}", "unsupported to_num")
# extra (Rust semantics known from std docs)
t(f"str split - {S(',')}", "ok v:s:-")
t(f"str split {h('a,b,')} {S(',')}", "ok v:s:61,s:62,s:-")
t(f"str replace {h('aaa')} {S('aa')} {S('b')}", f"ok {S('ba')}")
t(f"idx vec 3 {n(-1)}", f"ok {N(2)}")
t(f"idx tuple 3 {n(3)}", "err IndexError index_out_of_bounds Tuple")
t(f"idx vec 3 {n(1.5)}", "err ValueError expected_integer")
t(f"idx vec 3 {n(float('nan'))}", "err ValueError expected_integer")
t(f"idx vec 3 {n(float('inf'))}", "err IndexError index_out_of_bounds Vec")
t(f"idx vec 3 {n(-0.0)}", f"ok {N(0)}")
t(f"rng vec 5 {n(1)} {n(3)}", "ok v:" + ",".join(N(x) for x in [1,2]))
t(f"rng tuple 5 {n(-2)} {n(5)}", "ok t:" + ",".join(N(x) for x in [3,4]))
t(f"rng vec 0 {n(0)} {n(0)}", "err IndexError slice_start_out_of_range Vec")
t(f"rng vec 5 {n(0.5)} {n(float('nan'))}", "err ValueError expected_integer")
inp = "\n".join(r for r,_ in cases) + "\n"
out = subprocess.run(["/tmp/agents/c13/.lake/build/bin/yarel_model","str"], input=inp, capture_output=True, text=True).stdout.split("\n")
bad = 0
for (r,e),o in zip(cases,out):
    if e != o:
        bad += 1
        print("MISMATCH", r, "\n   expected", e, "\n   got     ", o)
print(len(cases), "cases,", bad, "mismatches")
