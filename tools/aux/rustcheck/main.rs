// Generates request lines (req.txt) and the answers real Rust gives (exp.txt) for the Lean driver
// `yarel_model num`.  No dependencies.
use std::fmt::Write as _;
use std::fs::File;
use std::io::{BufWriter, Write};

struct Rng(u64);
impl Rng {
    fn next(&mut self) -> u64 {
        self.0 = self.0.wrapping_add(0x9E3779B97F4A7C15);
        let mut z = self.0;
        z = (z ^ (z >> 30)).wrapping_mul(0xBF58476D1CE4E5B9);
        z = (z ^ (z >> 27)).wrapping_mul(0x94D049BB133111EB);
        z ^ (z >> 31)
    }
    fn below(&mut self, n: u64) -> u64 {
        self.next() % n
    }
}

struct Out {
    req: BufWriter<File>,
    exp: BufWriter<File>,
    n: usize,
}

fn hex(s: &[u8]) -> String {
    if s.is_empty() {
        return "-".to_string();
    }
    let mut o = String::new();
    for b in s {
        write!(o, "{:02x}", b).unwrap();
    }
    o
}

fn fbits(f: f64) -> String {
    if f.is_nan() { "nan".to_string() } else { format!("{:016x}", f.to_bits()) }
}

fn yarel_display(f: f64) -> String {
    if f == 0.0 && f.is_sign_negative() { "-0".to_string() } else { format!("{}", f) }
}

impl Out {
    fn emit(&mut self, req: &str, exp: &str) {
        writeln!(self.req, "{}", req).unwrap();
        writeln!(self.exp, "{}", exp).unwrap();
        self.n += 1;
    }
    fn print(&mut self, b: u64) {
        let f = f64::from_bits(b);
        self.emit(&format!("print {:016x}", b), &hex(yarel_display(f).as_bytes()));
    }
    fn parse(&mut self, s: &[u8]) {
        let r = match std::str::from_utf8(s) {
            Ok(t) => match t.parse::<f64>() {
                Ok(f) => fbits(f),
                Err(_) => "err".to_string(),
            },
            Err(_) => "err".to_string(),
        };
        self.emit(&format!("parse {}", hex(s)), &r);
    }
    fn bin(&mut self, op: &str, x: u64, y: u64) {
        let a = f64::from_bits(x);
        let b = f64::from_bits(y);
        let r = match op {
            "add" => fbits(a + b),
            "sub" => fbits(a - b),
            "mul" => fbits(a * b),
            "div" => fbits(a / b),
            "mod" => fbits(a % b),
            "lt" => format!("{}", a < b),
            "gt" => format!("{}", a > b),
            "eq" => format!("{}", a == b),
            "band" => fbits(((a as i64) & (b as i64)) as f64),
            "bor" => fbits(((a as i64) | (b as i64)) as f64),
            "bxor" => fbits(((a as i64) ^ (b as i64)) as f64),
            "shl" => fbits((a as i64).checked_shl(b as u32).unwrap_or_default() as f64),
            "shr" => fbits((a as i64).checked_shr(b as u32).unwrap_or_default() as f64),
            _ => unreachable!(),
        };
        self.emit(&format!("bin {} {:016x} {:016x}", op, x, y), &r);
    }
    fn un(&mut self, op: &str, x: u64) {
        let a = f64::from_bits(x);
        let r = match op {
            "neg" => fbits(-a),
            "bnot" => fbits(!(a as i64) as f64),
            _ => unreachable!(),
        };
        self.emit(&format!("un {} {:016x}", op, x), &r);
    }
    fn ofint(&mut self, i: i128) {
        self.emit(&format!("ofint {}", i), &fbits(i as f64));
    }
    fn toisize(&mut self, x: u64) {
        let a = f64::from_bits(x);
        self.emit(&format!("toisize {:016x}", x), &format!("{}", a as isize));
    }
}

// ---- tiny decimal bignum (little-endian base-10 digits) for exact expansions ----
fn big_from(mut n: u128) -> Vec<u8> {
    let mut v = vec![];
    if n == 0 {
        v.push(0);
    }
    while n > 0 {
        v.push((n % 10) as u8);
        n /= 10;
    }
    v
}
fn big_mul_small(v: &mut Vec<u8>, k: u32) {
    let mut carry: u64 = 0;
    for d in v.iter_mut() {
        let t = (*d as u64) * (k as u64) + carry;
        *d = (t % 10) as u8;
        carry = t / 10;
    }
    while carry > 0 {
        v.push((carry % 10) as u8);
        carry /= 10;
    }
}
/// exact decimal text of n * 2^e (n < 2^100)
fn exact_dec(n: u128, e: i32) -> String {
    let mut v = big_from(n);
    if e >= 0 {
        for _ in 0..e {
            big_mul_small(&mut v, 2);
        }
        let s: String = v.iter().rev().map(|d| (b'0' + d) as char).collect();
        s
    } else {
        let k = (-e) as usize;
        for _ in 0..k {
            big_mul_small(&mut v, 5);
        }
        // value = v / 10^k
        while v.len() <= k {
            v.push(0);
        }
        let digits: String = v.iter().rev().map(|d| (b'0' + d) as char).collect();
        let ip = &digits[..digits.len() - k];
        let fp = &digits[digits.len() - k..];
        format!("{}.{}", ip, fp)
    }
}

fn decode(b: u64) -> (u64, i32) {
    let e = ((b >> 52) & 0x7ff) as i32;
    let m = b & 0xfffffffffffff;
    if e == 0 { (m, -1074) } else { (m | (1 << 52), e - 1075) }
}

fn interesting_bits(rng: &mut Rng) -> Vec<u64> {
    let mut v: Vec<u64> = vec![
        0,
        0x8000000000000000,
        0x7ff0000000000000,
        0xfff0000000000000,
        0x7ff8000000000000,
        0xfff8000000000000,
        0x7ff0000000000001,
        0x7fffffffffffffff,
        0xffffffffffffffff,
        1,
        2,
        3,
        0x000fffffffffffff,
        0x0010000000000000,
        0x0010000000000001,
        0x7fefffffffffffff,
        0x7feffffffffffffe,
        0xffefffffffffffff,
    ];
    for &f in &[
        0.1f64, 0.2, 0.3, 0.5, 1.0, 1.5, 2.0, 2.5, 3.0, 5.5, -2.0, 10.0, 100.0, 1e21, 1e22, 1e23, 1e-7, 1e-5,
        1.0 / 3.0, 2.0 / 3.0, 123456.789, 4294967295.0, 4294967296.0, 4294967297.0, 4294967295.5, 2147483648.0,
        63.0, 64.0, 65.0, 31.0, 32.0, 0.9999999999999999, 1.0000000000000002, 9007199254740991.0,
        9007199254740992.0, 9007199254740994.0, 9223372036854775807.0, 9223372036854775808.0,
        9223372036854774784.0, 9223372036854777856.0, 18446744073709551615.0, 1e15, 1e16, 1e17, 123.0,
        5e-324, 1.7976931348623157e308, 2.2250738585072014e-308, 2.225073858507201e-308,
        1125899906842624.25, 1125899906842624.75, 1125899906842625.25, 2251799813685248.5, 2251799813685249.5,
        562949953421312.125, 562949953421312.375, 562949953421312.625, 562949953421312.875,
    ] {
        v.push(f.to_bits());
        v.push((-f).to_bits());
        v.push(f.to_bits() + 1);
        v.push(f.to_bits() - 1);
    }
    for e in 0..2047u64 {
        v.push(e << 52);
        v.push((e << 52) | 1);
        if e > 0 {
            v.push((e << 52) - 1);
        }
    }
    for k in -330..=310 {
        let s = format!("1e{}", k);
        let f: f64 = s.parse().unwrap();
        if f.is_finite() && f > 0.0 {
            let b = f.to_bits();
            v.push(b);
            v.push(b + 1);
            v.push(b.wrapping_sub(1));
        }
    }
    for _ in 0..200 {
        v.push(rng.next());
    }
    v
}

fn main() {
    let args: Vec<String> = std::env::args().collect();
    let scale: u64 = if args.len() > 1 { args[1].parse().unwrap() } else { 1 };
    let mut o = Out {
        req: BufWriter::new(File::create("req.txt").unwrap()),
        exp: BufWriter::new(File::create("exp.txt").unwrap()),
        n: 0,
    };
    let seed: u64 = if args.len() > 2 { args[2].parse().unwrap() } else { 0x1234_5678_9abc_def0 };
    let mut rng = Rng(seed);
    let ints = interesting_bits(&mut rng);

    // ---------- print ----------
    for &b in &ints {
        o.print(b);
    }
    for m in 0..3000u64 {
        o.print(m);
        o.print(m | (1 << 63));
    }
    for _ in 0..60000 * scale {
        o.print(rng.next());
    }
    for _ in 0..20000 * scale {
        // small integers and short decimals
        let i = rng.below(2_000_000) as f64 - 1_000_000.0;
        o.print(i.to_bits());
        let d = [1.0, 10.0, 100.0, 1000.0, 1e4, 1e5, 1e6, 1e7, 1e8][rng.below(9) as usize];
        o.print((i / d).to_bits());
        let j = rng.next() >> (rng.below(64));
        o.print((j as f64).to_bits());
        o.print((j as f64 / d).to_bits());
    }
    for _ in 0..20000 * scale {
        // exponents near 0 .. 2^64
        let e = 1023 - 70 + rng.below(140);
        let m = rng.next() & 0xfffffffffffff;
        let m = if rng.below(3) == 0 { m & !((1u64 << rng.below(52)) - 1) } else { m };
        o.print((rng.below(2) << 63) | (e << 52) | m);
    }
    // tie candidates: 2^50 + k/4 style (17 digits, ulp 1/4 etc.)
    for _ in 0..5000 * scale {
        let e = 1023 + 44 + rng.below(9);
        let m = rng.next() & 0xfffffffffffff;
        o.print((e << 52) | m);
    }

    // ---------- parse ----------
    let fixed: Vec<&[u8]> = vec![
        b"", b".", b"+", b"-", b"e5", b"1e", b"1e+", b"1e-", b"1_0", b" 1", b"1 ", b"0x10", b"infinit", b"nan(",
        b"in", b"NaNa", b"+.e1", b".e1", b"1.2.3", b"1e5.5", b"--1", b"+-1", b"1e--5", b"1.", b".5", b"+1", b"-1",
        b"1e400", b"1e-400", b"-1e400", b"-1e-400", b"inf", b"-inf", b"+inf", b"INF", b"Inf", b"infinity",
        b"INFINITY", b"iNfInItY", b"-Infinity", b"+infinity", b"nan", b"NaN", b"NAN", b"-nan", b"+nan", b"nAn",
        b"infinityx", b"infx", b"nanx", b"0", b"-0", b"+0", b"0.0", b"-0.0", b"00", b"000.000", b"0e0", b"0e999999",
        b"0e-999999", b"0.e1", b".0e1", b"1e0", b"1E0", b"1e+0", b"1e-0", b"1e00005", b"1e+00005", b"1e-00005",
        b"1e99999", b"1e-99999", b"1e65535", b"1e65536", b"1e-65536", b"1e655359", b"1e999999999999999999999",
        b"1e-999999999999999999999", b"0.1", b"0.2", b"0.3", b"0.30000000000000004", b"9007199254740993",
        b"9007199254740992", b"9007199254740991", b"9007199254740995", b"9007199254740994.999999",
        b"9007199254740993.000000000000000000000000001", b"1.7976931348623157e308", b"1.7976931348623158e308",
        b"1.7976931348623159e308", b"1.797693134862315807e308", b"1.797693134862315808e308",
        b"179769313486231580793728971405303415079934132710037826936173778980444968292764750946649017977587207096330286416692887910946555547851940402630657488671505820681908902000708383676273854845817711531764475730270069855571366959622842914819860834936475292719074168444365510704342711559699508093042880177904174497791",
        b"179769313486231580793728971405303415079934132710037826936173778980444968292764750946649017977587207096330286416692887910946555547851940402630657488671505820681908902000708383676273854845817711531764475730270069855571366959622842914819860834936475292719074168444365510704342711559699508093042880177904174497792",
        b"4.9e-324", b"5e-324", b"2.4703282292062327e-324", b"2.4703282292062328e-324", b"2.47032822920623272e-324",
        b"2.5e-324", b"2e-324", b"3e-324", b"7.4e-324", b"7.5e-324", b"2.2250738585072014e-308",
        b"2.2250738585072011e-308", b"2.225073858507201e-308", b"1e23", b"8.41e21", b"1e22", b"1e21",
        b"123456789012345678901234567890", b"0.000000000000000000000000000001", b"1e-7", b"1e+7", b"1E7", b"1e7",
        b"\xc3\xa9", b"1\xc2\xa0", b"\xd9\xa1", b"1e\xd9\xa1", b"1,5", b"1.5f", b"1.5d", b"1e5e5", b"e", b"E", b".e",
        b"-.5", b"+.5", b"-5.", b"+5.", b"-.", b"+.", b"1..", b"..1", b"1.e", b"1.e+", b"-e1", b"Nan", b"naN", b"iNf",
        b"-", b"+e1", b"1+1", b"1-1", b"1e1+", b"1e1-", b"1e1.", b"infinit\xc3\xa9", b"\0", b"1\0", b"\t1", b"1\n",
    ];
    for s in &fixed {
        o.parse(s);
    }
    // zeros padded mantissa to cross 1e5 / 65536 exponent saturation is out of scope; moderate lengths only
    for _ in 0..30000 * scale {
        let b = rng.next();
        let f = f64::from_bits(b);
        if !f.is_finite() {
            continue;
        }
        o.parse(format!("{}", f).as_bytes());
        o.parse(format!("{:e}", f).as_bytes());
        let p = rng.below(25) as usize;
        o.parse(format!("{:.*e}", p, f).as_bytes());
        o.parse(format!("{:.*E}", p, f).as_bytes());
    }
    for _ in 0..30000 * scale {
        // near 1: fixed notation with p digits
        let e = 1023 - 40 + rng.below(120);
        let m = rng.next() & 0xfffffffffffff;
        let f = f64::from_bits((rng.below(2) << 63) | (e << 52) | m);
        let p = rng.below(30) as usize;
        o.parse(format!("{:.*}", p, f).as_bytes());
        o.parse(format!("{}", f).as_bytes());
    }
    // random digit strings
    for _ in 0..40000 * scale {
        let mut s = String::new();
        match rng.below(6) {
            0 => s.push('-'),
            1 => s.push('+'),
            _ => {}
        }
        let ni = match rng.below(8) {
            0 => 0,
            1 => rng.below(400),
            2 => rng.below(40),
            _ => rng.below(20),
        };
        let lead0 = if rng.below(5) == 0 { rng.below(5) } else { 0 };
        for _ in 0..lead0 {
            s.push('0');
        }
        for _ in 0..ni {
            s.push((b'0' + rng.below(10) as u8) as char);
        }
        if rng.below(3) != 0 {
            s.push('.');
            let nf = match rng.below(8) {
                0 => 0,
                1 => rng.below(400),
                2 => rng.below(40),
                _ => rng.below(20),
            };
            let z = if rng.below(4) == 0 { rng.below(30) } else { 0 };
            for _ in 0..z {
                s.push('0');
            }
            for _ in 0..nf {
                s.push((b'0' + rng.below(10) as u8) as char);
            }
        }
        if rng.below(2) == 0 {
            s.push(if rng.below(2) == 0 { 'e' } else { 'E' });
            match rng.below(4) {
                0 => s.push('-'),
                1 => s.push('+'),
                _ => {}
            }
            let x = match rng.below(6) {
                0 => rng.below(400),
                1 => rng.below(5000),
                2 => 300 + rng.below(30),
                _ => rng.below(40),
            };
            if rng.below(50) != 0 {
                if rng.below(10) == 0 {
                    s.push_str("00");
                }
                write!(s, "{}", x).unwrap();
            }
        }
        // occasionally corrupt
        if rng.below(40) == 0 && !s.is_empty() {
            let pos = rng.below(s.len() as u64 + 1) as usize;
            let junk = ['x', ' ', '_', '.', 'e', '-', '+', 'i', 'n'][rng.below(9) as usize];
            s.insert(pos, junk);
        }
        o.parse(s.as_bytes());
    }
    // exact midpoints between adjacent doubles and their neighbourhoods (very long digit strings)
    for i in 0..6000 * scale {
        let b = match i % 4 {
            0 => rng.next() & 0x7fffffffffffffff,
            1 => rng.below(1 << 53),                                  // subnormal / tiny
            2 => ((1023 - 60 + rng.below(200)) << 52) | (rng.next() & 0xfffffffffffff),
            _ => ((rng.below(2046) + 1) << 52) | [0u64, 1, 0xfffffffffffff, 0xffffffffffffe][rng.below(4) as usize],
        };
        let f = f64::from_bits(b);
        if !f.is_finite() {
            continue;
        }
        let (m, e) = decode(b);
        let mid = exact_dec(2 * (m as u128) + 1, e - 1);
        o.parse(mid.as_bytes());
        // slightly above: append a digit
        let mut up = mid.clone();
        if !up.contains('.') {
            up.push('.');
        }
        for _ in 0..rng.below(30) {
            up.push('0');
        }
        up.push('1');
        o.parse(up.as_bytes());
        // slightly below: exact value of (2m+1)*2^(e-1) - tiny  => use ((2m+1)*2^k - 1) * 2^(e-1-k)
        let k = 20 + rng.below(40) as i32;
        let below = exact_dec(((2 * (m as u128) + 1) << k) - 1, e - 1 - k);
        o.parse(below.as_bytes());
        // the exact value of the double itself
        o.parse(exact_dec(m as u128, e).as_bytes());
        // scientific re-spelling of the midpoint: shift the point by a random exponent
        let sh = rng.below(700) as i64 - 350;
        let mut t = mid.clone();
        write!(t, "e{}", sh).unwrap();
        o.parse(t.as_bytes());
    }

    // ---------- binary ops ----------
    let ops = ["add", "sub", "mul", "div", "mod", "lt", "gt", "eq", "band", "bor", "bxor", "shl", "shr"];
    let small: Vec<u64> = ints.iter().cloned().filter(|_| true).take(110).collect();
    for &x in &small {
        for &y in &small {
            for op in &ops {
                o.bin(op, x, y);
            }
        }
    }
    for _ in 0..15000 * scale {
        let x = pick(&mut rng, &ints);
        let y = match rng.below(4) {
            0 => pick(&mut rng, &ints),
            1 => {
                // close exponent
                let ex = ((x >> 52) & 0x7ff) as i64;
                let ey = (ex + rng.below(120) as i64 - 60).clamp(0, 2046) as u64;
                (rng.below(2) << 63) | (ey << 52) | (rng.next() & 0xfffffffffffff)
            }
            2 => x ^ (rng.below(8)) ^ (rng.below(2) << 63),
            _ => pick(&mut rng, &ints),
        };
        for op in &ops {
            o.bin(op, x, y);
        }
    }
    // integer-flavoured operands for bit ops / shifts / mod
    for _ in 0..15000 * scale {
        let a = (rng.next() >> rng.below(64)) as i64;
        let a = if rng.below(2) == 0 { a.wrapping_neg() } else { a };
        let x = (a as f64 + if rng.below(4) == 0 { 0.5 } else { 0.0 }).to_bits();
        let y = match rng.below(5) {
            0 => (rng.below(80) as f64 - 8.0).to_bits(),
            1 => (rng.below(80) as f64 + 0.75).to_bits(),
            2 => ((rng.next() >> rng.below(64)) as i64 as f64).to_bits(),
            3 => (-((rng.next() >> rng.below(64)) as f64)).to_bits(),
            _ => pick(&mut rng, &ints),
        };
        for op in &ops {
            o.bin(op, x, y);
        }
    }
    // ---------- unary / casts ----------
    for &x in &ints {
        o.un("neg", x);
        o.un("bnot", x);
        o.toisize(x);
    }
    for _ in 0..10000 * scale {
        let x = pick(&mut rng, &ints);
        o.un("neg", x);
        o.un("bnot", x);
        o.toisize(x);
        let e = 1023 + 40 + rng.below(30);
        let y = (rng.below(2) << 63) | (e << 52) | (rng.next() & 0xfffffffffffff);
        o.un("bnot", y);
        o.toisize(y);
    }
    for &i in &[
        0i128, 1, -1, 9007199254740991, 9007199254740992, 9007199254740993, 9007199254740994, 9007199254740995,
        -9007199254740993, i64::MAX as i128, i64::MIN as i128, u64::MAX as i128, (i64::MAX as i128) - 511,
        (i64::MAX as i128) - 512, (i64::MAX as i128) - 513, u32::MAX as i128, i128::MAX, i128::MIN + 1,
        1i128 << 100, (1i128 << 100) + (1i128 << 47), (1i128 << 100) + (1i128 << 47) + 1,
    ] {
        o.ofint(i);
    }
    for _ in 0..20000 * scale {
        let a = (rng.next() >> rng.below(64)) as i64;
        let a = if rng.below(2) == 0 { a.wrapping_neg() } else { a };
        o.ofint(a as i128);
        let w = ((rng.next() as u128) << 64 | rng.next() as u128) >> rng.below(128);
        o.ofint(w as i128);
    }
    o.emit("frobnicate 1 2", "bad-op");
    o.emit("bin pow 0000000000000000 0000000000000000", "bad-op");
    o.emit("un sqrt 0000000000000000", "bad-op");
    o.emit("print xyz", "bad-op");
    o.emit("", "bad-op");
    eprintln!("{} cases", o.n);
}

fn pick(rng: &mut Rng, ints: &[u64]) -> u64 {
    match rng.below(3) {
        0 => ints[rng.below(ints.len() as u64) as usize],
        _ => rng.next(),
    }
}
