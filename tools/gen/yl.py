"""Generators of Yarel programs (source text), one profile per property area.

Every random choice comes from the SplitMix state handed in, so a case regenerates from (seed, index).
Profiles return a dict {"src": str, "modules": {name: src}, "tags": [..]}; the tags feed the printed input
distribution in the evidence.  The `avoid` set names ledger entries (known findings still open in the code)
whose shapes a profile must not produce, e.g. {"F13", "F14", "F23", "F24"}.
"""

OPEN_FINDINGS = {"F13", "F14", "F39", "F23", "F24", "F25", "F26", "F27", "F3", "F4", "F5", "F6", "F7"}

NUMS = ["0", "1", "2", "3", "7", "10", "255", "0.5", "1.5", "2.25", "100", "1000000", "3.75", "12345.678"]
STRS = ['""', '"a"', '"ab"', '"héllo"', '"x y"', '"€"', '"😀z"', '"12"', '"3.5"']
BINOPS_NUM = ["+", "-", "*", "/", "%", "&", "|", "^", "<<", ">>"]
CMPOPS = ["<", "<=", ">", ">=", "==", "!="]


def ind(lines, n=1):
    pad = "    " * n
    return [pad + l for l in lines]


class G:
    def __init__(self, rng, avoid=None):
        self.r = rng
        self.avoid = OPEN_FINDINGS if avoid is None else avoid
        self.tags = set()
        self.uid = 0

    def fresh(self, p="v"):
        self.uid += 1
        return "%s%d" % (p, self.uid)

    def tag(self, t):
        self.tags.add(t)

    # ------------------------------------------------------------------ expressions
    def num(self):
        return self.r.choice(NUMS)

    def string(self):
        return self.r.choice(STRS)

    def atom(self, env):
        """env: list of (name, kind). Any-kind atom."""
        k = self.r.below(10)
        if k < 3 and env:
            return self.r.choice(env)[0]
        if k < 6:
            return self.num()
        if k < 8:
            return self.string()
        return self.r.choice(["true", "false", "nil", "[1, 2]", "(1, 2)", "[]", "1..4", "{1: 2}"])

    def num_expr(self, env, depth):
        nums = [n for n, k in env if k == "num"]
        if depth <= 0 or self.r.chance(1, 4):
            if nums and self.r.chance(1, 2):
                return self.r.choice(nums)
            return self.num()
        k = self.r.below(8)
        if k < 5:
            op = self.r.choice(BINOPS_NUM)
            self.tag("op" + op)
            return "%s %s %s" % (self.num_expr(env, depth - 1), op, self.num_expr(env, depth - 1))
        if k == 5:
            self.tag("paren")
            return "(%s)" % self.num_expr(env, depth - 1)
        if k == 6:
            op = self.r.choice(["-", "~"])
            self.tag("unary" + op)
            # a space keeps "- -x" from being lexed oddly
            return "%s(%s)" % (op, self.num_expr(env, depth - 1))
        self.tag("len")
        return "%s.len()" % self.string()

    def any_expr(self, env, depth):
        """Expressions mixing kinds, so TypeErrors happen."""
        if depth <= 0 or self.r.chance(1, 5):
            return self.atom(env)
        k = self.r.below(14)
        if k < 4:
            op = self.r.choice(BINOPS_NUM + ["+"])
            self.tag("op" + op)
            return "%s %s %s" % (self.any_expr(env, depth - 1), op, self.any_expr(env, depth - 1))
        if k < 6:
            op = self.r.choice(CMPOPS)
            self.tag("cmp" + op)
            return "%s %s %s" % (self.any_expr(env, depth - 1), op, self.any_expr(env, depth - 1))
        if k < 8:
            op = self.r.choice(["&&", "||"])
            self.tag("logic" + op)
            return "%s %s %s" % (self.any_expr(env, depth - 1), op, self.any_expr(env, depth - 1))
        if k == 8:
            self.tag("not")
            return "!%s" % self.paren(self.any_expr(env, depth - 1))
        if k == 9:
            self.tag("neg")
            return "-%s" % self.paren(self.any_expr(env, depth - 1))
        if k == 10:
            self.tag("index")
            return "%s[%s]" % (self.paren(self.any_expr(env, depth - 1)), self.any_expr(env, depth - 1))
        if k == 11:
            self.tag("interp")
            return '"<${%s}|${%s}>"' % (self.any_expr(env, depth - 1), self.num_expr(env, 1))
        if k == 12:
            self.tag("range")
            return "%s..%s" % (self.paren(self.num_expr(env, 0)), self.paren(self.num_expr(env, 0)))
        self.tag("paren")
        return "(%s)" % self.any_expr(env, depth - 1)

    def paren(self, e):
        return e if e.replace("_", "a").isalnum() else "(" + e + ")"

    def guarded_print(self, expr):
        """print(expr) that survives a runtime error and reports its class name."""
        return ["try { print(%s); } catch e { print(type(e)); }" % expr]

    # ------------------------------------------------------------------ C05 programs
    def prog_expr(self):
        self.tag("profile:expr")
        lines = ["var a = %s;" % self.num(), "var b = %s;" % self.num(), "var s = %s;" % self.string(),
                 "var t = true;", "var n = nil;", "var vv = [1, 2, 3];"]
        env = [("a", "num"), ("b", "num"), ("s", "str"), ("t", "bool"), ("n", "nil"), ("vv", "vec")]
        for _ in range(4 + self.r.below(5)):
            k = self.r.below(6)
            if k < 2:
                lines += self.guarded_print(self.num_expr(env, 3))
            elif k < 4:
                lines += self.guarded_print(self.any_expr(env, 3))
            elif k == 4:
                op = self.r.choice(["+=", "-=", "*=", "/=", "%=", "&=", "|=", "^=", "<<=", ">>="])
                self.tag("compound" + op)
                # F24: nested parenthesised/call sub-expressions with low-precedence operators on the RHS
                rhs = self.num_expr(env, 1) if "F24" in self.avoid else self.any_expr(env, 2)
                if "F24" in self.avoid:
                    rhs = rhs.replace("(", "").replace(")", "") if ("==" in rhs or "<" in rhs) else rhs
                v = self.r.choice(["a", "b"])
                lines.append("try { %s %s %s; print(%s); } catch e { print(type(e)); }" % (v, op, rhs, v))
            else:
                lines += self.eval_order_probe()
        return lines

    def eval_order_probe(self):
        self.tag("evalorder")
        f = self.fresh("tr")
        op = self.r.choice(["+", "-", "*", "<", "==", "&&", "||", ".."])
        vals = [self.r.choice(["1", "2", "0", "true", "false", "nil"]) for _ in range(3)]
        return ["fn %s(tag, v) { print(tag); return v; }" % f,
                "try { print(%s(\"L\", %s) %s %s(\"M\", %s) %s %s(\"R\", %s)); } catch e { print(type(e)); }" % (
                    f, vals[0], op, f, vals[1], op, f, vals[2])]

    def prog_control(self):
        self.tag("profile:control")
        lines = ["var out = [];", "var i = 0;"]
        body = self.stmts([("i", "num")], 3, in_loop=False, in_fn=False)
        lines += body
        lines.append("print(out);")
        return lines

    def stmts(self, env, depth, in_loop, in_fn):
        out = []
        for _ in range(1 + self.r.below(4)):
            out += self.stmt(list(env), depth, in_loop, in_fn)
        return out

    def stmt(self, env, depth, in_loop, in_fn):
        k = self.r.below(12)
        if depth <= 0 or k < 3:
            self.tag("push")
            return ["out.push(%s);" % self.num_expr(env, 1)]
        if k < 5:
            self.tag("if")
            c = "%s %s %s" % (self.num_expr(env, 1), self.r.choice(CMPOPS), self.num_expr(env, 1))
            res = ["if %s {" % c] + ind(self.stmts(env, depth - 1, in_loop, in_fn))
            if self.r.chance(1, 2):
                self.tag("else")
                if self.r.chance(1, 3):
                    self.tag("elseif")
                    res += ["} else if %s {" % ("%s < %s" % (self.num_expr(env, 0), self.num_expr(env, 0)))] + ind(
                        self.stmts(env, depth - 1, in_loop, in_fn))
                res += ["} else {"] + ind(self.stmts(env, depth - 1, in_loop, in_fn))
            return res + ["}"]
        if k < 7:
            self.tag("while")
            c = self.fresh("c")
            n = 1 + self.r.below(4)
            body = self.stmts(env + [(c, "num")], depth - 1, True, in_fn)
            return ["{", "    var %s = 0;" % c, "    while %s < %d {" % (c, n), "        %s = %s + 1;" % (c, c)] + ind(
                body, 2) + ["    }", "}"]
        if k < 9:
            self.tag("for")
            x = self.fresh("x")
            it = self.r.choice(["0..3", "3..0", "[1, 2, 3]", "(4, 5)", '"aé"', "[]", "2..2"])
            kind = "str" if it.startswith('"') else "num"
            body = self.stmts(env + ([(x, "num")] if kind == "num" else []), depth - 1, True, in_fn)
            if kind == "str":
                body = ["out.push(%s);" % x] + body
            return ["for %s in %s {" % (x, it)] + ind(body) + ["}"]
        if k == 9 and in_loop:
            self.tag("break/continue")
            c = "%s %s %s" % (self.num_expr(env, 0), self.r.choice(CMPOPS), self.num_expr(env, 0))
            return ["if %s { %s; }" % (c, self.r.choice(["break", "continue"]))]
        if k == 10:
            self.tag("block+var")
            v = self.fresh("l")
            return ["{", "    var %s = %s;" % (v, self.num_expr(env, 1))] + ind(
                self.stmts(env + [(v, "num")], depth - 1, in_loop, in_fn)) + ["}"]
        if k == 11 and in_fn:
            self.tag("return")
            return ["if %s < %s { return %s; }" % (self.num_expr(env, 0), self.num_expr(env, 0), self.num_expr(env, 1))]
        self.tag("fn")
        f = self.fresh("f")
        p = self.fresh("p")
        body = self.stmts(env + [(p, "num")], depth - 1, False, True)
        return ["fn %s(%s) {" % (f, p)] + ind(body) + ["    return %s;" % p, "}", "out.push(%s(%s));" % (f, self.num_expr(env, 1))]

    # ------------------------------------------------------------------ C06 closures
    def prog_closures(self):
        self.tag("profile:closures")
        lines = []
        k = self.r.below(7)
        if k == 0:
            self.tag("counter-pair")
            lines += ["fn make() {", "    var n = %s;" % self.num(), "    fn inc() { n = n + 1; return n; }",
                      "    fn get() { return n; }", "    return [inc, get];", "}",
                      "var p = make(); var q = make();"]
            for _ in range(3 + self.r.below(4)):
                lines.append(self.r.choice(["print(p[0]());", "print(p[1]());", "print(q[0]());", "print(q[1]());"]))
        elif k == 1:
            self.tag("loop-capture")
            kind = self.r.choice(["for", "while"])
            lines += ["var fs = [];"]
            if kind == "for":
                lines += ["for i in 0..%d {" % (2 + self.r.below(3)), "    var j = i * 10;",
                          "    fs.push(|| { j = j + 1; return j + i; });", "}"]
            else:
                lines += ["var i = 0;", "while i < 3 {", "    var j = i * 10;", "    fs.push(|| { j = j + 1; return j; });",
                          "    i = i + 1;", "}"]
            lines += ["for f in fs { print(f()); }", "for f in fs { print(f()); }"]
        elif k == 2:
            self.tag("three-level")
            lines += ["fn outer() {", "    var x = 1;", "    var y = 2;", "    fn middle() {", "        var z = 3;",
                      "        fn inner() { x = x + y + z; y = y * 2; return x; }", "        z = 30;",
                      "        return inner;", "    }", "    var m = middle();", "    x = 100;",
                      "    return [m, || x, || y];", "}",
                      "var r = outer();", "print(r[0]());", "print(r[1]());", "print(r[2]());", "print(r[0]());",
                      "print(r[1]());"]
        elif k == 3:
            self.tag("shadowing")
            v = self.num()
            lines += ["var x = \"global\";", "fn show() { return x; }", "{", "    var x = %s;" % v, "    print(x);",
                      "    {", "        var x = \"inner\";", "        print(x);", "        var g = || x;",
                      "        x = \"inner2\";", "        print(g());", "    }", "    print(x);", "    print(show());", "}",
                      "print(x);"]
        elif k == 4:
            self.tag("param-capture+order")
            lines += ["fn mk(a, b, c) {", "    var f = || c;", "    var g = || a;", "    var h = |v| { b = v; return a + b + c; };",
                      "    a = a + 1;", "    return [g, f, h, || b];", "}", "var r = mk(1, 2, 3);",
                      "print(r[0]());", "print(r[1]());", "print(r[2](10));", "print(r[3]());"]
        elif k == 5:
            self.tag("exit-paths")
            exitk = self.r.choice(["return", "break", "continue", "fall"])
            if exitk == "break" and "F21" in self.avoid:
                exitk = "return"
            lines += ["var keep = [];", "fn run() {", "    for i in 0..4 {", "        var loc = i;",
                      "        keep.push(|| { loc = loc + 100; return loc; });"]
            # locals declared AFTER the captured one and never captured themselves: the body is left with a mix of both on the stack
            pads = self.r.below(3)
            for pi in range(pads):
                lines.append("        var pad%d = i * %d;" % (pi, pi + 2))
            if pads and self.r.chance(1, 2):
                lines.append("        fn helper() { return loc + 1000; }")
                lines.append("        keep.push(helper);")
                lines.append("        var last = pad0;")
            if exitk == "return":
                lines += ["        if i == 2 { return \"ret\"; }"]
            elif exitk == "break":
                lines += ["        if i == 2 { break; }"]
            elif exitk == "continue":
                lines += ["        if i == 1 { continue; }", "        var extra = i * 2;", "        keep.push(|| extra + loc);"]
            lines += ["    }", "    var after = \"after\";", "    return after;", "}", "print(run());",
                      "for f in keep { print(f()); }", "for f in keep { print(f()); }"]
        else:
            self.tag("escape-field")
            lines += ["#[constructor(new)]", "class Box {}", "var b = Box.new();",
                      "{", "    var hidden = 5;", "    b.get = || hidden;", "    b.set = |v| { hidden = v; };", "}",
                      "print(b.get());", "b.set(9);", "print(b.get());",
                      "var m = {\"k\": b.get};", "print(m.get(\"k\")());"]
        return lines

    # ------------------------------------------------------------------ C07 classes
    def prog_classes(self):
        self.tag("profile:classes")
        depth = 1 + self.r.below(4)
        lines = []
        names = ["A", "B", "C", "D"][:depth]
        methods = ["m1", "m2", "m3"]
        if self.r.chance(1, 3):
            self.tag("overrides-builtin-derives")
            methods = methods + ["derives"]      # a user method with the name of Object's built-in one: nearest definition wins all the same
        defined = {}
        extra = {}
        statics = {}
        for i, n in enumerate(names):
            attrs = ["constructor(new)"]
            if i > 0:
                attrs.append("derive(%s)" % names[i - 1])
            lines.append("#[%s]" % ", ".join(attrs))
            lines.append("class %s {" % n)
            mine = [m for m in methods if self.r.chance(1, 2)] or ["m1"]
            defined[n] = mine
            if self.r.chance(1, 2):
                self.tag("explicit-ctor")
                lines += ["    #[constructor]", "    fn new(self, v) {"]
                if i > 0 and self.r.chance(1, 2) and self.has_ctor_arg(names[i - 1], lines):
                    self.tag("super-ctor")
                    lines.append("        super.new(v);")
                lines += ["        self.tag = \"%s:\" + v;" % n, "    }"]
            for m in mine:
                body = ["        var r = \"%s.%s(\" + x + \")\";" % (n, m)]
                if i > 0 and any(m in defined[a] for a in names[:i]) and self.r.chance(1, 2):
                    self.tag("super-call")
                    body.append("        r = r + \">\" + super.%s(x);" % m)
                body.append("        return r;")
                lines += ["    fn %s(self, x) {" % m] + body + ["    }"]
            if self.r.chance(1, 3):
                self.tag("static")
                lines += ["    #[static]", "    fn make(x) { return Self.new%s; }" % ("(x)" if self.ctor_takes_arg(n, lines) else "()")]
            if self.r.chance(1, 2):
                # static methods that reach the superclass's static method: the receiver handed on must be the class the call came through
                if i > 0 and any("who" in statics.get(a, []) for a in names[:i]) and self.r.chance(2, 3):
                    self.tag("super-in-static")
                    lines += ["    #[static]", "    fn who() { return \"%s>\" + super.who(); }" % n]
                else:
                    self.tag("static-who")
                    lines += ["    #[static]", "    fn who() { return \"%s:\" + String.from(Self); }" % n]
                statics.setdefault(n, []).append("who")
            if self.r.chance(1, 2):
                self.tag("bound-super")
                if i > 0 and any("m1" in defined[a] for a in names[:i]):
                    lines += ["    fn grab(self) { return super.m1; }"]
                    extra.setdefault(n, []).append("grab")
            if i > 0 and self.r.chance(1, 2):
                up = self.r.choice(methods)
                if any(up in defined[a] for a in names[:i]):
                    self.tag("super-from-other-method")
                    lines += ["    fn up(self, x) { return \"%s.up>\" + super.%s(x); }" % (n, up)]
                    extra.setdefault(n, []).append("up")
            lines.append("}")
        lines.append("var objs = [];")
        for n in names:
            arg = "(\"v\")" if self.ctor_takes_arg(n, lines) else "()"
            lines.append("objs.push(%s.new%s);" % (n, arg))
        for n in names:
            for m in methods:
                k = self.r.below(4)
                o = "objs[%d]" % names.index(n)
                if k == 0:
                    self.tag("invoke")
                    lines += self.guarded_print("%s.%s(\"a\")" % (o, m))
                elif k == 1:
                    self.tag("get-then-call")
                    lines += ["try { var f = %s.%s; print(f(\"b\")); } catch e { print(type(e)); print(e.context); }" % (o, m)]
                elif k == 2:
                    self.tag("arity")
                    lines += ["try { print(%s.%s(%s)); } catch e { print(type(e)); print(e.context); }" % (
                        o, m, self.r.choice(["", "1, 2"]))]
                else:
                    self.tag("field-shadows-method")
                    lines += ["%s.%s = |x| \"field:\" + x;" % (o, m)] + self.guarded_print("%s.%s(\"c\")" % (o, m))
        # methods that reach the superclass from another method, called on EVERY object that has them (own or inherited), after the
        # field shadowing above: the receiver's dynamic class and its fields must not matter to `super`
        for j, n in enumerate(names):
            o = "objs[%d]" % j
            have = [x for a in names[:j + 1] for x in extra.get(a, [])]
            if "up" in have:
                lines += self.guarded_print("%s.up(\"u\")" % o)
            if "grab" in have:
                lines += ["try { var g = %s.grab(); print(g(\"g\")); } catch e { print(type(e)); print(e.context); }" % o]
        # static methods through the class that defines or inherits nothing of them (statics are not inherited through the class value:
        # only the defining classes are asked), and constructors / `derives` taken as VALUES through an instance: they stay bound to it
        for j, n in enumerate(names):
            if "who" in statics.get(n, []):
                lines += self.guarded_print("%s.who()" % n)
            if self.r.chance(1, 3):
                self.tag("ctor-as-value")
                arg = "(\"w\")" if self.ctor_takes_arg(n, lines) else "()"
                lines += ["try { var k = objs[%d].new; var r = k%s; print(r == objs[%d]); print(type(r)); } catch e { print(type(e)); print(e.context); }" % (j, arg, j)]
            if self.r.chance(1, 3) and "derives" not in methods:
                self.tag("derives-as-value")
                lines += ["try { var d = objs[%d].derives; print(d(%s)); print(d(%s)); } catch e { print(type(e)); print(e.context); }" % (j, names[0], names[-1])]
        if self.r.chance(1, 2):
            self.tag("rebinding")
            lines += ["var %s_old = %s;" % (names[0], names[0]), "%s = nil;" % names[0]]
            lines += self.guarded_print("objs[%d].m1(\"z\")" % (len(names) - 1))
        if self.r.chance(1, 3):
            self.tag("bad-superclass")
            lines += ["try {", "    var NotClass = %s;" % self.r.choice(["1", "nil", '"s"']), "    #[derive(NotClass)]",
                      "    class Bad {}", "} catch e { print(type(e)); print(e.context); }"]
        return lines

    def ctor_takes_arg(self, cls, lines):
        """True iff class `cls` itself declares new(self, v) (its #[constructor(new)] default is then replaced)."""
        text = "\n".join(lines)
        i = text.find("class %s {" % cls)
        if i < 0:
            return False
        j = text.find("\n}", i)
        body = text[i:j if j >= 0 else len(text)]
        return "fn new(self, v)" in body

    def has_ctor_arg(self, cls, lines):
        return self.ctor_takes_arg(cls, lines)

    # ------------------------------------------------------------------ C08 exceptions
    def throw_site(self):
        k = self.r.below(8)
        self.tag("throw%d" % k)
        z = self.fresh("z")
        return [
            'throw "boom";',
            "throw 42;",
            "var %s = nil + 1;" % z,
            "var %s = [1][5];" % z,
            'var %s = "abc".nosuch();' % z,
            "undefined_name;",
            'throw Error.new("bad");',
            'deep(3);',
        ][k]

    def prog_exceptions(self):
        self.tag("profile:exceptions")
        lines = ["fn deep(n) { if n == 0 { throw \"deep\"; } deep(n - 1); }",
                 "fn show(e) { if type(e) == String || type(e) == Num { return String.from(e); } return \"${type(e)}:${e.context}\"; }"]
        lines += self.try_block(3, in_fn=False, in_loop=False)
        lines.append('print("end");')
        return lines

    def try_block(self, depth, in_fn, in_loop):
        self.try_depth = getattr(self, "try_depth", 0) + 1
        try:
            return self._try_block(depth, in_fn, in_loop)
        finally:
            self.try_depth -= 1

    def _try_block(self, depth, in_fn, in_loop):
        has_catch = self.r.chance(3, 4)
        has_finally = (not has_catch) or self.r.chance(1, 2)
        wrap = (not has_catch) or self.r.chance(1, 2)
        if getattr(self, "force_wrap", 0) > 0:
            wrap = True       # generated inside a catch block whose try has a finally: nothing may propagate out of it (ledger F14)
        lab = self.fresh("T")
        body = ['print("%s:try");' % lab]
        if wrap:
            self.try_depth += 1     # the statement is wrapped in one more try below
        body += self.exc_stmts(depth - 1, in_fn, in_loop, in_try=True)
        if wrap:
            self.try_depth -= 1
        out = ["try {"] + ind(body)
        if has_catch:
            cb = ['print("%s:catch " + show(e));' % lab]
            if depth > 1 and self.r.chance(1, 3):
                self.tag("nested-in-catch")
                guard = has_finally and "F14" in self.avoid
                if guard:
                    self.force_wrap = getattr(self, "force_wrap", 0) + 1
                try:
                    # (no return/break/continue out of such a catch block either: ledger F39)
                    cb += self.try_block(depth - 1, in_fn and not guard, in_loop and not guard)
                finally:
                    if guard:
                        self.force_wrap -= 1
            if self.r.chance(1, 5) and not (has_finally and "F14" in self.avoid):
                self.tag("rethrow")
                cb.append("throw e;")
            out += ["} catch e {"] + ind(cb)
        if has_finally:
            self.tag("finally")
            fb = ['print("%s:finally");' % lab]
            if "F23" not in self.avoid and self.r.chance(1, 3):
                fb = ["var fl = 1;"] + fb + ["print(fl);"]
            out += ["} finally {"] + ind(fb)
        out += ["}"]
        if wrap:
            # make sure a propagating exception is caught somewhere so the program continues
            out = ["try {"] + ind(out) + ["} catch e {", '    print("%s:outer " + show(e));' % lab, "}"]
        return out

    def exc_stmts(self, depth, in_fn, in_loop, in_try):
        out = []
        for _ in range(1 + self.r.below(3)):
            k = self.r.below(9)
            if k < 2:
                out.append(self.throw_site())
                if self.r.chance(1, 2):
                    out.append('print("unreachable?");')
            elif k == 2 and depth > 0:
                self.tag("nested-try")
                out += self.try_block(depth, in_fn, in_loop)
            elif k == 3 and depth > 0:
                self.tag("fn-in-try")
                f = self.fresh("g")
                saved, self.try_depth = getattr(self, "try_depth", 0), 0
                body = self.exc_stmts(depth - 1, True, False, False)
                self.try_depth = saved
                out += ["fn %s() {" % f] + ind(body) + ["    return \"%s-ret\";" % f, "}", "print(%s());" % f]
            elif k == 4 and depth > 0:
                self.tag("loop-in-try")
                c = self.fresh("i")
                body = self.exc_stmts(depth - 1, in_fn, True, False)
                out += ["for %s in 0..2 {" % c] + ind(['print("it " + String.from(%s));' % c] + body) + ["}"]
            elif k == 5 and in_fn and not ("F27" in self.avoid and getattr(self, "try_depth", 0) >= 2):
                self.tag("return-in-try" if in_try else "return")
                out.append(self.r.choice(['if true { return "early"; }', "if true { return; }"]))
            elif k == 6 and in_loop and not (in_try and "F13" in self.avoid):
                self.tag("break-in-try" if in_try else "break")
                out.append("if true { %s; }" % self.r.choice(["break", "continue"]))
            elif k == 7:
                self.tag("closure-in-try")
                v = self.fresh("cv")
                out += ["var %s = 1;" % v, "var %s_f = || %s;" % (v, v), "%s = 2;" % v, "print(%s_f());" % v]
            else:
                out.append('print("step");')
        return out

    # ------------------------------------------------------------------ C09 fibers
    def prog_fibers(self):
        self.tag("profile:fibers")
        nf = 1 + self.r.below(3)
        names = ["fb%d" % i for i in range(nf)]
        takes = [self.r.chance(1, 2) for _ in names]
        out = ["fn show(e) { if type(e) == String || type(e) == Num { return String.from(e); } return \"${type(e)}:${e.context}\"; }",
               "var started = [%s];" % ", ".join("false" for _ in names),
               "var fibers = [];", "var shared = [];",
               "fn fcall(idx, takes, arg) {",
               "    var f = fibers[idx];",
               "    if !started[idx] { started[idx] = true; if takes { return f.call(arg); } return f.call(); }",
               "    return f.call(arg);",
               "}"]
        for i, f in enumerate(names):
            body = ['print("%s start " + String.from(%s));' % (f, "a" if takes[i] else "nil")]
            local = self.fresh("loc")
            body.append("var %s = %d;" % (local, i * 10))
            shares = self.r.chance(1, 2)
            if shares:
                # closures made BEFORE any yield keep sharing the fiber's local with the fiber across every later suspension
                self.tag("capture-before-yield")
                body.append("shared.push(|| %s); shared.push(|| { %s = %s + 100; return %s; });" % (local, local, local, local))
            for y in range(self.r.below(4)):
                k = self.r.below(5)
                if k == 1:
                    self.tag("yield-nested-frame")
                    body.append("fn inner%d_%d(v) { var r = Fiber.yield(v + 1); return r; }" % (i, y))
                    body.append('print("%s inner " + String.from(inner%d_%d(%s)));' % (f, i, y, local))
                elif k == 2 and i > 0:
                    self.tag("fiber-calls-fiber")
                    body.append('try { print("%s sub " + String.from(fcall(%d, %s, %d))); } catch e { print("%s sub err " + show(e)); }' % (
                        f, i - 1, "true" if takes[i - 1] else "false", y, f))
                elif k == 3:
                    self.tag("try-across-yield")
                    body.append('try { var r%d = Fiber.yield(%s); if r%d == "throw" { throw "from %s"; } } catch e { print("%s caught " + String.from(e)); } finally { print("%s fin"); }' % (
                        y, local, y, f, f, f))
                else:
                    self.tag("yield")
                    body.append('var w%d = Fiber.yield(%s); print("%s w " + String.from(w%d));' % (y, local, f, y))
                body.append("%s = %s + 1;" % (local, local))
                if shares and self.r.chance(1, 2):
                    body.append('print("%s local " + String.from(%s) + " shared " + String.from(shared[shared.len() - 2]()));' % (f, local))
            if self.r.chance(1, 12):
                self.tag("fiber-throws")
                body.append('throw "%s dies";' % f)
            body.append('return "%s done " + String.from(%s);' % (f, local))
            out += ["var %s = Fiber.new(|%s| {" % (f, "a" if takes[i] else "")] + ind(body) + ["});"]
        out.append("fibers = [%s];" % ", ".join(names))
        for s in range(3 + self.r.below(6)):
            i = self.r.below(nf)
            arg = self.r.choice(['"x%d"' % s, str(s), '"throw"'])
            out.append('try { if fibers[%d].has_finished() { print("%s finished"); } else { print("main <- " + String.from(fcall(%d, %s, %s))); } } catch e { print("main err " + show(e)); }' % (
                i, names[i], i, "true" if takes[i] else "false", arg))
            if self.r.chance(1, 3):
                out.append('for c in shared { print("shared " + String.from(c())); }')
        if "F16" not in self.avoid and self.r.chance(1, 2):
            self.tag("resume-without-arg")
            out += ['var fz = Fiber.new(|| { var g = Fiber.yield(1); print(g); return 2; });', "print(fz.call());", "print(fz.call());"]
        if self.r.chance(1, 3):
            self.tag("misuse-yield-root")
            out += ['try { Fiber.yield(1); } catch e { print("main err " + show(e)); }']
        if self.r.chance(1, 3):
            self.tag("reenter")
            out += ["var selfcall = nil;",
                    'selfcall = Fiber.new(|| { try { selfcall.call(); } catch e { print("re " + show(e)); } return 1; });',
                    "print(selfcall.call());"]
        if self.r.chance(1, 3):
            self.tag("wrong-arg-count")
            out += ['try { Fiber.new(|a| a).call(); } catch e { print("arity " + show(e)); }',
                    'try { Fiber.new(|| 1).call(1, 2); } catch e { print("arity " + show(e)); }']
        out.append('print("end");')
        return out

    # ------------------------------------------------------------------ C18 iteration
    def prog_iteration(self):
        self.tag("profile:iteration")
        lines = []
        its = ["[]", "[1]", "[3, 1, 2]", "()", "(7,)", "(1, 2, 3)", "0..0", "0..4", "4..0", "-2..2", '""', '"a"', '"aé€😀"',
               # one string per UTF-8 lead-byte class (C2-DF two bytes incl. D0-DF, E0-EF three, F0-F4 four) and mixtures
               '"дa!"', '"שלם"', '"߿ÿĀ"', '"ࠀ퟿"', '"𐀀􏿿z"']
        it = self.r.choice(its)
        k = self.r.below(8)
        isstr = it.startswith('"')
        lines.append("var src = %s;" % it)
        if k == 0:
            self.tag("plain-for")
            lines += ["for x in src { print(x); }", 'print("done");']
        elif k == 1:
            self.tag("adapters")
            chain = "src.iter()"
            for _ in range(1 + self.r.below(3)):
                if isstr:
                    step = self.r.choice([".map(|c| c + c)", ".filter(|c| c != \"a\")"])
                else:
                    step = self.r.choice([".map(|v| v * 2)", ".map(|v| v + 1)", ".filter(|v| v % 2 == 0)", ".filter(|v| v > 1)"])
                self.tag("adapter" + step[:7])
                chain += step
            fin = self.r.choice([".collect()", ".reduce(|a, b| a + b, %s)" % ('""' if isstr else "0")])
            lines.append("print(%s%s);" % (chain, fin))
        elif k == 2:
            self.tag("nested-same-iterable")
            lines += ["for x in src { for y in src { print(String.from(x) + \",\" + String.from(y)); } }"]
        elif k == 3:
            self.tag("shared-iterator")
            lines += ["var it = src.iter();", "for x in it { print(\"o \" + String.from(x)); for y in it { print(\"i \" + String.from(y)); break; } }",
                      "print(it.next().derives(StopIter));", "print(it.next().derives(StopIter));"]
        elif k == 4:
            self.tag("break-continue")
            at = self.r.below(3)
            lines += ["var n = 0;", "for x in src { n = n + 1; if n == %d { %s; } print(x); }" % (
                at + 1, self.r.choice(["break", "continue"])), "for x in src { print(\"again \" + String.from(x)); }"]
        elif k == 5:
            self.tag("user-iterator")
            limit = self.r.below(4)
            lines += ["class Count {", "    #[constructor]", "    fn new(self, n) { self.i = 0; self.n = n; }",
                      "    fn iter(self) { return self; }",
                      "    fn next(self) { if self.i >= self.n { return StopIter.new(); } self.i = self.i + 1; return self.i; }",
                      "}", "#[derive(Iter)]", "class Count2 {", "    #[constructor]", "    fn new(self, n) { self.i = 0; self.n = n; }",
                      "    fn next(self) { if self.i >= self.n { return StopIter.new(); } self.i = self.i + 1; return self.i * 10; }",
                      "}",
                      "for v in Count.new(%d) { print(v); }" % limit,
                      "print(Count2.new(%d).map(|v| v + 1).filter(|v| v > 11).collect());" % limit,
                      "fn early() { for v in Count.new(5) { if v == 2 { return v; } } return -1; }", "print(early());"]
        elif k == 6:
            # the protocol offered through closure-valued FIELDS (a record of closures, an instance given its own next/iter): a for loop,
            # calls by hand and the adapters must all see the same elements
            self.tag("field-iterator")
            limit = 1 + self.r.below(3)
            lines += ["#[constructor(new)]", "class Rec {}",
                      "fn record_iter(s) { var it = s.iter(); var r = Rec.new(); r.iter = || r; r.next = || it.next(); return r; }",
                      "class Count {", "    #[constructor]", "    fn new(self) { self.n = 0; }", "    fn iter(self) { return self; }",
                      "    fn next(self) { self.n = self.n + 1; return self.n; }", "}",
                      "fn take(c, limit) { var inner = c.next; var left = limit; c.next = || { if left == 0 { return StopIter.new(); } left = left - 1; return inner(); }; return c; }",
                      "for x in record_iter(src) { print(x); }",
                      "var byhand = record_iter(src); var h = byhand.next(); while !h.derives(StopIter) { print(\"hand \" + String.from(h)); h = byhand.next(); }",
                      "for x in take(Count.new(), %d) { print(x); }" % limit,
                      "print(MapIter.new(take(Count.new(), %d), |x| x * 2).collect());" % limit,
                      "var d = Count.new(); d.iter = || src.iter();", "for x in d { print(x); }"]
        else:
            self.tag("mutate-during-iteration")
            lines += ["var vec = [1, 2, 3];", "var seen = 0;",
                      "for v in vec { seen = seen + 1; print(v); if seen < 3 { %s } }" % self.r.choice(
                          ["vec.push(v * 10);", "vec.pop();", "vec[0] = 99;"]),
                      "print(vec);"]
        return lines

    # ------------------------------------------------------------------ C12-ish / data
    def prog_data(self):
        self.tag("profile:data")
        lines = ["var m = {};"]
        keys = ["1", "1.0", "0", '"a"', '"a" + ""', "true", "nil", "(1, 2)", "(1, (2, 3))", "String", "2"]
        if "F17" not in self.avoid:
            keys.append("-0")
        for _ in range(4 + self.r.below(8)):
            k = self.r.choice(keys)
            op = self.r.below(5)
            if op == 0:
                lines.append("print(m.insert(%s, %s));" % (k, self.num()))
            elif op == 1:
                lines.append("print(m.get(%s));" % k)
            elif op == 2:
                lines.append("print(m.has_key(%s));" % k)
            elif op == 3:
                lines.append("print(m.remove(%s));" % k)
            else:
                lines.append("print(m.len());")
        lines.append("try { m.insert([1], 2); } catch e { print(type(e)); }")
        lines.append("print(m.len());")
        return lines

    # ------------------------------------------------------------------ allocation-heavy (C01/C16)
    def prog_alloc(self, iters=None):
        self.tag("profile:alloc")
        n = iters or (20 + self.r.below(60))
        lines = ["#[constructor(new)]", "class Node { fn val(self) { return self.v; } }", "var keep = [];", "var total = 0;",
                 "fn mk(i) {", "    var n = Node.new(); n.v = i; n.next = nil; n.f = || i * 2; n.t = (i, \"s${i}\"); n.m = {i: [i]};",
                 "    return n;", "}",
                 "var i = 0;", "while i < %d {" % n, "    var n = mk(i);", "    var bm = n.val;", "    var it = [i, i + 1].iter();",
                 "    var r = i..(i + 2);", "    total = total + bm() + n.f() + it.next() + n.t[0] + n.m.get(i)[0];"]
        k = self.r.below(4)
        if k == 0:
            self.tag("keep-window")
            lines += ["    keep.push(n);", "    if keep.len() > 5 { keep = keep[1..6]; }"]
        elif k == 1:
            self.tag("fiber-garbage")
            lines += ["    var fb = Fiber.new(|| { var loc = [i]; Fiber.yield(loc); return loc; });", "    total = total + fb.call()[0];"]
        elif k == 2:
            self.tag("error-garbage")
            lines += ["    try { var z = nil + i; } catch e { total = total + e.context.len(); }"]
        else:
            self.tag("strings")
            lines += ["    var s = \"k${i}\" + \"x\";", "    total = total + s.len();"]
        lines += ["    i = i + 1;", "}", "print(total);", "print(keep.len());"]
        return lines

    def finish(self, lines, modules=None):
        return {"src": "\n".join(lines) + "\n", "modules": modules or {}, "tags": sorted(self.tags)}


PROFILES = {
    "expr": lambda g: g.prog_expr(),
    "control": lambda g: g.prog_control(),
    "closures": lambda g: g.prog_closures(),
    "classes": lambda g: g.prog_classes(),
    "exceptions": lambda g: g.prog_exceptions(),
    "fibers": lambda g: g.prog_fibers(),
    "iteration": lambda g: g.prog_iteration(),
    "data": lambda g: g.prog_data(),
    "alloc": lambda g: g.prog_alloc(),
}


def generate(rng, profile, avoid=None):
    if profile in ("typed", "typed-try"):
        from gen import typed
        seed = rng.below(1 << 62)
        return {"src": typed.make_program(seed, profile == "typed-try"), "modules": {}, "tags": ["profile:" + profile]}
    g = G(rng, avoid)
    lines = PROFILES[profile](g)
    return g.finish(lines)
