"""Typed whole-language program generator (written with the Lean reference interpreter, used as a differential workload):
programs are built from a typed grammar (numbers, strings, booleans, vectors, maps, closures, classes, fibers, iterators, loops with
break/continue, functions), one statement per line, mostly valid; with `with_try` also try/catch/finally statements in the shapes
the ledger does not cover (no nesting of try statements, no break/continue/return inside them, no throw inside catch, no uncaught
error after a caught `throw`).  Every random choice comes from one `random.Random` seeded from the check's SplitMix state."""
import random


class Gen:
    def __init__(self, rng, with_try):
        self.rng = rng; self.with_try = with_try
        self.lines = []; self.indent = 0
        self.scopes = [{}]      # name -> type
        self.counter = 0
        self.fn_depth = 0; self.loop_depth = 0; self.in_try = 0
        self.classes = []       # (name, ctor_arity, methods [(name, arity)], has_static)
        self.caught_throw = False
        self.counters = set()   # loop counters: readable, never assigned by generated statements

    def fresh(self, p="v"):
        self.counter += 1
        return f"{p}{self.counter}"
    def emit(self, s): self.lines.append("  " * self.indent + s)
    def vars_of(self, t):
        out = []
        for sc in self.scopes:
            for n, ty in sc.items():
                if ty == t: out.append(n)
        return out
    def declare(self, n, t): self.scopes[-1][n] = t
    def pick(self, xs): return self.rng.choice(xs)
    def chance(self, p): return self.rng.random() < p

    # ---------- expressions ----------
    def num(self, d=0):
        r = self.rng.random()
        vs = self.vars_of("num")
        if d > 3 or r < 0.3:
            if vs and self.chance(0.5): return self.pick(vs)
            return self.pick(["0", "1", "2", "3", "7", "10", "2.5", "0.1", "100", "255", "1000000", "3.75"])
        if r < 0.55:
            op = self.pick(["+", "-", "*", "/", "%", "&", "|", "^", "<<", ">>"])
            return f"({self.num(d+1)} {op} {self.num(d+1)})"
        if r < 0.6: return f"-{self.num(d+1)}"
        if r < 0.63: return f"~{self.num(d+1)}"
        if r < 0.7: return f"{self.str_(d+1)}.len()"
        if r < 0.75: return f"{self.vec(d+1)}.len()"
        if r < 0.8:
            fs = self.vars_of("fn1")
            if fs: return f"{self.pick(fs)}({self.num(d+1)})"
        if r < 0.85 and self.vars_of("vecnum"):
            return f"{self.pick(self.vars_of('vecnum'))}[0]"
        if r < 0.9: return f"{self.vec(d+1)}.iter().reduce(|a, b| a + b, 0)"
        if r < 0.93: return f'"{self.rng.randint(0, 999)}".to_num()'
        return self.any(d+1) if self.chance(0.15) else self.num(d+1)
    def simple_num(self):
        """right-hand side of a compound assignment: no comparison / logical operators inside (F24)"""
        vs = self.vars_of("num")
        atoms = ["1", "2", "3", "0.5", "10"] + vs[:3]
        r = self.rng.random()
        if r < 0.5: return self.pick(atoms)
        if r < 0.8: return f"{self.pick(atoms)} {self.pick(['+', '-', '*'])} {self.pick(atoms)}"
        if r < 0.9: return f"({self.pick(atoms)} + {self.pick(atoms)}) * 2"
        return f"[{self.pick(atoms)}, 4].len()"
    def str_(self, d=0):
        r = self.rng.random()
        vs = self.vars_of("str")
        if d > 3 or r < 0.35:
            if vs and self.chance(0.5): return self.pick(vs)
            return self.pick(['"a"', '"hello"', '""', '"x y"', '"héllo"', '"1,2,3"', '"Zz"'])
        if r < 0.55: return f"({self.str_(d+1)} + {self.str_(d+1)})"
        if r < 0.75: return f'"<${{{self.printable(d+1)}}}>"'
        if r < 0.82: return f"String.from({self.printable(d+1)})"
        if r < 0.88: return f'{self.str_(d+1)}.replace("l", "L")'
        if r < 0.93: return f"{self.str_(d+1)}[0..1]" if self.chance(0.5) else f'{self.str_(d+1)}.split(",")[0]'
        return self.any(d+1) if self.chance(0.15) else self.str_(d+1)
    def printable(self, d=0):
        """a value whose display text contains no memory address (its length is observable)"""
        r = self.rng.random()
        if r < 0.35: return self.num(d+1)
        if r < 0.55: return self.str_(d+1)
        if r < 0.7: return self.bool_(d+1)
        if r < 0.85: return self.vec(d+1)
        if r < 0.9: return "nil"
        return f"({self.num(d+2)}, {self.str_(d+2)})"
    def bool_(self, d=0):
        r = self.rng.random()
        if d > 3 or r < 0.25: return self.pick(["true", "false"])
        if r < 0.55: return f"({self.num(d+1)} {self.pick(['<', '<=', '>', '>=', '==', '!='])} {self.num(d+1)})"
        if r < 0.65: return f"({self.bool_(d+1)} {self.pick(['&&', '||'])} {self.bool_(d+1)})"
        if r < 0.72: return f"!{self.bool_(d+1)}"
        if r < 0.8: return f"({self.any(d+1)} == {self.any(d+1)})"
        if r < 0.88: return f'{self.str_(d+1)}.starts_with("h")'
        return f"{self.any(d+1)}.derives({self.pick(['Num', 'String', 'Object', 'Vec', 'Bool', 'Nil'])})"
    def vec(self, d=0):
        r = self.rng.random()
        vs = self.vars_of("vecnum")
        if vs and r < 0.4: return self.pick(vs)
        if d > 3 or r < 0.7: return "[" + ", ".join(self.num(d+2) for _ in range(self.rng.randint(0, 4))) + "]"
        if r < 0.8: return f"{self.vec(d+1)}.iter().map(|q| q * 2).collect()"
        if r < 0.9: return f"{self.vec(d+1)}.iter().filter(|q| q > 1).collect()"
        return f"(0..{self.rng.randint(0, 5)}).iter().collect()"
    def any(self, d=0):
        r = self.rng.random()
        if r < 0.3: return self.num(d+1)
        if r < 0.5: return self.str_(d+1)
        if r < 0.62: return self.bool_(d+1)
        if r < 0.7: return self.vec(d+1)
        if r < 0.75: return "nil"
        if r < 0.8: return f"({self.num(d+2)}, {self.str_(d+2)})"
        if r < 0.85: return "{" + ", ".join(f"{self.pick(['1', '2', chr(34)+'k'+chr(34), 'true', 'nil'])}: {self.num(d+2)}" for _ in range(self.rng.randint(0, 1))) + "}"
        if r < 0.88: return f"{self.rng.randint(0, 3)}..{self.rng.randint(0, 5)}"
        if r < 0.9: return f"type({self.any(d+2)})"
        if r < 0.93 and self.classes:
            c = self.pick(self.classes)
            return f"{c[0]}.new({', '.join(self.num(d+2) for _ in range(c[1]))})"
        names = [n for sc in self.scopes for n in sc]
        if names and r < 0.98: return self.pick(names)
        return self.pick(["print", "Num", "undefined_name"])

    # ---------- statements ----------
    def block(self, n, new_scope=True):
        if new_scope: self.scopes.append({})
        self.indent += 1
        for _ in range(n): self.stmt()
        self.indent -= 1
        if new_scope: self.scopes.pop()

    def stmt(self):
        r = self.rng.random()
        depth = self.indent
        if r < 0.16:
            t = self.pick(["num", "num", "str", "bool", "vecnum", "any"])
            e = {"num": self.num, "str": self.str_, "bool": self.bool_, "vecnum": self.vec, "any": self.any}[t]()
            n = self.fresh()
            self.emit(f"var {n} = {e};"); self.declare(n, t)
        elif r < 0.3:
            self.emit(f"print({self.any()});")
        elif r < 0.38 and [x for x in self.vars_of("num") if x not in self.counters]:
            # (never a loop counter: a body that resets its counter does not terminate, and such a run is inconclusive)
            v = self.pick([x for x in self.vars_of("num") if x not in self.counters])
            if self.chance(0.5): self.emit(f"{v} = {self.num()};")
            else: self.emit(f"{v} {self.pick(['+=', '-=', '*=', '/=', '%=', '&=', '|=', '^=', '<<=', '>>='])} {self.simple_num()};")
        elif r < 0.42 and self.vars_of("str"):
            # (no string variable on the right: repeated doubling exhausts memory)
            rhs = self.pick(['"a"', '"-"', '"<${1 + 2}>"', 'String.from(' + self.simple_num() + ')'])
            self.emit(self.pick(self.vars_of('str')) + " += " + rhs + ";")
        elif r < 0.46 and self.vars_of("vecnum"):
            v = self.pick(self.vars_of("vecnum"))
            k = self.rng.random()
            if k < 0.5: self.emit(f"{v}.push({self.num()});")
            elif k < 0.7: self.emit(f"{v}[0] = {self.num()};")
            elif k < 0.85: self.emit(f"print({v}.pop());")
            else: self.emit(f"print({v}[{self.rng.randint(-3, 3)}]);")
        elif r < 0.54 and depth < 3:
            self.emit(f"if {self.bool_()} {{"); self.block(self.rng.randint(1, 3));
            if self.chance(0.5):
                self.emit("} else {"); self.block(self.rng.randint(1, 2))
            self.emit("}")
        elif r < 0.6 and depth < 3:
            c = self.fresh("i")
            self.emit(f"var {c} = 0;"); self.declare(c, "num"); self.counters.add(c)
            self.emit(f"while {c} < {self.rng.randint(1, 4)} {{")
            self.indent += 1; self.emit(f"{c} += 1;"); self.indent -= 1
            self.loop_depth += 1; self.block(self.rng.randint(1, 3)); self.loop_depth -= 1
            self.emit("}")
        elif r < 0.68 and depth < 3:
            it = self.pick([f"0..{self.rng.randint(0, 4)}", self.vec(), self.str_(2), f"({self.num(2)}, {self.num(2)})", f"{self.vec()}.iter().map(|z| z + 1)"])
            x = self.fresh("x")
            self.emit(f"for {x} in {it} {{")
            self.scopes.append({x: "any"}); self.loop_depth += 1
            self.block(self.rng.randint(1, 3), new_scope=True)
            self.loop_depth -= 1; self.scopes.pop()
            self.emit("}")
        elif r < 0.71 and self.loop_depth > 0 and not self.in_try:
            self.emit(f"if {self.bool_()} {{ {self.pick(['break', 'continue'])}; }}")
        elif r < 0.78 and depth < 2:
            f = self.fresh("f"); ar = self.rng.randint(0, 2)
            ps = [self.fresh("p") for _ in range(ar)]
            self.emit(f"fn {f}({', '.join(ps)}) {{")
            self.declare(f, f"fn{ar}")
            self.scopes.append({p: "num" for p in ps}); self.fn_depth += 1
            saved_loop, self.loop_depth = self.loop_depth, 0
            saved_try, self.in_try = self.in_try, 0
            self.block(self.rng.randint(1, 3), new_scope=False)
            self.indent += 1
            if self.chance(0.7): self.emit(f"return {self.num()};")
            self.indent -= 1
            self.loop_depth = saved_loop; self.in_try = saved_try
            self.fn_depth -= 1; self.scopes.pop()
            self.emit("}")
        elif r < 0.82:
            fs = [(n, int(t[2:])) for sc in self.scopes for n, t in sc.items() if t.startswith("fn")]
            if fs:
                n, ar = self.pick(fs)
                if self.chance(0.1): ar += self.pick([-1, 1])
                self.emit(f"print({n}({', '.join(self.num(2) for _ in range(max(ar, 0)))}));")
            else: self.emit(f"print({self.num()});")
        elif r < 0.85:
            n = self.fresh("c"); cap = self.vars_of("num")
            body = f"{self.pick(cap)} + k" if cap else "k * 2"
            self.emit(f"var {n} = |k| {body};"); self.declare(n, "fn1")
        elif r < 0.89 and depth == 0 and self.fn_depth == 0:
            c = self.fresh("C"); ar = self.rng.randint(0, 2)
            ps = [f"a{k}" for k in range(ar)]
            self.emit(f"class {c} {{")
            self.indent += 1
            self.emit(f"#[constructor] fn new(self{''.join(', ' + p for p in ps)}) {{ self.total = {' + '.join(ps) if ps else '0'}; }}")
            self.emit("fn get(self) { return self.total; }")
            self.emit(f"fn add(self, n) {{ self.total = self.total + n; return self; }}")
            if self.chance(0.5): self.emit(f'#[static] fn make() {{ return Self.new({", ".join("1" for _ in ps)}); }}')
            self.indent -= 1
            self.emit("}")
            self.classes.append((c, ar))
            o = self.fresh("o")
            self.emit(f"var {o} = {c}.new({', '.join(self.num(2) for _ in ps)});"); self.declare(o, "any")
            self.emit(f"print({o}.add({self.num(2)}).get());")
        elif r < 0.92 and depth == 0 and self.classes and self.fn_depth == 0:
            base = self.pick(self.classes); c = self.fresh("D")
            self.emit(f"#[derive({base[0]})]")
            self.emit(f"class {c} {{")
            self.indent += 1
            self.emit(f"#[constructor] fn new(self{''.join(', a%d' % k for k in range(base[1]))}) {{ super.new({', '.join('a%d' % k for k in range(base[1]))}); self.extra = 1; }}")
            self.emit("fn get(self) { return super.get() + self.extra; }")
            self.indent -= 1
            self.emit("}")
            self.classes.append((c, base[1]))
            self.emit(f"print({c}.new({', '.join(self.num(2) for _ in range(base[1]))}).add(1).get());")
        elif r < 0.95 and self.fn_depth == 0:
            f = self.fresh("fb")
            self.emit(f"var {f} = Fiber.new(|| {{ Fiber.yield({self.num(2)}); var got = Fiber.yield({self.str_(2)}); return got; }});")
            self.declare(f, "any")
            self.emit(f"print({f}.call());"); self.emit(f"print({f}.call());")
            if self.chance(0.7): self.emit(f"print({f}.call({self.num(2)}));")
            if self.chance(0.5): self.emit(f"print({f}.has_finished());")
        elif r < 0.985 and self.with_try and not self.in_try and depth < 2:
            self.in_try += 1
            self.emit("try {"); self.block(self.rng.randint(1, 3))
            k = self.rng.random()
            if k < 0.6:
                # only natives raise inside try (a caught `throw` would leave a stale error_ip, F25)
                e = self.fresh("e")
                self.emit(f"}} catch {e} {{"); self.scopes.append({e: "any"})
                self.indent += 1; self.emit(f"print({e}.context);"); self.indent -= 1
                self.scopes.pop()
                if self.chance(0.4):
                    self.emit("} finally {"); self.indent += 1; self.emit('print("finally");'); self.indent -= 1
            else:
                self.emit("} finally {"); self.indent += 1; self.emit('print("finally");'); self.indent -= 1
            self.emit("}")
            self.in_try -= 1
        else:
            self.emit(f"print({self.bool_()});")

def make_program(seed, with_try):
    rng = random.Random(seed)
    g = Gen(rng, with_try)
    for _ in range(rng.randint(6, 18)): g.stmt()
    return "\n".join(g.lines) + "\n"

