"""A small reference evaluator of Yarel expressions and statements, written from the language definition (operators, precedence,
truthiness, number formatting), NOT from the implementation: the independent oracle of the C05/C19 program differentials.
Values: ("num", float) ("str", s) ("bool", b) ("nil",) ("vec", [values]) ("range", b, e)."""
import math
import struct

I64_MIN, I64_MAX = -(2 ** 63), 2 ** 63 - 1


class YErr(Exception):
    def __init__(self, kind, msg):
        self.kind, self.msg = kind, msg


def num(x):
    return ("num", float(x))


NIL = ("nil",)
TRUE, FALSE = ("bool", True), ("bool", False)


def fmt_num(x):
    """Rust's `{}` for f64 (shortest round-trip digits, positional notation) with yarel's '-0'."""
    if x != x:
        return "NaN"
    if x in (math.inf, -math.inf):
        return "inf" if x > 0 else "-inf"
    if x == 0:
        return "-0" if math.copysign(1.0, x) < 0 else "0"
    r = repr(abs(x))
    if "e" in r:
        mant, exp = r.split("e")
        exp = int(exp)
    else:
        mant, exp = r, 0
    if "." in mant:
        ip, fp = mant.split(".")
    else:
        ip, fp = mant, ""
    digits = (ip + fp)
    point = len(ip) + exp            # position of the decimal point inside `digits`
    lead = len(digits) - len(digits.lstrip("0"))
    digits = digits.lstrip("0")
    point -= lead
    if fp == "0" and exp == 0:
        digits = ip
        point = len(ip)
    digits = digits.rstrip("0") if point < len(digits) else digits
    if point <= 0:
        s = "0." + "0" * (-point) + digits
    elif point >= len(digits):
        s = digits + "0" * (point - len(digits))
    else:
        s = digits[:point] + "." + digits[point:]
    return ("-" if x < 0 else "") + s


def display(v):
    k = v[0]
    if k == "num":
        return fmt_num(v[1])
    if k == "str":
        return v[1]
    if k == "bool":
        return "true" if v[1] else "false"
    if k == "nil":
        return "nil"
    if k == "vec":
        return "[" + ", ".join(display(e) for e in v[1]) + "]"
    if k == "tuple":
        return "(" + ", ".join(display(e) for e in v[1]) + ("," if len(v[1]) == 1 else "") + ")"
    if k == "range":
        return "Range(%d, %d)" % (v[1], v[2])
    raise ValueError(k)


def truthy(v):
    return not (v[0] == "nil" or (v[0] == "bool" and not v[1]))


def to_i64(x):
    if x != x:
        return 0
    if x >= 9223372036854775808.0:
        return I64_MAX
    if x <= -9223372036854775808.0:
        return I64_MIN
    return int(x)


def to_u32(x):
    if x != x or x <= 0:
        return 0
    if x >= 4294967295.0:
        return 4294967295
    return int(x)


def wrap_i64(n):
    n &= (1 << 64) - 1
    return n - (1 << 64) if n >= (1 << 63) else n


def equal(a, b):
    if a[0] != b[0]:
        return False
    if a[0] == "num":
        return a[1] == b[1]
    if a[0] in ("vec", "tuple"):
        return len(a[1]) == len(b[1]) and all(equal(x, y) for x, y in zip(a[1], b[1]))
    if a[0] == "range":
        return a is b        # ranges compare by identity (distinct objects unless literally the same one)
    return a[1:] == b[1:]


def validate_integer(v):
    if v[0] != "num":
        raise YErr("TypeError", "Expected an integer value but found '%s'." % display(v))
    x = v[1]
    if x != x or (x not in (math.inf, -math.inf) and x != math.trunc(x)):
        raise YErr("ValueError", "Expected an integer value but found '%s'." % display(v))
    return to_i64(x)


def binop(op, a, b):
    if op == "+":
        if a[0] == "num" and b[0] == "num":
            return num(a[1] + b[1])
        if a[0] == "str" and b[0] == "str":
            return ("str", a[1] + b[1])
        raise YErr("TypeError", "Binary operands must be two numbers or two strings.")
    if op == "==":
        return ("bool", equal(a, b))
    if op == "!=":
        return ("bool", not equal(a, b))
    if op == "..":
        e = validate_integer(b)        # the end operand is validated first
        s = validate_integer(a)
        return ("range", s, e)
    if a[0] != "num" or b[0] != "num":
        raise YErr("TypeError", "Binary operands must both be numbers.")
    x, y = a[1], b[1]
    if op == "-":
        return num(x - y)
    if op == "*":
        return num(x * y)
    if op == "/":
        if y == 0:
            if x == 0 or x != x:
                return num(math.nan)
            return num(math.copysign(math.inf, x) * math.copysign(1.0, y))
        return num(x / y)
    if op == "%":
        if y == 0 or x in (math.inf, -math.inf) or x != x or y != y:
            return num(math.nan)
        if y in (math.inf, -math.inf):
            return num(x)
        return num(math.fmod(x, y))
    if op == "<":
        return ("bool", x < y)
    if op == ">":
        return ("bool", x > y)
    if op == "<=":
        return ("bool", x <= y)
    if op == ">=":
        return ("bool", x >= y)
    if op == "&":
        return num(float(to_i64(x) & to_i64(y)))
    if op == "|":
        return num(float(to_i64(x) | to_i64(y)))
    if op == "^":
        return num(float(to_i64(x) ^ to_i64(y)))
    if op == "<<":
        sh = to_u32(y)
        return num(0.0 if sh >= 64 else float(wrap_i64(to_i64(x) << sh)))
    if op == ">>":
        sh = to_u32(y)
        return num(0.0 if sh >= 64 else float(to_i64(x) >> sh))
    raise ValueError(op)


def unop(op, a):
    if op == "!":
        return ("bool", not truthy(a))
    if a[0] != "num":
        raise YErr("TypeError", "Unary operand must be a number.")
    if op == "-":
        return num(-a[1])
    if op == "~":
        return num(float(~to_i64(a[1])))
    raise ValueError(op)


# precedence levels of the reference grammar (low to high); binary operators are left-associative
LEVEL = {"||": 1, "&&": 2, "==": 3, "!=": 3, "<": 4, "<=": 4, ">": 4, ">=": 4, "|": 5, "^": 6, "&": 7, "<<": 8, ">>": 8,
         "+": 9, "-": 9, "*": 10, "/": 10, "%": 10, "..": 11}
UNARY_LEVEL = 12


def lit_src(v):
    k = v[0]
    if k == "num":
        x = v[1]
        if x != x:
            return "(0/0)", 10
        if x == math.inf:
            return "(1/0)", 13
        if x == -math.inf:
            return "(-1/0)", 13
        if x < 0 or (x == 0 and math.copysign(1, x) < 0):
            return "-" + fmt_num(-x), UNARY_LEVEL
        return fmt_num(x), 13
    if k == "str":
        return '"' + v[1].replace("\\", "\\\\").replace('"', '\\"').replace("$", "\\$") + '"', 13
    if k == "vec":
        return "[" + ", ".join(lit_src(e)[0] for e in v[1]) + "]", 13
    if k == "tuple":
        return "(" + ", ".join(lit_src(e)[0] for e in v[1]) + ("," if len(v[1]) == 1 else "") + ")", 13
    return display(v), 13


def to_src(e):
    """Expression AST -> (source, level) with only the parentheses the reference grammar needs."""
    k = e[0]
    if k == "lit":
        return lit_src(e[1])
    if k == "var":
        return e[1], 13
    if k == "trace":
        return 'tr("%s", %s)' % (e[1], to_src(e[2])[0]), 13
    if k == "un":
        s, l = to_src(e[2])
        if l < UNARY_LEVEL:
            s = "(" + s + ")"
        elif e[1] == "-" and s.startswith("-"):
            s = " " + s
        return e[1] + s, UNARY_LEVEL
    if k == "bin":
        op = e[1]
        lv = LEVEL[op]
        ls, ll = to_src(e[2])
        rs, rl = to_src(e[3])
        if op in ("&&", "||"):
            if ll < lv:
                ls = "(" + ls + ")"
            if rl < lv:
                rs = "(" + rs + ")"
        elif op == "..":
            if ll < lv:
                ls = "(" + ls + ")"
            if rl < UNARY_LEVEL:
                rs = "(" + rs + ")"
        else:
            if ll < lv:
                ls = "(" + ls + ")"
            if rl <= lv:
                rs = "(" + rs + ")"
        return "%s %s %s" % (ls, op, rs), lv
    raise ValueError(k)


def evaluate(e, env, out):
    k = e[0]
    if k == "lit":
        return e[1]
    if k == "var":
        return env[e[1]]
    if k == "trace":
        out.append(e[1])
        return evaluate(e[2], env, out)
    if k == "un":
        return unop(e[1], evaluate(e[2], env, out))
    if k == "bin":
        op = e[1]
        a = evaluate(e[2], env, out)
        if op == "&&":
            return evaluate(e[3], env, out) if truthy(a) else a
        if op == "||":
            return a if truthy(a) else evaluate(e[3], env, out)
        b = evaluate(e[3], env, out)
        return binop(op, a, b)
    raise ValueError(k)
