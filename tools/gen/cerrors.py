"""A catalogue of small faulty sources, at least one per compile-time message of compiler.rs / scanner.rs (the list of messages is
regenerated from the source on every run: lean/Yarel/Gen/Messages.lean; `coverage()` says which of them the catalogue reaches).
Every source is written as blank-separated tokens and laid out twice: on one line, and with ONE TOKEN PER LINE - then the line of a
message identifies the token it was reported at, and a report at a neighbouring token (the one before, the one after, the start of the
statement) shows as a different line.  Used by C17 (messages, lines and quoted tokens against the reference parser) and C03."""
import re

PRE = "var ok = 1 ;"

ONE = [
    ("block-open-at-eof", "{ var a = 1 ;"),
    ("fn-no-paren", "fn f { }"),
    ("method-no-self", "class K { fn m ( x ) { } }"),
    ("fn-param-not-name", "fn f ( 1 ) { }"),
    ("fn-param-not-name-2", "fn f ( a , 2 ) { }"),
    ("fn-param-no-close", "fn f ( a b ) { }"),
    ("fn-no-body", "fn f ( a ) return ;"),
    ("method-no-fn", "class K { m ( self ) { } }"),
    ("method-no-name", "class K { fn ( self ) { } }"),
    ("ctor-static", "class K { #[ static , constructor ] fn make ( self ) { } }"),
    ("ctor-static-2", "class K { #[ constructor , static ] fn make ( self ) { } }"),
    ("class-no-name", "class { }"),
    ("class-inherits-itself", "#[ derive ( K ) ] class K { }"),
    ("class-no-brace", "class K fn"),
    ("class-open-at-eof", "class K { fn m ( self ) { }"),
    ("fn-no-name", "fn ( ) { }"),
    ("attr-missing-argument", "#[ derive ] class K { }"),
    ("attr-too-many-arguments", "#[ constructor ( a , b ) ] class K { }"),
    ("attr-unexpected-argument", "class K { #[ static ( x ) ] fn s ( ) { } }"),
    ("attr-argument-not-name", "#[ derive ( 1 ) ] class K { }"),
    ("attr-arguments-no-close", "#[ derive ( A ] class K { }"),
    ("attr-no-bracket", "# derive class K { }"),
    ("attr-duplicate", "#[ derive ( Object ) , derive ( Object ) ] class K { }"),
    ("attr-duplicate-flag", "class K { #[ static , static ] fn s ( ) { } }"),
    ("attr-empty-list", "#[ ] class K { }"),
    ("attr-list-no-close", "#[ derive ( Object ) class K { }"),
    ("attr-on-statement", "#[ foo ] var a = 1 ;"),
    ("attr-on-expression", "#[ foo ] ok = 2 ;"),
    ("attr-unsupported-class", "#[ foo ] class K { }"),
    ("attr-unsupported-method", "class K { #[ foo ] fn m ( self ) { } }"),
    ("attr-unsupported-second", "#[ derive ( Object ) , bar ] class K { }"),
    ("attr-unsupported-fn", "#[ static ] fn f ( ) { }"),
    ("var-no-name", "var 1 = 2 ;"),
    ("var-no-semicolon", "var a = 1 var b = 2 ;"),
    ("expr-no-semicolon", "ok = 2 ok = 3 ;"),
    ("import-no-path", "import x ;"),
    ("import-empty-path", 'import "" ;'),
    ("import-main", 'import "main" ;'),
    ("import-alias-not-name", 'import "m" as 1 ;'),
    ("import-no-semicolon", 'import "m" var a = 1 ;'),
    ("for-no-variable", "for 1 in ok { }"),
    ("for-no-in", "for x ok { }"),
    ("for-no-brace", "for x in ok print ( 1 ) ;"),
    ("if-no-brace", "if ok print ( 1 ) ;"),
    ("else-no-brace", "if ok { } else print ( 1 ) ;"),
    ("return-top-level", "return 1 ;"),
    ("return-value-from-initialiser", "class K { #[ constructor ] fn new ( self ) { return 1 ; } }"),
    ("return-no-semicolon", "fn f ( ) { return 1 }"),
    ("break-no-semicolon", "while ok { break }"),
    ("break-outside", "break ;"),
    ("break-in-fn-in-loop", "while ok { fn f ( ) { break ; } }"),
    ("continue-outside", "continue ;"),
    ("continue-no-semicolon", "while ok { continue }"),
    ("throw-no-semicolon", "throw 1 }"),
    ("try-no-brace", "try print ( 1 ) ;"),
    ("catch-no-variable", "try { } catch 1 { }"),
    ("catch-no-brace", "try { } catch e print ( 1 ) ;"),
    ("finally-no-brace", "try { } finally print ( 1 ) ;"),
    ("try-alone", "try { } print ( 1 ) ;"),
    ("while-no-brace", "while ok print ( 1 ) ;"),
    ("no-expression", "var a = ;"),
    ("no-expression-operand", "var a = ok + ;"),
    ("no-expression-infix-only", "var a = * 2 ;"),
    ("invalid-assignment-target", "1 + ok = 3 ;"),
    ("invalid-assignment-target-call", "ok ( ) = 3 ;"),
    ("duplicate-local", "{ var a = 1 ; var a = 2 ; }"),
    ("duplicate-param", "fn f ( a , a ) { }"),
    ("duplicate-local-vs-param", "fn f ( a ) { var a = 1 ; }"),
    ("own-initialiser", "{ var a = a ; }"),
    ("own-initialiser-nested", "{ var a = 1 ; { var a = a + 1 ; } }"),
    ("group-no-close", "var g = ( 1 ;"),
    ("tuple-no-close", "var g = ( 1 , 2 ;"),
    ("call-no-close", "ok ( 1 ;"),
    ("dot-no-name", "ok . 1 ;"),
    ("invoke-no-close", "ok . m ( 1 ;"),
    ("index-no-close", "ok [ 1 ;"),
    ("lambda-param-not-name", "var l = | 1 | 2 ;"),
    ("lambda-param-no-close", "var l = | a b | 2 ;"),
    ("map-no-colon", "var h = { 1 2 } ;"),
    ("map-no-close", "var h = { 1 : 2 ;"),
    ("vec-no-close", "var v = [ 1 , 2 ;"),
    ("self-outside", "var s = self ;"),
    ("self-in-static", "class K { #[ static ] fn s ( ) { return self ; } }"),
    ("capself-outside", "var s = Self ;"),
    ("super-outside", "var s = super . m ( ) ;"),
    ("super-no-superclass", "class K { fn m ( self ) { return super . m ( ) ; } }"),
    ("super-no-dot", "#[ derive ( Object ) ] class K { fn m ( self ) { return super m ; } }"),
    ("super-no-name", "#[ derive ( Object ) ] class K { fn m ( self ) { return super . 1 ; } }"),
    ("super-call-no-close", "#[ derive ( Object ) ] class K { fn m ( self ) { return super . m ( 1 ; } }"),
    ("unexpected-character", "var c = ok @ 2 ;"),
    ("unexpected-character-unicode", "var c = ok § 2 ;"),
    ("interpolation-no-brace", 'var s = "abc$x" ;'),
    ("invalid-escape", 'var s = "a\\qb" ;'),
    ("unterminated-string", 'var s = "abc ;'),
    ("invalid-unicode-u", 'var s = "\\uZZZZ" ;'),
    ("invalid-unicode-U", 'var s = "\\Uc328c328" ;'),
    ("invalid-hex", 'var s = "\\xZZ" ;'),
    ("two-faults", "var a = ; var b = ok + ; var c = 3 ;"),
    ("fault-then-valid-then-fault", "var 1 ; fn good ( ) { return 1 ; } class { }"),
]


def many(n, item="1"):
    return " , ".join([item] * n)


def generated():
    out = []
    out.append(("256-params", "fn f ( %s ) { }" % " , ".join("p%d" % i for i in range(256))))
    out.append(("256-lambda-params", "var l = | %s | 1 ;" % " , ".join("p%d" % i for i in range(256))))
    out.append(("256-arguments", "ok ( %s ) ;" % many(256)))
    out.append(("256-invoke-arguments", "ok . m ( %s ) ;" % many(256)))
    out.append(("256-super-arguments", "#[ derive ( Object ) ] class K { fn m ( self ) { return super . m ( %s ) ; } }" % many(256)))
    out.append(("256-tuple-elements", "var t = ( %s ) ;" % many(256)))
    out.append(("256-vec-elements", "var v = [ %s ] ;" % many(256)))
    out.append(("256-map-entries", "var h = { %s } ;" % " , ".join("%d : 1" % i for i in range(256))))
    out.append(("256-interpolation-parts", 'var s = "%s" ;' % ("a${ok}" * 128)))
    out.append(("interpolation-depth", "var s = " + '"a${ ' * 9 + "1" + ' }"' * 9 + " ;"))
    out.append(("257-locals", "{ %s }" % " ".join("var l%d = 0 ;" % i for i in range(257))))
    out.append(("257-locals-for", "{ %s for x in ok { } }" % " ".join("var l%d = 0 ;" % i for i in range(255))))
    out.append(("257-locals-class", "{ %s #[ derive ( Object ) ] class K { } }" % " ".join("var l%d = 0 ;" % i for i in range(255))))
    out.append(("257-closure-variables", "fn outer ( ) { %s fn mid ( ) { %s fn inner ( ) { return %s ; } } }" % (
        " ".join("var a%d = 0 ;" % i for i in range(200)), " ".join("var b%d = 0 ;" % i for i in range(60)),
        " + ".join(["a%d" % i for i in range(200)] + ["b%d" % i for i in range(57)]))))
    return out


def layouts(name, body):
    """-> [(name, source)]: the fault after a valid first statement, on one line and with one token per line."""
    toks = (PRE + " " + body).split(" ")
    return [(name + "/one-line", PRE + "\n" + body + "\n"), (name + "/token-per-line", "\n".join(toks) + "\n")]


def cases():
    out = []
    for name, body in ONE + generated():
        out += layouts(name, body)
    return out


def source_messages(gen_messages_path):
    """The compile-time message formats of compiler.rs / scanner.rs as the regenerated table has them."""
    t = open(gen_messages_path, encoding="utf-8").read()
    rows = re.findall(r'\("(compiler\.rs|scanner\.rs)", "([^"]*)", (\d+), "(\w+)", "((?:[^"\\]|\\.)*)"\)', t)
    return sorted({r[4].replace('\\"', '"') for r in rows if not r[4].startswith("<dynamic")})


def format_regex(fmt):
    return re.compile(".*" + ".*".join(re.escape(p) for p in fmt.split("{}")) + "$", re.S)


def coverage(formats, observed_messages):
    """Which message formats occur in the observed messages."""
    hit, miss = [], []
    for f in formats:
        rx = format_regex(f)
        (hit if any(rx.match(m) for m in observed_messages) else miss).append(f)
    return hit, miss
