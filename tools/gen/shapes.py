"""Systematic (not random) enumeration of small programs: one try statement x every way of leaving it x what surrounds it.

Every combination of
  clauses   catch | finally | catch+finally
  pre       what runs inside the try block before it is left: nothing | a loop left by break | a loop with continue | a loop whose body
            holds a complete try/catch that catches its own throw | a call of a function with its own handler
  exit      how the try block is left: falls off the end | return <value> | bare return | throw | throw from two calls down | run-time error
  where     the try statement stands in: a function | a loop body in a function | a method | the body of a fiber
  caller    the call is bare | wrapped in try/catch/finally by the caller
is one program.  After the call every program raises and catches one more exception with a fresh handler (a try statement that has been
left must not see it), and ends with an uncaught exception (which must reach the host, named, whatever was left behind).
Known ledger findings are not generated: no break/continue ACROSS a try boundary (F13), nothing thrown or returned in a catch block that has
a finally (F14/F39), no locals in finally blocks (F23), no return from a try nested in a try of the same function (F27).
C02 runs them for "never panics", C08 compares them with the reference interpreter (S).
"""

CLAUSES = ["catch", "finally", "both"]
PRE = ["none", "loop-break", "loop-continue", "loop-inner-try", "call-handled"]
EXIT = ["fall", "return-value", "return-bare", "throw", "throw-deep", "rt-error"]
WHERE = ["fn", "fn-loop", "method", "fiber"]
CALLER = ["bare", "wrapped"]

PRELUDE = [
    'fn show(e) { if type(e) == String || type(e) == Num { return String.from(e); } return "${type(e)}:${e.context}"; }',
    'fn deep(n) { if n == 0 { throw "deep"; } deep(n - 1); return "deep-ret"; }',
    'fn handled() { try { throw "own"; } catch e { print("handled " + e); } finally { print("handled fin"); } return "h"; }',
]


def _ind(lines, n=1):
    return ["    " * n + l for l in lines]


def _pre(kind):
    if kind == "none":
        return []
    if kind == "loop-break":
        return ["for i in 0..4 {", "    if i == 2 { break; }", '    print("i " + String.from(i));', "}"]
    if kind == "loop-continue":
        return ["var k = 0;", "while k < 3 {", "    k = k + 1;", "    if k == 2 { continue; }", '    print("k " + String.from(k));', "}"]
    if kind == "loop-inner-try":
        return ["for j in 0..2 {", '    try { if j == 1 { throw "inner"; } print("j0"); } catch e { print("inner caught " + e); }', "}"]
    if kind == "call-handled":
        return ["print(handled());"]
    raise ValueError(kind)


def _exit(kind):
    return {
        "fall": ['print("body end");'],
        "return-value": ['if arg == 0 { return "early"; }'],
        "return-bare": ["if arg == 0 { return; }"],
        "throw": ['if arg == 0 { throw "thrown"; }'],
        "throw-deep": ["print(deep(2 + arg));"],
        "rt-error": ["var z = nil + arg;"],
    }[kind]


def _try(clauses, pre, exit_):
    out = ["try {"] + _ind(['print("try");'] + _pre(pre) + _exit(exit_))
    if clauses in ("catch", "both"):
        out += ["} catch e {", '    print("catch " + show(e));']
    if clauses in ("finally", "both"):
        out += ["} finally {", '    print("finally");']
    out += ["}", 'print("after try");']
    return out


def program(clauses, pre, exit_, where, caller):
    t = _try(clauses, pre, exit_)
    lines = list(PRELUDE)
    if where == "fn":
        lines += ["fn subject(arg) {", '    var before = "b";'] + _ind(t) + ['    return "end " + before;', "}"]
        call = "subject(0)"
    elif where == "fn-loop":
        lines += ["fn subject(arg) {", '    var acc = [];', "    for round in 0..2 {", '        var loc = "l" + String.from(round);'] + _ind(t, 2) + [
            "        acc.push(loc);", "    }", "    return acc;", "}"]
        call = "subject(0)"
    elif where == "method":
        lines += ["#[constructor(new)]", "class Subject {", "    fn run(self, arg) {", "        self.tag = \"m\";"] + _ind(t, 2) + [
            '        return "end " + self.tag;', "    }", "}"]
        call = "Subject.new().run(0)"
    elif where == "fiber":
        lines += ["var fib = Fiber.new(|arg| {", '    var got = Fiber.yield("yielded");'] + _ind(t) + ['    return "fiber end";', "});",
                  'print(fib.call(0));']
        call = 'fib.call("resumed")'
    else:
        raise ValueError(where)
    if caller == "bare" and (exit_ in ("fall", "return-value", "return-bare") or clauses != "finally"):
        lines += ["print(%s);" % call]
    else:
        # the exception leaves the subject: the caller must see it (exactly once), after the subject's finally block
        lines += ["try {", "    print(%s);" % call, "} catch e {", '    print("caller caught " + show(e));', "} finally {", '    print("caller finally");', "}"]
    # a statement that has been left never intercepts later exceptions
    lines += ['try { throw "later"; } catch e { print("later caught " + show(e)); }',
              "fn again() { var a = 1; var b = 2; var c = 3; deep(1); return a + b + c; }",
              'try { again(); } catch e { print("again caught " + show(e)); }']
    if where == "fiber":
        lines += ["print(fib.has_finished());"]
    lines += ['print("end");', 'throw "last";']
    return "\n".join(lines) + "\n"


# ---- second family: the CATCH block of an inner try/catch (no finally: F14/F39) is left by every kind of exit, inside a loop that stands
# in the try block of an OUTER try statement of the same function: handling (and leaving) the inner statement must not disable, pop or
# duplicate the outer handler.  No break/continue crosses a try BLOCK (F13): they leave a catch block, whose handler is gone already.
N_INNER = ["throw", "rt-error", "none"]
N_CATCH_EXIT = ["fall", "continue", "break", "return", "rethrow"]
N_OUTER = ["catch", "both", "finally"]
N_OUTER_EXIT = ["throw", "fall", "deep"]
N_WHERE = ["fn", "method", "fiber"]


def nested_program(inner, cexit, outer, oexit, where):
    trig = {"throw": 'if round < 2 { throw "inner" + String.from(round); }', "rt-error": "if round < 2 { var z = nil + round; }", "none": 'print("quiet");'}[inner]
    cx = {"fall": [], "continue": ["continue;"], "break": ["break;"], "return": ['return "from catch";'], "rethrow": ['throw "again " + show(e);']}[cexit]
    body = ['print("outer try");', "for round in 0..3 {", "    try {", '        print("inner try " + String.from(round));', "        " + trig,
            "    } catch e {", '        print("inner catch " + show(e));'] + _ind(cx, 2) + ["    }", '    print("after inner " + String.from(round));', "}"]
    body += {"throw": ['throw "outer-thrown";'], "fall": ['print("outer body end");'], "deep": ["print(deep(2));"]}[oexit]
    t = ["try {"] + _ind(body)
    if outer in ("catch", "both"):
        t += ["} catch e2 {", '    print("outer catch " + show(e2));']
    if outer in ("finally", "both"):
        t += ["} finally {", '    print("outer finally");']
    t += ["}", 'print("after outer");']
    lines = list(PRELUDE)
    if where == "fn":
        lines += ["fn subject(arg) {", '    var before = "b";'] + _ind(t) + ['    return "end " + before;', "}"]
        call = "subject(0)"
    elif where == "method":
        lines += ["#[constructor(new)]", "class Subject {", "    fn run(self, arg) {", '        self.tag = "m";'] + _ind(t, 2) + ['        return "end " + self.tag;', "    }", "}"]
        call = "Subject.new().run(0)"
    else:
        lines += ["var fib = Fiber.new(|arg| {", '    var got = Fiber.yield("yielded");'] + _ind(t) + ['    return "fiber end";', "});", "print(fib.call(0));"]
        call = 'fib.call("resumed")'
    lines += ["try {", "    print(%s);" % call, "} catch e {", '    print("caller caught " + show(e));', "} finally {", '    print("caller finally");', "}"]
    lines += ['try { throw "later"; } catch e { print("later caught " + show(e)); }', 'print("end");', 'throw "last";']
    return "\n".join(lines) + "\n"


def nested_shapes():
    out = []
    for i in N_INNER:
        for c in N_CATCH_EXIT:
            for o in N_OUTER:
                for x in N_OUTER_EXIT:
                    for w in N_WHERE:
                        out.append(("shape:nested/%s/%s/%s/%s/%s" % (i, c, o, x, w), nested_program(i, c, o, x, w)))
    return out


def all_shapes():
    out = nested_shapes()
    for c in CLAUSES:
        for p in PRE:
            for x in EXIT:
                for w in WHERE:
                    for k in CALLER:
                        out.append(("shape:%s/%s/%s/%s/%s" % (c, p, x, w, k), program(c, p, x, w, k)))
    return out


if __name__ == "__main__":
    import sys
    sh = all_shapes()
    print(len(sh))
    want = sys.argv[1] if len(sys.argv) > 1 else sh[0][0]
    for n, s in sh:
        if n == want:
            print(s)
