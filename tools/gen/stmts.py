"""A catalogue of statement forms, each of which must leave the operand stack exactly as it found it: every instruction family of the
compiler's output crossed with the kinds of value it dispatches on (property get/set/invoke on instances, classes, modules and built-in
values; calls of every kind of callable; index get/set and slices on every sequence kind; literals; interpolation; compound assignment
to every kind of target; every loop and exit form; try/catch/finally in the shapes the ledger does not cover; fibers; imports; class
declarations).  Used by C02 (each form repeated 20 000 times inside ONE activation: a leftover slot per pass overruns the 16 384-slot
value stack, a missing one corrupts the frame at once) and by C04 (each form executed once under the per-instruction height check).
Expectations do not depend on any model: a form is followed by a check that the locals declared BEFORE it still hold their values."""

MODULE_NAME = "catmod"
MODULE_SRC = """var ticks = 0;
var names = [];
fn id(x) { return x; }
fn bump() { ticks = ticks + 1; return ticks; }
#[constructor(new)]
class Box { fn get(self) { return 7; } #[static] fn make() { return 8; } }
var box = Box.new();
var hook = |x| x;
"""

PRELUDE = """import "catmod";
import "catmod" as cm2;
#[constructor(new)]
class A {
  fn init(self) { self.x = 0; self.f = |y| y; return self; }
  fn m(self, y) { return y; }
  fn get_x(self) { return self.x; }
  #[static] fn s(y) { return y; }
}
#[constructor(new), derive(A)]
class B {
  fn m(self, y) { return super.m(y); }
  fn viasuper(self) { var g = super.m; return g(3); }
  #[static] fn s2(y) { return Self.s3(y); }
  #[static] fn s3(y) { return y; }
}
#[constructor(new)]
class It { fn iter(self) { return self; } fn next(self) { if self.n <= 0 { return StopIter.new(); } self.n = self.n - 1; return self.n; } }
#[constructor(new)]
class ItMaker { fn make(self, n) { var it = It.new(); it.n = n; return it; } }
var a = A.new().init();
var b = B.new().init();
var v = [1, 2, 3];
var t = (1, 2, 3);
var hm = {"k": 1, 2: "two"};
var s = "héllo";
var r = 0..3;
var n = 5;
var z = nil;
fn id(x) { return x; }
fn two(x, y) { return y; }
var lam = |x| x;
fn thrower() { throw "boom"; }
fn mk() { var c = 0; return || { c = c + 1; return c; }; }
var counter = mk();
fn fin(x) { try { return x; } finally { n = n; } }
fn fin2(x) { try { if x { return 1; } } catch e { return 2; } finally { n = n; } return 3; }
var maker = ItMaker.new();
"""

# (name, statement text); every statement is self-contained and leaves the globals usable for the next pass
FORMS = [
    # property access
    ("setprop-instance", "a.x = n;"),
    ("setprop-instance-new-field", "a.fresh = n;"),
    ("setprop-module", "catmod.ticks = n;"),
    ("setprop-module-alias", "cm2.ticks = n + 1;"),
    ("setprop-module-new", "catmod.added = n;"),
    ("setprop-value-used", "z = (a.x = n);"),
    ("setprop-module-value-used", "z = (catmod.ticks = n);"),
    ("setprop-chain", "a.x = catmod.ticks = n;"),
    ("setprop-compound-instance", "a.x += 1;"),
    ("setprop-compound-module", "catmod.ticks += 1;"),
    ("setprop-compound-sub", "a.x -= 1; catmod.ticks *= 1;"),
    ("getprop-instance", "z = a.x;"),
    ("getprop-method-value", "z = a.m;"),
    ("getprop-module-var", "z = catmod.ticks;"),
    ("getprop-module-fn", "z = catmod.id;"),
    ("getprop-module-class", "z = catmod.Box;"),
    ("getprop-class-static", "z = A.s;"),
    ("getprop-class-ctor", "z = A.new;"),
    ("getprop-builtin-method", "z = v.len; z = s.len; z = hm.get; z = t.len; z = r.iter;"),
    ("getprop-statement-only", "a.x; catmod.ticks; A.s; v.len;"),
    # invocations
    ("invoke-instance-method", "a.m(1);"),
    ("invoke-instance-field-closure", "a.f(1);"),
    ("invoke-inherited", "b.get_x();"),
    ("invoke-super", "b.m(2);"),
    ("invoke-super-value", "b.viasuper();"),
    ("invoke-static", "A.s(1); B.s2(4); B.s3(1);"),
    ("invoke-static-through-instance", "a.s(1);"),
    ("invoke-ctor", "A.new(); B.new().init();"),
    ("invoke-module-fn", "catmod.id(1);"),
    ("invoke-module-fn-effect", "catmod.bump();"),
    ("invoke-module-closure", "catmod.hook(1);"),
    ("invoke-module-class", "catmod.Box.new(); catmod.Box.make();"),
    ("invoke-module-instance", "catmod.box.get();"),
    ("invoke-native-vec", "v.len(); v.push(4); v.pop();"),
    ("invoke-native-string", "s.len(); s.find(\"l\", 0); s.to_bytes(); s.starts_with(\"h\");"),
    ("invoke-native-map", "hm.get(\"k\"); hm.has_key(2); hm.insert(\"q\", 1); hm.remove(\"q\"); hm.keys(); hm.len();"),
    ("invoke-native-tuple-range", "t.len(); t.iter(); r.iter();"),
    ("invoke-native-static", "String.from(1); String.from_ascii([97]); String.from_utf8([97]); String.from_code_points([97]);"),
    # calls
    ("call-function", "id(1); two(1, 2);"),
    ("call-lambda", "lam(1);"),
    ("call-closure-state", "counter();"),
    ("call-bound-method", "{ var g = a.m; g(1); }"),
    ("call-bound-native", "{ var g = v.len; g(); }"),
    ("call-class-value", "{ var k = A; k.new(); }"),
    ("call-nested", "id(id(id(1)));"),
    ("call-args-exprs", "two(a.x, v[0] + 1);"),
    ("call-builtin-fn", "type(1); type(a);"),
    ("call-temporary-bound", "(v.len)(); (a.m)(1);"),
    # indexing
    ("index-vec", "z = v[0]; z = v[-1];"),
    ("index-tuple", "z = t[1];"),
    ("index-string", "z = s[0]; z = s[1];"),
    ("slice-vec", "z = v[0..2]; z = v[0..3]; z = v[1..1];"),
    ("slice-tuple", "z = t[0..2];"),
    ("slice-string", "z = s[0..1]; z = s[1..3];"),
    ("slice-range-var", "z = v[r];"),
    ("setitem-vec", "v[0] = 1; v[-1] = 3;"),
    ("setitem-value-used", "z = (v[0] = 1);"),
    ("index-statement-only", "v[0]; t[0]; s[0]; v[0..1];"),
    # literals and operators
    ("literals", "z = [1, n, a]; z = (1, n); z = (1,); z = {\"a\": n, n: 2}; z = []; z = {}; z = 1..n;"),
    ("literal-statement-only", "[1, 2]; (1, 2); ({\"a\": 1}); 1..2; \"x\"; 1; nil; true;"),
    ("interpolation", "z = \"a${n}b${a.x}c\"; z = \"${n}\"; z = \"${s}\"; z = \"x${\"y${n}\"}\";"),
    ("interpolation-statement-only", "\"a${n}b\";"),
    ("arith", "z = n + 1 - 2 * 3 / 4 % 5; z = -n; z = !true; z = ~n; z = n & 3 | 4 ^ 1; z = n << 1 >> 1;"),
    ("compare", "z = n < 1 || n > 1 && n <= 2 || n >= 2 || n == 1 || n != 1;"),
    ("logic-shortcircuit", "z = nil || 1; z = 1 && nil; z = false && thrower(); z = true || thrower();"),
    ("string-concat", "z = s + \"x\" + s;"),
    ("compound-global", "n += 1; n -= 1; n *= 1; n /= 1;"),
    ("compound-local", "{ var q = 1; q += 1; q -= 1; q *= 2; q /= 2; }"),
    ("assign-chain", "{ var q; var p; q = p = n; }"),
    # control flow
    ("if-else", "if n > 1 { z = 1; } else if n > 0 { z = 2; } else { z = 3; }"),
    ("while-break-continue", "{ var k = 0; while k < 3 { k = k + 1; if k == 1 { continue; } if k == 2 { break; } } }"),
    ("while-break-with-locals", "{ var k = 0; while true { var p = k; var q = p; k = k + 1; if k > 2 { break; } } }"),
    ("for-vec", "for x in v { z = x; }"),
    ("for-tuple", "for x in t { z = x; }"),
    ("for-range", "for x in 0..3 { z = x; } for x in 3..0 { z = x; }"),
    ("for-string", "for c in s { z = c; }"),
    ("for-map-keys", "for k in hm.keys() { z = k; }"),
    ("for-user-iter", "for x in maker.make(3) { z = x; }"),
    ("for-adapters", "for x in v.iter().map(|x| x + 1).filter(|x| x > 1) { z = x; } z = v.iter().map(|x| x).collect(); z = v.iter().reduce(|p, q| p + q, 0);"),
    ("for-break", "for x in v { if x == 2 { break; } }"),
    ("for-continue", "for x in v { if x == 2 { continue; } z = x; }"),
    ("for-break-with-locals", "for x in v { var p = x; var q = || p; if x == 2 { break; } }"),
    ("for-nested", "for x in v { for y in t { if y == 2 { break; } z = x + y; } }"),
    ("for-return-in-fn", "{ fn first(xs) { for x in xs { return x; } return nil; } first(v); first([]); }"),
    ("block-locals", "{ var p = 1; { var q = 2; { var w = p + q; } } }"),
    ("block-captured-locals", "{ var p = 1; var g = || p; { var q = 2; var h = || q + p; h(); } g(); }"),
    # exceptions
    ("try-catch-nothrow", "try { z = 1; } catch e { z = 2; }"),
    ("try-catch-throw", "try { throw \"x\"; } catch e { z = e; }"),
    ("try-catch-callee-throw", "try { thrower(); } catch e { z = e; }"),
    ("try-catch-builtin-failure", "try { v[10]; } catch e { z = e; } try { nil + 1; } catch e { z = e; } try { a.nope; } catch e { z = e; } try { undefined_name; } catch e { z = e; }"),
    ("try-finally-nothrow", "try { z = 1; } finally { z = 2; }"),
    ("try-catch-finally-throw", "try { throw \"x\"; } catch e { z = e; } finally { z = 3; }"),
    ("try-catch-finally-nothrow", "try { z = 1; } catch e { z = e; } finally { z = 3; }"),
    ("try-nested", "try { try { throw 1; } catch e { throw 2; } } catch e { z = e; }"),
    ("try-nested-finally", "try { try { throw 1; } finally { z = 0; } } catch e { z = e; }"),
    ("try-locals", "try { var p = 1; var q = 2; throw p + q; } catch e { var w = e; z = w; }"),
    ("try-deep-stack-throw", "try { z = [1, 2, [3, id(thrower())]]; } catch e { z = e; }"),
    ("try-in-loop", "for x in v { try { if x == 2 { throw x; } } catch e { z = e; } }"),
    ("return-through-finally", "fin(1); fin2(true); fin2(false);"),
    ("throw-instance", "try { throw A.new(); } catch e { z = e; }"),
    ("catch-native-error-fields", "try { v[10]; } catch e { z = e.context; }"),
    # closures, classes, fibers, imports
    ("closure-make", "{ var p = 1; var g = || p; var h = |x| x + p; z = g() + h(1); }"),
    ("closure-make-nested", "{ var p = 1; var g = || { var q = p; return || q + p; }; z = g()(); }"),
    ("fn-decl-local", "{ fn loc(x) { return x; } loc(1); }"),
    ("class-decl-local", "{ #[constructor(new)] class L { fn m(self) { return 1; } #[static] fn s() { return 2; } } L.new().m(); L.s(); }"),
    ("class-decl-derived-local", "{ #[constructor(new), derive(A)] class L2 { fn m(self, y) { return super.m(y); } } L2.new().m(1); }"),
    ("fiber-run-to-end", "{ var f = Fiber.new(|| 1); f.call(); }"),
    ("fiber-yield-resume", "{ var f = Fiber.new(|x| { var y = Fiber.yield(x); return y; }); f.call(1); f.call(2); }"),
    ("fiber-yield-noarg", "{ var f = Fiber.new(|| { Fiber.yield(); Fiber.yield(1); }); f.call(); f.call(); f.call(); }"),
    ("fiber-in-loop", "{ var f = Fiber.new(|| { var k = 0; while k < 3 { Fiber.yield(k); k = k + 1; } }); while !f.has_finished() { f.call(); } }"),
    ("fiber-misuse-caught", "{ var f = Fiber.new(|| 1); f.call(); try { f.call(); } catch e { z = e; } try { Fiber.yield(1); } catch e { z = e; } }"),
    ("import-again", "import \"catmod\";"),
    ("import-again-alias-local", "{ import \"catmod\" as again; again.ticks = n; }"),
    ("import-failure-caught", "try { import \"no_such_module\"; } catch e { z = e; }"),
    ("global-define-again", "var regl = n; regl = regl + 1;"),
    ("print-nothing", "z = String.from(a); z = String.from(v); z = String.from(hm); z = String.from(catmod); z = String.from(A);"),
]

CHECK = "if !(n == 5) || !(v.len() == 3) || !(t[2] == 3) || !(a.m(9) == 9) || !(s.len() == 6) { print(\"CLOBBERED\"); }"


def modules():
    return {MODULE_NAME: MODULE_SRC}


def loop_program(name, stmt, times):
    """The statement `times` times inside one activation of a function whose last two locals stand directly below whatever the statement
    pushes: they must keep their values on every pass (a value written one slot too low lands on them); then the check that nothing
    else was clobbered."""
    return PRELUDE + ("fn run_() {\n  var guard1_ = \"g1\";\n  var i_ = 0;\n  var guard2_ = \"g2\";\n  while i_ < %d {\n    i_ = i_ + 1;\n    %s\n"
                      "    if guard2_ != \"g2\" || guard1_ != \"g1\" { print(\"CLOBBERED local\"); return; }\n  }\n}\nrun_();\n%s\nprint(\"done\");\n") % (times, stmt, CHECK)


def loop_programs(times, forms=None):
    return [("stmtloop:" + name, loop_program(name, stmt, times), modules()) for name, stmt in (forms or FORMS)]


FAIL_PRELUDE = ("#[constructor(new)] class K { fn m(self) { return 1; } }\nfn deep_recursion(k) { return deep_recursion(k + 1); }\n"
                "var done_fiber = Fiber.new(|| 1); done_fiber.call();\n")


def failing_forms():
    """Every built-in failure of the C08 catalogue (wrong operand kinds, bad indices, wrong arities, unknown names, misuse of fibers, failing
    natives, ...), raised and CAUGHT in the statement itself: what the failed operation had pushed must be gone, nothing below it touched."""
    from props import c08
    out = []
    for k, (src, _cls) in enumerate(c08.BUILTIN_FAILURES):
        if "host_raise" in src:
            continue
        out.append(("fail-%d" % k, "try { z = %s; } catch e { z = e; }" % src))
    for k, (src, _cls) in enumerate(c08.BUILTIN_STATEMENTS):
        if "bad_syntax_module" in src or "class Bad" in src:
            continue
        out.append(("failstmt-%d" % k, "try { %s } catch e { z = e; }" % src))
    return out


def failing_loop_programs(times):
    return [("stmtloop:" + name, FAIL_PRELUDE + loop_program(name, stmt, times), modules()) for name, stmt in failing_forms()]


def forms_without_finally():
    """For the bytecode verifier (C04): a `finally` block that an exception can enter is ledger entry F23 (two stack heights)."""
    return [(n, st) for n, st in FORMS if "finally" not in st]


def once_program(forms=None):
    """Every form once, at module level, inside a function, and inside a for loop (whose hidden iterator slot sits right below)."""
    forms = forms or FORMS
    body = "\n".join("  " + st for _, st in forms if not st.startswith(("import", "var regl")))
    top = "\n".join(st for _, st in forms)
    src = PRELUDE + top + "\n" + CHECK + "\nfn all_(z) {\n" + body + "\n  return 1;\n}\nall_(nil);\n" + CHECK + \
        "\nfor once_ in [1, 2] {\n" + body + "\n}\n" + CHECK + "\nprint(\"done\");\n"
    return ("stmtonce", src, modules())
