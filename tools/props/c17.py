"""C17 — errors carry the right class, message and source lines.

Theorems: Yarel.Props.C17 (lines_parallel: the line table stays parallel to the code under every writer operation, so the trace
lookup is in range; kind_class_roundtrip between ErrorKind and the error classes) and the message table regenerated from the source.
Correspondence: programs laid out one statement per line in which the generator CHOOSES the failing statement, the call chain
(functions, methods, lambdas, module bodies, fibers) and the error kind, so the expected class, message and every trace entry are
known by construction, independently of any model; host natives failing with each ErrorKind, uncaught and caught in-language;
a catalogue of single-fault injections into a valid program whose offending token (hence the expected line) is known.
"""
import json
import os

import vlib
import progs
import specdiff

THEOREM_MODULES = []
REQUIRED_THEOREMS = []
if os.path.exists(os.path.join(vlib.LEAN_DIR, "Yarel", "Props", "C17.lean")):
    THEOREM_MODULES = ["Yarel.Props.C17", "Yarel.Props.SpecTraces"]
    REQUIRED_THEOREMS = ["lines_parallel", "chunk_vectors_change_only_in_step", "kind_class_roundtrip", "traceLines_one_per_active_call", "traceLines_innermost_first",
                         "uncaught_outcome_is_error_with_trace"]
# the state the models abstract is all the state there is: the fields of the run-time structures, regenerated on every run, are the ones
# the models were written against (Props/StateInventory)
THEOREM_MODULES.append("Yarel.Props.StateInventory.state_of_compiler")
REQUIRED_THEOREMS += ['state_of_compiler']
USES_GEN = True
LEVEL = "proof"
ASSUMPTIONS = [
    "chunk writer model Yarel/Model/ChunkLines.lean transcribes Chunk::write and the compiler's patch routines (tie: every compiled function's "
    "dump has lines.length = code.length, checked here on every program)",
    "expected traces are constructed by the generator (one statement per line), not derived from any model of the implementation",
]

FAILS = [
    # (statement, kind, message)
    ("var z = nil + 1;", "TypeError", "Binary operands must be two numbers or two strings."),
    ("var z = [1][5];", "IndexError", "Vec index out of bounds."),
    ("var z = undefined_name;", "NameError", "Undefined variable 'undefined_name'."),
    ("var z = 1.nosuch;", "AttributeError", "Undefined property 'nosuch'."),
    ("var z = [1][0.5];", "ValueError", "Expected an integer value but found '0.5'."),
    ("import \"nosuch\";", "ImportError", "Unable to read file 'nosuch.yl' (file not found)."),
    ("Fiber.yield(1);", "RuntimeError", "Cannot yield from module-level code."),
    ("throw \"custom\";", "RuntimeError", None),           # non-error value: "Unhandled exception: custom"
    ("throw 42;", "RuntimeError", None),
    ("var z = 1(2);", "TypeError", "Can only call functions and methods."),
    ("var z = \"s\".len(1);", "TypeError", None),
    ("host_raise(\"ValueError\", \"from host\");", "ValueError", "from host"),
    ("host_raise(\"IndexError\", \"from host\");", "IndexError", "from host"),
    ("host_raise(\"TypeError\", \"from host\");", "TypeError", "from host"),
    ("host_raise(\"NameError\", \"from host\");", "NameError", "from host"),
    ("host_raise(\"AttributeError\", \"from host\");", "AttributeError", "from host"),
    ("host_raise(\"ImportError\", \"from host\");", "ImportError", "from host"),
    ("host_raise(\"RuntimeError\", \"from host\");", "RuntimeError", "from host"),
    ("host_raise(\"CompileError\", \"from host\");", "RuntimeError", "from host"),   # surfaces as a RuntimeError instance by design
    # instances of classes that are not one of the seven built-in error classes: the report names the class a handler observes
    ("{ #[derive(ValueError)] class ParseErr { #[constructor] fn new(self, m) { self.context = m; } } throw ParseErr.new(\"unexpected\"); }", "RuntimeError", "=Unhandled ParseErr: unexpected"),
    ("throw Error.new(\"base\");", "RuntimeError", "=Unhandled Error: base"),
    ("throw StopIter.new();", "RuntimeError", "=Unhandled StopIter: nil"),
    ("{ class Plain { #[constructor] fn new(self) { self.context = \"ctx\"; } } throw Plain.new(); }", "RuntimeError", "=Unhandled Plain: ctx"),
    ("{ #[derive(Error)] class Deep { #[constructor] fn new(self) { self.context = [1, 2]; } } #[derive(Deep)] class Deeper { #[constructor] fn new(self) { super.new(); } } throw Deeper.new(); }",
     "RuntimeError", "=Unhandled Deeper: [1, 2]"),
]


# Lines that occupy a KNOWN number of source lines but whose text is full of things a line counter can trip over: escape sequences that
# denote line ends, real line ends inside string literals and inside interpolations, comment markers inside strings and quotes inside
# comments.  Each item: the physical lines (valid code, prints nothing).
NOISE = [
    ['var nz_a = "a\\nb\\n\\n";'],
    ['var nz_b = "tab\\t cr\\r bell\\a \\b \\f \\v nul\\0 q\\" bs\\\\ dollar\\$ hex\\x41 \\u4142 \\U41424344";'],
    ['var nz_c = "first', 'second', 'third";'],
    ['var nz_d = "i ${1 + 2} j ${"in ${3} ner"} k";'],
    ['var nz_e = "p ${', '1 +', '2} q";'],
    ['// comment with "quote and \\n and ${ and \\'],
    ['var nz_f = "// not a comment"; // but this is "'],
    ['var nz_g = "l1\\\\', 'l2\\n";'],
    ['var nz_h = "\u00e9\u20ac\U0001f600 \\n";'],
    ['var nz_i = "q\\"";', ''],
    ['var nz_j = "${"\\n"}${"\\n\\n"}";'],
    ['var nz_k = "x${"', '"}y\\n', '";'],
    ['var nz_l = "\\x0a\\x0a";'],
    ['', '   ', '// only a comment', ''],
    # constant expressions (what a compiler may fold or rewrite after emitting: negated / inverted literals, literal arithmetic, literal
    # concatenation, literal conditions) - a rewrite of code already written must keep the line table in step
    ['var nz_m = [-1, -2, -3];'],
    ['var nz_n = -273.15 + -0 - -1; var nz_o = (-5, -10, -20);'],
    ['var nz_p = !true; var nz_q = ~5; var nz_r = -(-(2)); var nz_s = !!nil;'],
    ['var nz_t = 1 + 2 * 3 - 4 / 2; var nz_u = "a" + "b"; var nz_v = true && false || true; var nz_w = 1 < 2; var nz_x = 1 == 1;'],
    ['var nz_y = [-1][-1]; if false { print("never"); } while false { print("never"); }'],
]


def noise_lines(rng, max_items=4):
    out = []
    for _ in range(rng.below(max_items + 1)):
        out += NOISE[rng.below(len(NOISE))]
    return out


def shift_expectation(exp, n):
    if isinstance(exp, int):
        return exp + n
    if isinstance(exp, tuple):
        return tuple(shift_expectation(e, n) for e in exp)
    if isinstance(exp, dict):
        return {k: [shift_expectation(e, n) for e in v] for k, v in exp.items()}
    return exp


def gen_trace_program(rng):
    """Returns (src, modules, expected_kind, expected_first_message or None, expected_trace_lines, fiber_boundary)."""
    lines = []
    stmt, kind, msg = FAILS[rng.below(len(FAILS))]
    in_fiber_possible = "Fiber.yield" not in stmt
    depth = rng.below(5)
    chain = []       # list of callables, innermost last: (kind, name)
    uid = 0
    # build from the innermost outward: innermost body contains the failing statement
    frames = []      # (label for trace, line of executing statement) innermost first
    body_noise = rng.fork("body-noise")
    one_liners = [it for it in NOISE if len(it) == 1 and it[0].startswith("var ")]
    def emit(l):
        lines.append(l)
        n = len(lines)
        if l.lstrip().startswith("fn ") and l.rstrip().endswith("{") and body_noise.chance(1, 2):
            # the same lexical noise at the start of a function body: the line table of THAT function must stay in step too
            lines.append("    " + one_liners[body_noise.below(len(one_liners))][0])
        return n
    for nl in noise_lines(rng.fork("noise")):
        emit(nl)
    if rng.chance(1, 3):
        # history: an earlier exception that was thrown in another function and caught must not disturb later reports
        emit("fn pre_thrower() {")
        emit("    throw \"earlier\";")
        emit("}")
        emit("try { pre_thrower(); } catch pre_e { var seen = pre_e; }")
        if rng.chance(1, 2):
            emit("try { throw \"same chunk\"; } catch pre_e2 { var seen2 = pre_e2; }")
    callee = None    # expression that calls the previous (inner) callable
    fail_line = None
    use_module = rng.chance(1, 5) and "host_raise" not in stmt
    modules = {}
    for d in range(depth):
        uid += 1
        k = rng.below(3)
        body_stmt = stmt if callee is None else callee + ";"
        if callee is None and rng.chance(1, 6):
            # recursion through a finally-only try: the statement fails in the DEEPEST call; when the error is finally reported only the
            # outermost call of the function is still active, and its entry must not name the failing line of the deeper call (the line
            # of its own recursive call, or the end of the try statement through which the error left it, are both accepted)
            name = "rec%d" % uid
            emit("fn %s(n) {" % name)
            emit("    var pad%d = n;" % uid)
            emit("    try {")
            emit("        if n == 0 {")
            la = emit("            " + body_stmt)
            emit("        }")
            lb = emit("        %s(n - 1);" % name)
            emit("    } finally {")
            emit("        pad%d = pad%d + 10;" % (uid, uid))
            lc = emit("    }")
            emit("    return pad%d;" % uid)
            emit("}")
            frames.append(("%s()" % name, (lb, lc)))
            callee = "%s(3)" % name
        elif callee is None and not body_stmt.startswith("{") and rng.chance(1, 5):
            # (statements that declare and USE locals are kept out of this shape: ledger F23, locals inside a finally block on the exception path)
            # a first exception is propagating through a finally block in which the statement chosen by the generator fails: the report is
            # that of the SECOND failure (its class, its message, its line); the superseded first throw must leave no trace
            name = "f%d" % uid
            emit("fn %s() {" % name)
            emit("    var pad%d = %d;" % (uid, uid))
            emit("    try {")
            emit("        pad%d = pad%d + 1;" % (uid, uid))
            emit("        throw \"superseded\";")
            emit("    } finally {")
            emit("        pad%d = pad%d + 10;" % (uid, uid))
            ln = emit("        " + body_stmt)
            emit("        pad%d = pad%d + 100;" % (uid, uid))
            emit("    }")
            emit("    return pad%d;" % uid)
            emit("}")
            frames.append(("%s()" % name, ln))
            callee = "%s()" % name
        elif callee is None and rng.chance(1, 3):
            # the failing statement sits in a try block that has only a finally: the finally runs, the error stays uncaught and the
            # entry of this call must still name the line of the failing statement (not the end of the try statement)
            name = "f%d" % uid
            emit("fn %s() {" % name)
            emit("    var pad%d = %d;" % (uid, uid))
            emit("    try {")
            emit("        pad%d = pad%d + 1;" % (uid, uid))
            ln = emit("        " + body_stmt)
            emit("        pad%d = pad%d + 1;" % (uid, uid))
            emit("    } finally {")
            emit("        pad%d = pad%d + 10;" % (uid, uid))
            emit("    }")
            emit("    return pad%d;" % uid)
            emit("}")
            frames.append(("%s()" % name, ln))
            callee = "%s()" % name
        elif rng.chance(1, 6):
            # plain recursion: several activations of ONE function, all but the innermost executing the same statement - the trace has one
            # entry per activation, identical entries included (a tail call is a call: its caller is still active)
            name = "rp%d" % uid
            reps = 2 + rng.below(3)
            form = rng.choice(["tail", "value", "stmt"])
            emit("fn %s(n) {" % name)
            la = emit("    if n == 0 { " + body_stmt + " }")
            if form == "tail":
                lb = emit("    return %s(n - 1);" % name)
            elif form == "value":
                lb = emit("    var got%d = %s(n - 1);" % (uid, name))
                emit("    return got%d;" % uid)
            else:
                lb = emit("    %s(n - 1);" % name)
                emit("    return 0;")
            emit("}")
            frames.append(("%s()" % name, la))
            for _ in range(reps):
                frames.append(("%s()" % name, lb))
            callee = "%s(%d)" % (name, reps)
        elif k == 0 and rng.chance(1, 2):
            # lambdas that capture locals are created before the statement of interest (their Closure instruction carries operand
            # bytes per captured variable: every byte needs its line-table entry or later lines shift)
            name = "f%d" % uid
            emit("fn %s() {" % name)
            emit("    var cap%da = %d;" % (uid, uid))
            emit("    var cap%db = %d;" % (uid, uid + 1))
            emit("    var lam%d = || cap%da + cap%db;" % (uid, uid, uid))
            emit("    var lam%dx = |q| q + cap%da;" % (uid, uid))
            ln = emit("    " + body_stmt)
            emit("    return lam%d() + lam%dx(1);" % (uid, uid))
            emit("}")
            frames.append(("%s()" % name, ln))
            callee = "%s()" % name
        elif k == 0:
            name = "f%d" % uid
            emit("fn %s() {" % name)
            emit("    var pad%d = %d;" % (uid, uid))
            ln = emit("    " + body_stmt)
            emit("}")
            frames.insert(0, ("%s()" % name, ln)) if False else frames.append(("%s()" % name, ln))
            callee = "%s()" % name
        elif k == 1:
            cname = "C%d" % uid
            emit("#[constructor(new)]")
            emit("class %s {" % cname)
            emit("    fn m%d(self) {" % uid)
            ln = emit("        " + body_stmt)
            emit("    }")
            emit("}")
            frames.append(("m%d()" % uid, ln))
            callee = "%s.new().m%d()" % (cname, uid)
        else:
            name = "f%d" % uid
            emit("fn %s(a) {" % name)
            emit("    if a == 0 { return 0; }")
            ln = emit("    " + body_stmt)
            emit("    return 1;")
            emit("}")
            frames.append(("%s()" % name, ln))
            callee = "%s(1)" % name
    top_stmt = stmt if callee is None else callee + ";"
    fiber = in_fiber_possible and depth > 0 and rng.chance(1, 4)
    trace = []
    if fiber:
        # the chain runs inside a fiber whose body is a named function: the trace stops at the fiber's first frame
        emit("fn fiber_body() {")
        ln = emit("    " + top_stmt)
        emit("}")
        frames.append(("fiber_body()", ln))
        emit("var fb = Fiber.new(fiber_body);")
        emit("fb.call();")
        trace = [(lab, l, "main") for lab, l in reversed(frames)]
        trace = list(reversed([(lab, l, "main") for lab, l in frames]))
    else:
        emit("var before = 1;")
        ln = emit(top_stmt)
        emit("print(\"not reached\");")
        frames.append(("script", ln))
        trace = list(reversed([(lab, l, "main") for lab, l in frames]))
    # frames were appended innermost-first, so the trace (innermost first) is frames in order
    trace = [(lab, l, "main") for lab, l in frames]
    src = "\n".join(lines) + "\n"
    if use_module and not fiber:
        # move everything into a module; main imports it on line 2
        modules = {"tmod": src}
        trace = [(lab, l, "tmod") for lab, l, _ in trace]
        src = "var pre = 0;\nimport \"tmod\";\nprint(\"not reached\");\n"
        trace.append(("script", 2, "main"))
    if msg is None:
        if stmt.startswith("throw \"custom\""):
            first = "Unhandled exception: custom"
        elif stmt.startswith("throw 42"):
            first = "Unhandled exception: 42"
        else:
            first = None
    elif msg.startswith("="):
        first = msg[1:]
    else:
        first = "Unhandled %s: %s" % (kind, msg)
    def entry(mod, l, lab):
        if isinstance(l, tuple):
            return "|".join("[module \"%s\", line %d] in %s" % (mod, x, lab) for x in l)
        return "[module \"%s\", line %d] in %s" % (mod, l, lab)
    expected_trace = [entry(mod, l, lab) for lab, l, mod in trace]
    if rng.chance(1, 6):
        # the same program with CRLF line ends: a carriage return is white space, not a line
        src = src.replace("\n", "\r\n")
        modules = {k: v.replace("\n", "\r\n") for k, v in modules.items()}
    return src, modules, kind, first, expected_trace


VALID_BASE = ["var a = 1;", "var b = 2;", "fn add(x, y) {", "    return x + y;", "}", "class K {", "    fn m(self) {", "        return 1;", "    }", "}",
              "var c = add(a, b);", "{", "    var inner = c;", "    print(inner);", "}", "for i in 0..2 {", "    print(i);", "}", "print(\"end\");"]

FAULTS = [
    # (name, function(lines) -> (new_lines, expected_line)) ; line numbers are 1-based
    ("missing-semicolon", lambda L: (L[:10] + ["var c = add(a, b)"] + L[11:], 12)),          # reported at the next token '{' on line 12
    ("missing-close-paren", lambda L: (L[:18] + ["print(\"end\";"], 19)),
    ("duplicate-local", lambda L: (L[:12] + ["    var inner = c;", "    var inner = 2;"] + L[14:], 14)),
    ("own-initialiser", lambda L: (L[:12] + ["    var inner = inner;"] + L[13:], 13)),
    ("return-at-top-level", lambda L: (L[:10] + ["return 1;"] + L[11:], 11)),
    ("break-outside-loop", lambda L: (L[:10] + ["break;"] + L[11:], 11)),
    ("continue-outside-loop", lambda L: (L[:10] + ["continue;"] + L[11:], 11)),
    ("bad-escape", lambda L: (L[:18] + ["print(\"e\\qnd\");"], 19)),
    ("bad-variable-name", lambda L: (["var 1 = 2;"] + L[1:], 1)),
    ("missing-function-name", lambda L: (L[:2] + ["fn (x, y) {"] + L[3:], 3)),
    ("missing-class-name", lambda L: (L[:5] + ["class {"] + L[6:], 6)),
    ("missing-operand", lambda L: (L[:10] + ["var c = a +;"] + L[11:], 11)),
    ("unexpected-character", lambda L: (L[:10] + ["var c = a @ b;"] + L[11:], 11)),
    ("self-outside-class", lambda L: (L[:10] + ["var c = self;"] + L[11:], 11)),
    ("super-outside-class", lambda L: (L[:10] + ["var c = super.m();"] + L[11:], 11)),
    ("invalid-assignment-target", lambda L: (L[:10] + ["a + b = 3;"] + L[11:], 11)),
    ("missing-brace-after-if", lambda L: (L[:10] + ["if a print(1);"] + L[11:], 11)),
    ("unterminated-string", lambda L: (L[:18] + ["print(\"end);"], (19, 20))),   # the token runs from line 19 to the end of input
    ("catch-without-try", lambda L: (L[:10] + ["catch e { }"] + L[11:], 11)),
    ("try-without-catch", lambda L: (L[:10] + ["try { a = 2; }"] + L[11:], 11)),
    ("too-many-arguments", lambda L: (L[:10] + ["var c = add(%s);" % ", ".join("1" for _ in range(256))] + L[11:], 11)),
    # two faults: a string whose escape swallows the line end, then a later error whose line must still be right (every message checked)
    ("escape-x-swallows-newline", lambda L: (L[:10] + ["var s = \"\\x", "1\";", "var t = ;"] + L[11:], {"all": [(11, 12), 13]})),
    ("escape-u-swallows-newline", lambda L: (L[:10] + ["var s = \"\\u00", "41\";", "var t = ;"] + L[11:], {"all": [(11, 12), 13]})),
    ("escape-U-swallows-newline", lambda L: (L[:10] + ["var s = \"ab\\U0000", "0041\";", "print(s", "var t = ;"] + L[11:], {"all": [(11, 12), 14]})),
    # F51: the line end is consumed as the character after `\` / after `$` (both errors): what follows is on the next line all the same
    ("backslash-newline-in-string", lambda L: (L[:10] + ["var s = \"abc\\", "def\" + \";", "var t = ;"] + L[11:], {"all": [11, 13]})),
    ("dollar-newline-in-string", lambda L: (L[:10] + ["var s = \"abc$", "def\" + \";", "var t = ;"] + L[11:], {"all": [11, 13]})),
    ("static-with-self", lambda L: (L[:6] + ["    #[static]", "    fn m(self) {"] + L[7:], 8)),
]


LONG_PREFIXES = [254, 255, 256, 32766, 32767, 32768, 65534, 65535, 65536, 70000, 131075, 1000003]


def runaway_cases():
    """Unbounded recursion ends in 'Stack overflow.' with one trace entry per active call: FRAMES_MAX - 1 identical ones and the script's."""
    first = "Unhandled IndexError: Stack overflow."
    out = []
    for body, call_line in (("fn f() { f(); }\nf();\n", 1), ("fn f() {\n    return f();\n}\nf();\n", 2), ("fn f(n) {\n    var pad = n;\n    return f(n + 1) + 1;\n}\nvar before = 1;\nf(0);\n", 3)):
        nlines = body.count("\n")
        out.append((body, {}, "IndexError", first, ['[module "main", line %d] in f()' % call_line] * 63 + ['[module "main", line %d] in script' % nlines]))
    out.append(("fn a(n) {\n    return b(n);\n}\nfn b(n) {\n    return a(n);\n}\na(0);\n", {}, "IndexError", first,
                (['[module "main", line 2] in a()', '[module "main", line 5] in b()'] * 32)[:63] + ['[module "main", line 7] in script']))
    return out


def long_file_cases():
    """The failing statement and its call site stand after N empty lines, N around every power of two a narrower line table could wrap at;
    in the main script and in an imported module."""
    first = "Unhandled TypeError: Binary operands must be two numbers or two strings."
    out = []
    for n in LONG_PREFIXES:
        tail = "fn poke() {\n    var z = nil + 1;\n}\nvar pad = 1;\npoke();\n"
        out.append(("\n" * n + tail, {}, "TypeError", first,
                    ['[module "main", line %d] in poke()' % (n + 2), '[module "main", line %d] in script' % (n + 5)]))
        out.append(('import "longmod";\nvar pad = 1;\nlongmod.poke();\n', {"longmod": "\n" * n + "fn poke() {\n    var z = nil + 1;\n}\n"}, "TypeError", first,
                    ['[module "longmod", line %d] in poke()' % (n + 2), '[module "main", line 3] in script']))
    return out


SIMPLE_FAILS = [
    ("var z = nil + 1;", "TypeError", "Unhandled TypeError: Binary operands must be two numbers or two strings."),
    ("var z = [1][5];", "IndexError", "Unhandled IndexError: Vec index out of bounds."),
    ("var z = undefined_name;", "NameError", "Unhandled NameError: Undefined variable 'undefined_name'."),
    ("var z = 1.nosuch;", "AttributeError", "Unhandled AttributeError: Undefined property 'nosuch'."),
    ("var z = [1][0.5];", "ValueError", "Unhandled ValueError: Expected an integer value but found '0.5'."),
    ("throw Error.new(\"made here\");", "RuntimeError", "Unhandled Error: made here"),
]


def twin_cases():
    """Functions (methods, functions of a module and of the script) whose bodies are IDENTICAL - same instructions, same constants - on
    different lines: the one that runs is reported with ITS lines.  (Code shared between textually equal functions must not share
    what locates it.)"""
    out = []
    for stmt, kind, first in SIMPLE_FAILS:
        # two and three identical functions; the last, the middle one fails
        for n, which in ((2, 1), (3, 1), (3, 2)):
            lines = []
            for k in range(n):
                lines += ["fn twin%d() {" % k, "    var pad = 1;", "    " + stmt, "    return pad;", "}"]
            lines += ["var before = 0;", "twin%d();" % which]
            out.append(("\n".join(lines) + "\n", {}, kind, first, ['[module "main", line %d] in twin%d()' % (which * 5 + 3, which), '[module "main", line %d] in script' % (n * 5 + 2)]))
        # the same method in two classes (and an identical default shape around it)
        lines = ["#[constructor(new)]", "class First {", "    fn label(self) {", "        " + stmt, "    }", "}", "#[constructor(new)]", "class Second {", "    fn label(self) {", "        " + stmt, "    }", "}",
                 "var ok = 1;", "Second.new().label();"]
        out.append(("\n".join(lines) + "\n", {}, kind, first, ['[module "main", line 10] in label()', '[module "main", line 14] in script']))
        # identical callers of identical callees
        lines = ["fn inner_a() {", "    " + stmt, "}", "fn inner_b() {", "    " + stmt, "}", "fn outer_a() {", "    return inner_b();", "}", "fn outer_b() {", "    return inner_b();", "}", "outer_b();"]
        out.append(("\n".join(lines) + "\n", {}, kind, first, ['[module "main", line 5] in inner_b()', '[module "main", line 11] in outer_b()', '[module "main", line 13] in script']))
        # the same function text in a module and in the script
        if "undefined_name" not in stmt:
            mod = "fn shared() {\n    var pad = 1;\n    %s\n}\n" % stmt
            lines = ["import \"twinmod\";", "var gap = 0;", "fn shared() {", "    var pad = 1;", "    " + stmt, "}", "shared();"]
            out.append(("\n".join(lines) + "\n", {"twinmod": mod}, kind, first, ['[module "main", line 5] in shared()', '[module "main", line 7] in script']))
            lines = ["import \"twinmod\";", "fn shared() {", "    var pad = 1;", "    " + stmt, "}", "var gap = 0;", "twinmod.shared();"]
            out.append(("\n".join(lines) + "\n", {"twinmod": mod}, kind, first, ['[module "twinmod", line 3] in shared()', '[module "main", line 7] in script']))
    return out


def lambda_name_cases():
    """The name a lambda has in a trace: every function - named, method, lambda - numbers the lambdas written directly in its body from 0 in
    source order; a lambda nested in a lambda starts again at lambda-0, and lambdas that follow a nesting lambda continue the outer count."""
    out = []
    for stmt, kind, first in SIMPLE_FAILS:
        lines = ["var first = || 1;", "var outer = || {", "    var inner_a = || 2;", "    var inner_b = || {", "        " + stmt, "    };", "    return inner_b();", "};",
                 "var later = || {", "    return outer();", "};", "later();"]
        out.append(("\n".join(lines) + "\n", {}, kind, first, ['[module "main", line 5] in lambda-1()', '[module "main", line 7] in lambda-1()', '[module "main", line 10] in lambda-2()',
                                                                '[module "main", line 12] in script']))
        lines = ["fn named() {", "    var l0 = || 0;", "    var l1 = || {", "        var n0 = || {", "            " + stmt, "        };", "        var n1 = || n0();", "        return n1();", "    };",
                 "    var l2 = || l1();", "    return l2();", "}", "var s0 = || named();", "s0();"]
        out.append(("\n".join(lines) + "\n", {}, kind, first, ['[module "main", line 5] in lambda-0()', '[module "main", line 7] in lambda-1()', '[module "main", line 8] in lambda-1()',
                                                                '[module "main", line 10] in lambda-2()', '[module "main", line 11] in named()', '[module "main", line 13] in lambda-0()',
                                                                '[module "main", line 14] in script']))
        lines = ["#[constructor(new)]", "class K {", "    fn m(self) {", "        var a = || {", "            var deep = || {", "                " + stmt, "            };", "            return deep();", "        };",
                 "        var b = || a();", "        return b();", "    }", "}", "K.new().m();"]
        out.append(("\n".join(lines) + "\n", {}, kind, first, ['[module "main", line 6] in lambda-0()', '[module "main", line 8] in lambda-0()', '[module "main", line 10] in lambda-1()',
                                                                '[module "main", line 11] in m()', '[module "main", line 14] in script']))
    return out


def simultaneous_error_cases():
    """Two things wrong with ONE call: the wrong number of arguments, made from the deepest frame a fiber may have (the call would also
    exceed the frame limit).  The report is the arity error (the callee is never entered); one frame shallower, and with the right
    number of arguments at the limit, each condition alone is reported as itself.  For a function, a method and a lambda."""
    out = []
    forms = [("function", ["fn leaf(x) {", "    return x;", "}"], "leaf(%s)"),
             ("method", ["#[constructor(new)] class L {", "    fn leaf(self, x) { return x; } }", "var obj = L.new();"], "obj.leaf(%s)"),
             ("lambda", ["var leaf = |x| x;", "var pad1 = 0;", "var pad2 = 0;"], "leaf(%s)")]
    arity = "Unhandled TypeError: Expected 1 arguments but found 0."
    depth = "Unhandled IndexError: Stack overflow."
    for name, decl, call in forms:
        limit = 62          # the script, then dive(62) .. dive(0): 64 frames; the call made from dive(0) would be the 65th
        for n, arg, kind, first in ((limit, "", "TypeError", arity), (limit - 1, "", "TypeError", arity), (limit, "1", "IndexError", depth)):
            lines = decl + ["fn dive(n) {", "    if n == 0 {", "        return %s;" % (call % arg), "    }", "    return dive(n - 1);", "}", "dive(%d);" % n]
            out.append(("\n".join(lines) + "\n", {}, kind, first, ['[module "main", line 6] in dive()'] + ['[module "main", line 8] in dive()'] * n + ['[module "main", line 10] in script']))
    return out


def reraised_cases():
    """The same failure happens twice: the first time it is caught and the handler CHANGES the error object it was given (its context, a
    new field); the second time it is not caught.  The report of the second failure is that failure's own class, message and lines."""
    out = []
    for stmt, kind, first in SIMPLE_FAILS:
        for between in (0, 3, 9):
            lines = ["fn risky() {", "    " + stmt, "    return 0;", "}",
                     "try { risky(); } catch e { e.context = \"rewritten by the handler\"; e.note = [1]; }"]
            for k in range(between):
                lines.append("try { var q%d = [1, 2][%d]; } catch e%d { e%d.context = %d; }" % (k, 7 + k, k, k, k))
            lines += ["var gap = 0;", "risky();"]
            out.append(("\n".join(lines) + "\n", {}, kind, first, ['[module "main", line 2] in risky()', '[module "main", line %d] in script' % (7 + between)]))
    return out


def trace_matches(got, want):
    """`want` entries may list alternatives separated by `|`."""
    return len(got) == len(want) and all(g in w.split("|") for g, w in zip(got, want))


def correspondence(ctx, model_ok=True):
    rng = ctx.rng.fork("c17")
    failures = []
    broken = []
    n_tr = 9000 if ctx.thorough else 7000
    cases = []
    cdir = os.path.join(vlib.VERIF, "corpus", "C17")
    for fn in sorted(os.listdir(cdir)) if os.path.isdir(cdir) else []:      # minimised past failures run first
        j = json.load(open(os.path.join(cdir, fn)))
        if "expected_trace" in j:
            cases.append((j["program"], j.get("modules", {}), j["expected_kind"], j.get("expected_first"), j["expected_trace"]))
    n_corpus = len(cases)
    cases += long_file_cases()
    cases += runaway_cases()
    cases += twin_cases() + reraised_cases() + lambda_name_cases() + simultaneous_error_cases()
    cases += [gen_trace_program(rng.fork("t%d" % i)) for i in range(n_tr)]
    plist = [("trace%d" % i, c[0], c[1]) for i, c in enumerate(cases)]
    nontrivial = set()
    spec_steps = 0
    kinds_seen = {}
    depth_seen = {}
    for mode in ({"gc": "default", "bytecode": 1}, {"gc": "always", "quarantine": 1}):
        res, tlines = progs.run_programs(ctx.runner, plist, mode, tag="t")
        if mode.get("bytecode") and model_ok:
            full = vlib.run_real(ctx.runner, tlines)
            sd = specdiff.diff_lines(ctx, tlines, full, broken, what="failing program",
                                     payload_of=lambda i: {"program": plist[i][1], "modules": plist[i][2]})
            failures += sd["failures"]
            spec_steps = sd["compared"]
        for (name, src, mods), (s, m, kind, first, trace), r in zip(plist, cases, res):
            c = progs.canon_step(r)
            bad = None
            if c[0] != "err":
                bad = "run ended with %s, expected an uncaught %s" % (c[0], kind)
            elif c[1] != kind:
                bad = "reported kind %s, expected %s" % (c[1], kind)
            else:
                msgs = list(c[3])
                nfirst = len(msgs) - len(trace)
                if first is not None and (not msgs or msgs[0] != first):
                    bad = "first message %r, expected %r" % (msgs[:1], first)
                elif not trace_matches(msgs[-len(trace):], trace):
                    bad = "trace %s, expected %s" % (msgs[-len(trace):] if len(msgs) >= len(trace) else msgs, trace)
                elif c[2]:
                    bad = "printed %s although the failing statement precedes every print" % (list(c[2]),)
            if mode.get("bytecode"):
                kinds_seen[kind] = kinds_seen.get(kind, 0) + 1
                depth_seen[len(trace)] = depth_seen.get(len(trace), 0) + 1
                nontrivial.add(src + json.dumps(mods))
                for fn in (r.get("functions") or []) if isinstance(r, dict) else []:
                    if len(fn["lines"]) * 2 != len(fn["code"]):
                        failures.append({"what": "a compiled function's line table is not parallel to its code", "program": src,
                                         "function": fn["name"], "code_bytes": len(fn["code"]) // 2, "lines": len(fn["lines"]),
                                         "signature": "lines not parallel", "failing_input": True})
            if bad:
                failures.append({"what": "uncaught error report is wrong: " + bad, "program": src, "modules": mods, "expected_kind": kind,
                                 "expected_first": first, "expected_trace": trace, "observed": c,
                                 "signature": "trace: " + bad.split(",")[0].split(" %")[0][:60] + (" [" + kind + "]" if "kind" in bad else ""),
                                 "failing_input": True})
    # every built-in failure of the C08 catalogue, UNCAUGHT: the report must carry the class a handler observes (the catalogue's class)
    # and the trace must name the failing line in the function and the calling line in the script
    from props import c08
    prelude = ["#[constructor(new)] class K { fn m(self) { return 1; } }", "fn two(a, b) { return a; }", "fn deep_recursion(n) { return deep_recursion(n + 1); }",
               "var done_fiber = Fiber.new(|| 1); done_fiber.call();"]
    ucat = []
    for src, cls in [("var z = %s;" % e, c) for e, c in c08.BUILTIN_FAILURES] + list(c08.BUILTIN_STATEMENTS):
        if "deep_recursion" in src:
            continue                      # 64 trace entries: covered by the generated chains
        body = prelude + ["fn failing() {", "    var before = 1;", "    " + src, "    return before;", "}", "var pad = 0;", "failing();", "print(\"not reached\");"]
        ucat.append((src, cls, "\n".join(body) + "\n", len(prelude) + 3, len(prelude) + 7))
    ulines = [vlib.case_line("u%d" % i, ["M:%s:%s" % (vlib.hx("bad_syntax_module"), vlib.hx("var = ;\n")), "S:" + vlib.hx(u[2])], steps=3000000)
              for i, u in enumerate(ucat)]
    ures = vlib.run_real(ctx.runner, ulines)
    for (src, cls, prog, fl, cl), r in zip(ucat, ures):
        st = (r.get("steps") or [{}])[-1] if isinstance(r, dict) else {}
        c = progs.canon_step(st if st else r)
        msgs = list(c[3]) if len(c) > 3 else []
        want = ["[module \"main\", line %d] in failing()" % fl, "[module \"main\", line %d] in script" % cl]
        bad = None
        if c[0] != "err" or c[1] != cls:
            bad = "reported as %s %s, a handler observes %s" % (c[0], c[1] if len(c) > 1 else "", cls)
        elif not msgs or not msgs[0].startswith("Unhandled %s: " % cls):
            bad = "first message %r does not name the class %s" % (msgs[:1], cls)
        elif msgs[-2:] != want and "import" not in src:
            bad = "trace %s, expected %s" % (msgs[-2:], want)
        elif c[2]:
            bad = "printed %s after the failure" % (list(c[2]),)
        if bad:
            failures.append({"what": "uncaught built-in failure `%s`: %s" % (src, bad), "program": prog, "modules": {"bad_syntax_module": "var = ;\n"},
                             "expected_kind": cls, "expected_first": None, "expected_trace": want if "import" not in src else [want[-1]],
                             "observed": c, "signature": "uncaught built-in failure: " + bad.split(",")[0].split(" %")[0][:50], "failing_input": True})
    if model_ok:
        sd = specdiff.diff_lines(ctx, ulines, ures, broken, what="uncaught built-in failure",
                                 payload_of=lambda i: {"program": ucat[i][2], "modules": {"bad_syntax_module": "var = ;\n"}})
        failures += sd["failures"]
        spec_steps += sd["compared"]
    # errors from host natives are catchable values of the corresponding class
    host = []
    for k in ["AttributeError", "ImportError", "IndexError", "NameError", "RuntimeError", "TypeError", "ValueError"]:
        host.append(("host:" + k, "try { host_raise(\"%s\", \"m-%s\"); print(\"no\"); } catch e { print(type(e) == %s); print(e.derives(Error)); print(e.context); }\n" % (k, k, k),
                     ["true", "true", "m-" + k]))
    host.append(("host:CompileError", "try { host_raise(\"CompileError\", \"m\"); } catch e { print(type(e) == RuntimeError); print(e.context); }\n", ["true", "m"]))
    host.append(("host:arity", "try { host_raise(\"TypeError\"); } catch e { print(type(e) == TypeError); }\n", ["true"]))
    hres, _ = progs.run_programs(ctx.runner, [(n, s, {}) for n, s, _ in host], {"gc": "default"}, tag="h")
    for (name, src, exp), r in zip(host, hres):
        c = progs.canon_step(r)
        if c[0] != "ok" or list(c[2]) != exp:
            failures.append({"what": "an error raised by a host native is not the catchable value of its class", "program": src, "expected": exp,
                             "observed": c, "signature": "host native " + name.split(":")[1], "failing_input": True})
    # compile-error catalogue
    cat = []
    for name, f in FAULTS:
        L, line = f(list(VALID_BASE))
        cat.append((name, "\n".join(L) + "\n", line))
    # the same faults below every item of the lexical-noise catalogue (known number of source lines each), and below all of them
    for k, item in enumerate(NOISE + [[l for it in NOISE for l in it]]):
        for name, f in FAULTS[k % 3::3] if k < len(NOISE) else FAULTS:
            L, line = f(list(VALID_BASE))
            cat.append(("%s/noise%d" % (name, k), "\n".join(item + L) + "\n", shift_expectation(line, len(item))))
    for n in LONG_PREFIXES:
        cat.append(("fault-after-%d-empty-lines" % n, "\n" * n + "var = ;\n", n + 1))
    cres, _ = progs.run_programs(ctx.runner, [(n, s, {}) for n, s, _ in cat] + [("valid", "\n".join(VALID_BASE) + "\n", {})], {"gc": "default"}, tag="c")
    if progs.canon_step(cres[-1])[0] != "ok":
        broken.append("the fault-free base program of the compile-error catalogue does not run: %s" % (progs.canon_step(cres[-1]),))
    for (name, src, line), r in zip(cat, cres):
        c = progs.canon_step(r)
        if isinstance(line, dict):
            want = [l if isinstance(l, tuple) else (l,) for l in line["all"]]
            got = list(c[3]) if len(c) > 3 else []
            okall = c[0] == "err" and c[1] == "CompileError" and len(got) >= len(want) and all(
                any(g.startswith("[module \"main\", line %d]" % l) for l in ls) for g, ls in zip(got, want)) and not c[2]
            if not okall:
                failures.append({"what": "compile errors for fault '%s' do not name lines %s in turn" % (name, line["all"]), "program": src,
                                 "expected_lines": [list(w) for w in want], "observed": c, "signature": "compile-error line: " + name.split("/")[0], "failing_input": True})
            continue
        lines_ok = line if isinstance(line, tuple) else (line,)
        if c[0] != "err" or c[1] != "CompileError" or not c[3] or not any(c[3][0].startswith("[module \"main\", line %d]" % l) for l in lines_ok) or c[2]:
            failures.append({"what": "compile error for fault '%s' does not name line %s first (or code ran)" % (name, line), "program": src,
                             "expected_line": list(lines_ok), "observed": c, "signature": "compile-error line: " + name.split("/")[0], "failing_input": True})
    # one faulty source (at least) per compile-time message of the sources, on one line and with one token per line: the located messages
    # must be those of the reference parser, the (line, quoted token) of each must be the reviewed one (tools/gen/cerrors_located.json:
    # the offending token of every entry was checked by reading when the catalogue was written), and the catalogue must reach every
    # message format the regenerated table lists (reported in the evidence; size-limit messages are C04's limit programs)
    from gen import cerrors
    import re as _re
    ccases = cerrors.cases()
    located = json.load(open(os.path.join(vlib.VERIF, "tools", "gen", "cerrors_located.json")))
    clines = [vlib.case_line("e%d" % i, ["C:" + vlib.hx(src)]) for i, (_, src) in enumerate(ccases)]
    creal = vlib.run_real(ctx.runner, clines, timeout_per_batch=300, batch=400)
    observed_msgs = []
    for (name, src), r in zip(ccases, creal):
        st = (r.get("steps") or [{}])[0] if isinstance(r, dict) else {}
        msgs = [m for m in (st.get("messages") or []) if m.startswith("[module")]
        observed_msgs += msgs
        got = []
        for m in msgs:
            mm = _re.match(r'\[module "main", line (\d+)\] Error(?: at (end|\'((?:[^\']|\'(?!:))*)\'))?:', m)
            got.append([int(mm.group(1)), ("<end>" if mm.group(2) == "end" else mm.group(3)) if mm.group(2) else None] if mm else [None, m[:60]])
        want = located.get(name)
        if st.get("status") != "err" or st.get("kind") != "CompileError" or (want is not None and got != want):
            failures.append({"what": "compile-error catalogue '%s': reported at %s (status %s), the offending tokens are %s" % (name, got, st.get("status"), want),
                             "program": src if len(src) < 3000 else src[:3000], "expected_located": want, "observed": [m[:160] for m in msgs],
                             "signature": "compile-error location: " + name.split("/")[0], "failing_input": True})
    fmts = cerrors.source_messages(os.path.join(vlib.LEAN_DIR, "Yarel", "Gen", "Messages.lean"))
    fm_hit, fm_miss = cerrors.coverage(fmts, observed_msgs)
    if model_ok:
        csd = specdiff.compile_and_scan_diff(ctx, ccases, broken)
        for f in csd["failures"]:
            f["signature"] = "compile-error catalogue vs reference parser: " + f["name"].split("/")[0]
        failures += csd["failures"]
        spec_steps += csd["compile_compared"]
    # compile errors whose TEXT names a token: it must be the offending one (F52: "Duplicate attribute" named the token before it)
    named = [
        ("duplicate-attribute-with-arguments", "#[derive(Object),\n  derive(Object)]\nclass A {\n}\n", "[module \"main\", line 2] Error at 'derive': Duplicate attribute 'derive'."),
        ("duplicate-attribute-without-arguments", "class K {\n    #[static,\n      static]\n    fn s() {}\n}\n", "[module \"main\", line 3] Error at 'static': Duplicate attribute 'static'."),
        ("unsupported-attribute", "#[frobnicate]\nclass A {}\n", "[module \"main\", line 1] Error at 'frobnicate': Unsupported class attribute 'frobnicate'."),
    ]
    nres, _ = progs.run_programs(ctx.runner, [(n, s_, {}) for n, s_, _ in named], {"gc": "default"}, tag="n")
    for (name, src, want), r in zip(named, nres):
        c = progs.canon_step(r)
        if c[0] != "err" or c[1] != "CompileError" or not c[3] or c[3][0] != want:
            failures.append({"what": "compile error '%s' reads %s, expected %r" % (name, list(c[3])[:1] if len(c) > 3 else c, want), "program": src,
                             "expected_message": want, "observed": c, "signature": "compile-error text: " + name, "failing_input": True})
    cov = {
        "evaluations": 2 * n_tr + len(host) + len(cat) + len(ucat) + len(ccases), "compile_error_catalogue": len(ccases), "compile_message_formats_in_source": len(fmts), "compile_message_formats_reached": len(fm_hit), "compile_message_formats_not_reached": fm_miss, "uncaught_builtin_failures": len(ucat),
        "distinct_nontrivial": len(nontrivial),
        "rule": "one-statement-per-line programs with a chosen failing statement (19 kinds), call chain of depth 0-4 through functions, methods, "
                "module bodies and fibers; expected class, first message and every trace entry constructed; distinct = distinct program; 2 GC modes; "
                "plus host-native errors and %d single-fault compile-error injections with known line" % len(cat),
        "samples": [cases[0][0], cases[0][4]],
        "error_kinds": kinds_seen, "trace_depths": depth_seen,
        "programs": n_tr + n_corpus + len(host) + len(cat), "corpus_replays": n_corpus, "steps_compared_with_reference_interpreter": spec_steps,
    }
    return {"failures": dedupe(failures), "coverage": cov, "broken": broken}


def dedupe(failures):
    out = {}
    for f in failures:
        out.setdefault(f["signature"], f)
    return list(out.values())


def replay(ctx, payload):
    if "case_line" in payload:
        return specdiff.replay_line(ctx, payload)
    if "program" not in payload:
        return False, "nothing to replay"
    r, _ = progs.run_programs(ctx.runner, [("r", payload["program"], payload.get("modules", {}))], {"gc": "default"})
    c = progs.canon_step(r[0])
    if "expected_message" in payload:
        return (c[0] == "err" and len(c) > 3 and bool(c[3]) and c[3][0] == payload["expected_message"]), str(c)[:500]
    if "expected_trace" in payload:
        t = payload["expected_trace"]
        ok = c[0] == "err" and c[1] == payload["expected_kind"] and trace_matches(list(c[3])[-len(t):], t) and (payload["expected_first"] is None or c[3][0] == payload["expected_first"])
        return ok, str(c)
    if "expected_line" in payload:
        el = payload["expected_line"] if isinstance(payload["expected_line"], list) else [payload["expected_line"]]
        return c[0] == "err" and c[1] == "CompileError" and any(c[3][0].startswith("[module \"main\", line %d]" % l) for l in el), str(c)
    if "expected" in payload:
        return c[0] == "ok" and list(c[2]) == payload["expected"], str(c)
    return False, str(c)
