"""C16 — garbage is reclaimed: heap size is bounded by live data.

Theorems: Yarel.Props.C16 (overshoot_le_one_alloc, thr_is_twice_survivors, no_unbounded_growth, roots_exact on the pacing/root
models) and Yarel.Props.GcCollector (collect_complete: nothing unreachable survives; sweep_bytes: byte accounting).
Correspondence:
  (a) the real allocator's event stream in the paced (release) configuration replayed through the pacing model, plus the
      property's own bound checked on the recorded numbers;
  (b) census metamorphics after a forced collection: N vs 2N loop iterations leave the same objects; a program that drops all
      its globals leaves what the empty program leaves; the sum of root counts returns to its baseline.
"""
import json

import vlib
import progs
from gen import yl

THEOREM_MODULES = ["Yarel.Props.C16", "Yarel.Props.GcCollector", "Yarel.Props.ModelLimits"]
REQUIRED_THEOREMS = ["overshoot_le_one_alloc", "thr_is_twice_survivors", "no_unbounded_growth", "roots_exact",
                     "collect_complete", "sweep_bytes"]
# the state the models abstract is all the state there is: the fields of the run-time structures, regenerated on every run, are the ones
# the models were written against (Props/StateInventory)
THEOREM_MODULES.append("Yarel.Props.StateInventory.state_of_heap")
REQUIRED_THEOREMS += ['state_of_heap']
# who writes the state the mechanism models are about: the set of write sites per group of fields, regenerated on every run (Props/StateWrites)
THEOREM_MODULES.append("Yarel.Props.StateWrites.writers_of_heap_accounting")
REQUIRED_THEOREMS += ['writers_of_heap_accounting']
LEVEL = "proof"
ASSUMPTIONS = [
    "pacing model Yarel/Model/Pacing.lean transcribes Heap::allocate_raw/collect_if_required/collect (tie: replay of real alloc events)",
    "size_of::<T>() at allocation equals size_of_val at sweep for every managed type (sized types only)",
    "usize arithmetic does not overflow (Nat in the model)",
    "interned strings, chunks and compiled functions are retained by design and excluded from the census",
]
EXCLUDED = ("ObjString", "Chunk", "ObjFunction")
INIT_BUDGET = 65536
GROWTH = 2


# ties between the function bodies translated from the Rust source on every run (Gen/Fns.lean) and the hand-written models
THEOREM_MODULES.append("Yarel.Props.CollectSites")
REQUIRED_THEOREMS += ["collections_start_only_in_allocate_raw"]
THEOREM_MODULES.append("Yarel.Props.FnsTie.Pacing")
REQUIRED_THEOREMS += ['allocate_raw_tie', 'collect_if_required_tie', 'collect_tie', 'alloc_glued_is_model']
# the three passes of a collection translated from memory.rs on every run (Props/FnsTie/GcPasses): they ARE the model's markRoots /
# traceReferences / sweep (for every heap, colouring and bound), so "everything unmarked is freed and paid for" is about the code as read
THEOREM_MODULES.append("Yarel.Props.FnsTie.GcPasses")
REQUIRED_THEOREMS += ["sweep_tie", "sweep_keeps_exactly_black", "mark_roots_tie", "trace_references_tie", "collect_passes_are_the_model"]


def census(stats):
    out = {}
    for name, count, roots in stats["by_type"]:
        short = name.replace("core::cell::RefCell<", "").replace(">", "").split("::")[-1]
        if short in EXCLUDED:
            continue
        out[short] = out.get(short, 0) + count
    return out


def same_census(a, b):
    ka = dict(a)
    kb = dict(b)
    # the range cache keeps up to 8 ranges alive by design
    ra, rb = ka.pop("ObjRange", 0), kb.pop("ObjRange", 0)
    return ka == kb and abs(ra - rb) <= 8


def loop_program(rng, iters):
    g = yl.G(rng)
    return "\n".join(g.prog_alloc(iters)) + "\n"


# loop bodies with a bounded live set (at most `prev` survives an iteration), one per kind of garbage
DIRECTED_LOOPS = [
    ("nested-fibers-run-to-completion", "var outer = Fiber.new(|p| { var inner = Fiber.new(|| { return 1; }); inner.call(); return inner; }); prev = outer.call(prev);"),
    ("fiber-suspended-then-dropped", "var fb = Fiber.new(|a| { var loc = [a]; Fiber.yield(loc); return loc; }); prev = fb.call(i);"),
    ("fiber-finished-returning-closure", "var fb = Fiber.new(|| { var n = [i]; return || n; }); prev = fb.call();"),
    ("fiber-failed", "var fb = Fiber.new(|| { var loc = [i]; throw loc; }); try { fb.call(); } catch e { prev = e; }"),
    ("fiber-chain-of-three", "var a = Fiber.new(|| { var b = Fiber.new(|| { var c = Fiber.new(|| { Fiber.yield(1); return 2; }); c.call(); return c; }); return b.call(); }); prev = a.call();"),
    ("closure-over-loop-local", "var cell = [i, prev]; cell[1] = nil; prev = || cell;"),
    ("class-per-iteration", "#[constructor(new)] class K { fn m(self) { return self.v; } } var o = K.new(); o.v = [i]; prev = o.m;"),
    ("subclass-per-iteration", "class A { fn a(self) { return 1; } } #[derive(A), constructor(new)] class B { fn b(self) { return super.a(); } } prev = B.new();"),
    ("iterator-chain", "prev = [i, i + 1, i + 2].iter().map(|v| [v]).filter(|v| v[0] > 0);"),
    ("exception-with-trace", "fn thrower(n) { if n == 0 { var z = nil + 1; } return thrower(n - 1); } try { thrower(5); } catch e { prev = e; }"),
    ("return-through-finally", "fn f() { try { return [i, [i]]; } finally { var scratch = [i]; } } prev = f();"),
    ("map-with-tuple-keys", "var m = {(i, i + 1): [i], \"k\": (i, [i])}; m.insert(i, m.keys()); prev = m.values();"),
    ("ranges", "var r = i..(i + 3); prev = r.iter();"),
    ("string-iterator", "prev = (\"ab\" + \"cd\").iter();"),
    ("bound-native", "prev = [i, i].len;"),
    ("failed-class-declaration", "try { var NotC = i; #[derive(NotC)] class Bad { fn m(self) { return 1; } } } catch e { prev = e; }"),
    ("failed-class-declaration-undefined-base", "try { #[derive(NoSuchBase)] class Bad2 {} } catch e { prev = e; }"),
    ("failed-import", "try { import \"no_such_module_here\"; } catch e { prev = e; }"),
    ("failed-constructor", "#[constructor(new)] class K2 { } try { var o = K2.new(1, 2); } catch e { prev = e; }"),
    ("failed-fiber-start", "try { var fb = Fiber.new(|a, b| a); } catch e { prev = e; }"),
    ("failed-call-deep", "fn d(n) { var pad = [n]; if n == 0 { return nil + 1; } return d(n - 1); } try { d(20); } catch e { prev = e; }"),
    ("failed-in-native-callback", "try { prev = [1, 2, 3].iter().map(|v| v + nil).collect(); } catch e { prev = e; }"),
    ("vector-window", "if prev == nil { prev = []; } prev.push([i]); if prev.len() > 4 { prev = prev[1..5]; }"),
]
# classes created on every pass (a base and a derived one) put through every built-in operation that looks at a class - a table keyed
# by classes, or a remembered answer, must not keep them
_LOCAL = "#[constructor(new)] class L { fn m(self) { return 1; } #[static] fn s() { return Self; } } #[derive(L), constructor(new)] class M2 { fn n(self) { return super.m(); } } var o = M2.new(); "
DIRECTED_LOOPS += [
    ("local-classes-derives", _LOCAL + "o.derives(L); o.derives(IndexError); o.derives(Object); L.new().derives(M2); 1.derives(L); prev = nil;"),
    ("local-classes-through-adapters", _LOCAL + "prev = [o, L.new()].iter().map(|v| v).filter(|v| true).collect().len();"),
    ("local-classes-type-and-equality", _LOCAL + "var t = type(o) == M2; t = type(o) == L; t = o == o; t = M2 == L; t = type(M2) == type(L); prev = t;"),
    ("local-classes-as-map-keys", _LOCAL + "var mk = {M2: 1, L: 2}; mk.get(M2); mk.has_key(type(o)); mk.remove(L); prev = mk.len();"),
    ("local-classes-display", _LOCAL + "var t = String.from(o) + String.from(M2) + \"${L}\"; prev = t.len();"),
    ("local-classes-bound-and-static", _LOCAL + "var b = o.m; b(); var b2 = M2.new; b2(); var b3 = o.n; b3(); L.s(); o.s(); prev = nil;"),
    ("local-classes-thrown", _LOCAL + "try { throw o; } catch e { e.derives(L); e.derives(TypeError); prev = nil; } try { o.nosuch; } catch e { e.derives(M2); }"),
    ("local-classes-in-fibers", _LOCAL + "var f = Fiber.new(|| M2.new().n()); f.call(); var f2 = Fiber.new(|| { Fiber.yield(L.new()); }); f2.call(); prev = nil;"),
    ("local-classes-as-iterables", "#[constructor(new)] class It { fn iter(self) { return self; } fn next(self) { if self.k > 1 { return StopIter.new(); } self.k = self.k + 1; return self.k; } } "
                                   "var it = It.new(); it.k = 0; for x in it { prev = x; } var it2 = It.new(); it2.k = 0; prev = it2.iter().next();"),
    ("local-error-subclass", "#[derive(Error), constructor(new)] class MyErr { } try { throw MyErr.new(); } catch e { e.derives(Error); e.derives(MyErr); e.derives(ValueError); prev = nil; }"),
]


# pairs of programs that end with the SAME data reachable by the program (same objects of every kind), reached through different
# histories: what the first history could reach only while it ran must be gone after a collection, so the censuses are equal
TWINS = [
    # a suspended fiber keeps what its body still holds - not what it handed over with a yield, nor what it was handed and dropped
    ("suspended-fiber-does-not-keep-what-it-yielded",
     "var gens = [];\nfor i in 0..10 { var g = Fiber.new(|| { var n = 0; while true { Fiber.yield([n, n, n]); n = n + 1; } }); g.call(); g.call(); gens.push(g); }\nprint(gens.len());\n",
     "var gens = [];\nfor i in 0..10 { var g = Fiber.new(|| { var n = 0; while true { Fiber.yield(3); n = n + 1; } }); g.call(); g.call(); gens.push(g); }\nprint(gens.len());\n"),
    ("suspended-fiber-does-not-keep-what-it-was-handed",
     "var gens = [];\nfor i in 0..10 { var g = Fiber.new(|a| { while true { a = Fiber.yield(1).len(); } }); g.call([i]); g.call([i, i, i]); gens.push(g); }\nprint(gens.len());\n",
     "var gens = [];\nfor i in 0..10 { var g = Fiber.new(|a| { while true { a = Fiber.yield(1) + 1; } }); g.call(1); g.call(3); gens.push(g); }\nprint(gens.len());\n"),
    # a closure made inside a try block that was left by a throw / by a return through finally keeps ITS variables, not the older open ones
    ("closure-from-a-try-block-left-by-throw",
     "fn mk() { var older = [1, 1, 1]; var og = || older; try { var mine = [2]; throw || mine; } catch e { return e; } }\nvar keep = mk();\nprint(keep());\n",
     "fn mk() { try { var mine = [2]; throw || mine; } catch e { return e; } }\nvar keep = mk();\nprint(keep());\n"),
    ("closure-from-a-try-block-left-by-return",
     "fn mk() { var older = [1, 1, 1]; var og = || older; try { var mine = [2]; return || mine; } finally { var pad = 1; } }\nvar keep = mk();\nprint(keep());\n",
     "fn mk() { try { var mine = [2]; return || mine; } finally { var pad = 1; } }\nvar keep = mk();\nprint(keep());\n"),
    ("closure-over-innermost-frame-only",
     "fn deep(n) { var x = [n, n, n]; var c = || x; if n == 0 { return c; } return deep(n - 1); }\nvar keep = deep(20);\nprint(keep().len());\n",
     "fn deep(n) { var x = [n, n, n]; if n == 0 { var c = || x; return c; } var r = deep(n - 1); x = nil; return r; }\nvar keep = deep(20);\nprint(keep().len());\n"),
    ("closure-next-to-a-dropped-closure",
     "fn mk() { var a = [1]; var b = [2]; var fa = || a; var fb = || b; return fb; }\nvar keep = mk();\nprint(keep());\n",
     "fn mk() { var b = [2]; var fb = || b; return fb; }\nvar keep = mk();\nprint(keep());\n"),
    ("finished-fibers-kept",
     "var fs = [];\nfor i in 0..10 { var f = Fiber.new(|| { var big = [i, i, i]; return big.len(); }); f.call(); fs.push(f); }\nprint(fs.len());\n",
     "var fs = [];\nfor i in 0..10 { var f = Fiber.new(|| { return 3; }); f.call(); fs.push(f); }\nprint(fs.len());\n"),
    ("finished-fiber-that-called-a-function",
     "fn work(v) { var t = (v, v); return t[0].len(); }\nvar f = Fiber.new(|| { var big = [1, 2, 3]; return work(big); });\nprint(f.call());\n",
     "var f = Fiber.new(|| { return 3; });\nprint(f.call());\n"),
    ("fiber-that-caught-its-own-failure",
     "var f = Fiber.new(|| { var big = [1, 2, 3]; try { throw big; } catch e { return e.len(); } });\nprint(f.call());\n",
     "var f = Fiber.new(|| { return 3; });\nprint(f.call());\n"),
    ("suspended-fiber-dropped",
     "var f = Fiber.new(|| { var big = [1, 2, 3]; Fiber.yield(big.len()); return 0; });\nprint(f.call());\nf = nil;\n",
     "var f = Fiber.new(|| { return 3; });\nprint(f.call());\nf = nil;\n"),
    ("object-returned-through-finally",
     "fn mk() { try { return [1, [2], (3, 4)]; } finally { print(\"cleanup\"); } }\nprint(mk().len());\n",
     "fn mk() { return 3; }\nprint(\"cleanup\");\nprint(mk());\n"),
    ("instance-returned-through-finally-in-a-finished-fiber",
     "#[constructor(new)] class K {}\nvar f = Fiber.new(|| { try { var k = K.new(); k.v = [1, 2, 3]; return k; } finally { print(\"cleanup\"); } });\nprint(f.call().v.len());\n",
     "#[constructor(new)] class K {}\nvar f = Fiber.new(|| { print(\"cleanup\"); return 3; });\nprint(f.call());\n"),
    ("exception-object-caught-after-finally-blocks",
     "fn t() { try { throw [1, 2, 3]; } finally { print(\"cleanup\"); } }\ntry { t(); } catch e { print(e.len()); }\n",
     "print(\"cleanup\");\nfn t() { return 3; }\nprint(t());\n"),
    ("loop-variable-closure",
     "var keep = nil;\nfor i in 0..5 { var v = [i]; var c = || v; if i == 4 { keep = c; } }\nprint(keep());\n",
     "var keep = nil;\n{ var v = [4]; keep = || v; }\nprint(keep());\n"),
]


# Combinatorial loop bodies: `prev = step(prev)` where `step` parks its argument in a piece of GARBAGE of kind G and returns a fresh
# SURVIVOR of kind S that does not refer to the argument, executed in context C (on the main fiber, on a fiber that runs to completion, on a
# fiber that is suspended holding the argument on its stack and then dropped, on a fiber nested in another).  By construction the program
# can reach one survivor at any time, so twice as many iterations must leave the same census.
COMBO_G = [
    ("vec", "var g = [p, [p]];"), ("tuple", "var g = (p, (p,));"), ("map-value", "var g = {1: p, \"k\": [p]};"),
    ("field", "#[constructor(new)] class GK { } var g = GK.new(); g.f = p;"), ("capture", "var g = || p; var g2 = || g;"),
    ("iterator", "var g = [p, p].iter().map(|v| [v]);"), ("bound-native", "var g = [p].len;"),
    ("exception", "var g = nil; try { throw [p]; } catch e { g = e; }"),
    ("suspended-fiber-stack", "var g = Fiber.new(|| { var loc = [p]; Fiber.yield(1); return loc; }); g.call();"),
]
COMBO_S = [
    ("closure-over-closed-inner-variable", "var c = nil; { var x = [1]; c = || x; } return c;"),
    ("closure-over-parameter", "fn mk(v) { return || v; } return mk([2]);"),
    ("instance-of-local-class", "#[constructor(new)] class SK { fn m(self) { return 1; } } var s = SK.new(); s.v = [3]; return s;"),
    ("bound-method", "#[constructor(new)] class SK2 { fn m(self) { return 1; } } return SK2.new().m;"),
    ("iterator", "return [4, 5].iter();"), ("map", "return {\"k\": [6]};"), ("new-fiber", "return Fiber.new(|| 7);"),
    ("suspended-fiber", "var sf = Fiber.new(|| { var l = [8]; Fiber.yield(l); return l; }); sf.call(); return sf;"),
    ("tuple", "return (9, [9]);"), ("local-function", "fn lf() { return 10; } return lf;"),
    ("finished-fiber", "var ff = Fiber.new(|| [11]); ff.call(); return ff;"),
    ("finished-fiber-that-yielded-first", "var ff = Fiber.new(|| { Fiber.yield(1); return [12]; }); ff.call(); ff.call(); return ff;"),
]
COMBO_C = [
    ("main", "prev = step(prev);"),
    ("fiber-finished", "prev = Fiber.new(|p| step(p)).call(prev);"),
    ("fiber-suspended-dropped", "var fb = Fiber.new(|p| { var s = step(p); var hold = [p]; Fiber.yield(s); return hold; }); prev = fb.call(prev);"),
    ("fiber-nested", "prev = Fiber.new(|p| Fiber.new(|q| step(q)).call(p)).call(prev);"),
    # the survivor is captured by a closure made inside a try block that is left by a throw / a return through finally while an older
    # captured variable (holding the argument) is still open below it; the closure is what survives
    ("closure-made-in-try-left-by-throw", "fn ctx(p) { var older = [p]; var og = || older; try { var s = step(p); throw || s; } catch e { return e; } } prev = ctx(prev);"),
    ("closure-made-in-try-left-by-return", "fn ctx(p) { var older = [p]; var og = || older; try { var s = step(p); return || s; } finally { var pad = 1; } } prev = ctx(prev);"),
    # a generator that stays suspended after handing the survivor over with a yield
    ("yielded-by-a-generator-that-stays-suspended", "var gen = Fiber.new(|p| { var s = step(p); p = nil; Fiber.yield(s); s = nil; Fiber.yield(0); }); prev = gen.call(prev); gen.call();"),
    # the survivor is (held by) a fiber that FINISHED after being called by a fiber that stays suspended with the argument on its stack
    ("finished-fiber-whose-caller-stays-suspended",
     "var fb = Fiber.new(|p| { var hold = [p]; var inner = Fiber.new(|q| step(q)); inner.call(p); Fiber.yield(inner); return hold; }); prev = fb.call(prev);"),
    ("value-from-a-fiber-that-finished-inside-a-suspended-one",
     "var fb = Fiber.new(|p| { var hold = [p]; var inner = Fiber.new(|q| { Fiber.yield(0); return step(q); }); inner.call(p); var s = inner.call(); Fiber.yield([s, inner]); return hold; }); prev = fb.call(prev);"),
]


# twins left out of the comparison with the reference interpreter's reachable set: its suspended continuation still holds the operand of the
# pending `Fiber.yield(v)` / the argument that was handed in (an over-approximation of what the program can reach; the twin census decides)
SPEC_OVERAPPROXIMATES = {"suspended-fiber-does-not-keep-what-it-yielded", "suspended-fiber-does-not-keep-what-it-was-handed"}


def combo_loops():
    out = []
    for gn, g in COMBO_G:
        for sn, sv in COMBO_S:
            for cn, c in COMBO_C:
                out.append(("combo:%s/%s/%s" % (gn, sn, cn), "fn step(p) { %s %s }" % (g, sv), c))
    return out


def combo_loop(defs, body, iters):
    return "%s\nvar prev = nil;\nvar i = 0;\nwhile i < %d {\n    %s\n    i = i + 1;\n}\nprint(\"done\");\n" % (defs, iters, body)


def directed_loop(body, iters):
    return "var prev = nil;\nvar i = 0;\nwhile i < %d {\n    %s\n    i = i + 1;\n}\nprint(\"done\");\n" % (iters, body)


def transient_program(rng):
    """Defines globals of every object kind, uses them, then drops every global it made."""
    k = rng.below(1000)
    names = ["f", "K", "o", "v", "m", "t", "fb", "it", "bm", "cl", "r", "e", "i"]
    src = [
        "fn f(x) { return [x, (x, x)]; }",
        "#[constructor(new)] class K { fn m(self) { return self.v; } }",
        "var o = K.new(); o.v = [%d];" % k,
        "var v = []; var i = 0; while i < %d { v.push(f(i)); i = i + 1; }" % (5 + rng.below(40)),
        "var m = {1: v, \"k\": o};",
        "var t = (o, v, m);",
        "var fb = Fiber.new(|a| { var loc = [a]; Fiber.yield(loc); return loc; }); fb.call(1);",
        "var it = v.iter(); it.next();",
        "var bm = o.m;",
        "var cl = nil; { var hidden = [1, 2, 3]; cl = || hidden; }",
        "var r = 1000..1003;",
        "var e = nil; try { var z = nil + 1; } catch err { e = err; }",
        "print(bm()); print(cl()); print(t[1].len());",
    ]
    for n in names:
        src.append("%s = nil;" % n)
    return "\n".join(src) + "\n"


# The memory the process really holds, against the counted heap: programs with a SMALL bounded live set whose garbage owns large
# out-of-line buffers (the 256 KiB value stack of a fiber, the element buffer of a long vector, the text of a long string).  The byte
# counter that paces collections charges an object with the size of its own box only, so such garbage is nearly free for the pacing and
# piles up (known finding F54).  Each entry: (name, program, resident-memory ceiling in MiB that a heap bounded by the live set stays under).
FOOTPRINT = [
    ("F54-garbage-fibers", "var keep = []; var i = 0; while i < 20000 { keep.push([i]); i = i + 1; } i = 0; while i < 4000 { var f = Fiber.new(|| 1); i = i + 1; } print(\"done\");", 150),
    ("F54-garbage-long-vectors", "var i = 0; while i < 1500 { var v = []; var j = 0; while j < 20000 { v.push(j); j = j + 1; } i = i + 1; } print(\"done\");", 100),
]


def abandoned_run_programs():
    """Runs that END with an uncaught error raised inside a fiber, 1 to 3 fibers deep, while every fiber on the way (and the function that
    started them) holds data objects in its locals, raised by throw / by a failing operation / in a method / after a yield-resume cycle.
    Nothing of it is reachable from a global afterwards: once the next run has started and a collection has run, it is all gone."""
    out = []
    raises = [("throw", 'throw "boom";'), ("op", "var z = nil + 1;"), ("method", "[1].nosuch();"), ("index", "var q = [1][7];")]
    for depth in (1, 2, 3):
        for rn, stmt in raises:
            for cycle in (False, True):
                body = "var held%d = [[%d], (%d, %d), {%d: [%d]}]; %s" % (depth, depth, depth, depth, depth, depth, stmt)
                for d in range(depth - 1, 0, -1):
                    body = "var held%d = [[%d], (%d, %d)]; var f%d = Fiber.new(|| { %s }); f%d.call();" % (d, d, d, d, d + 1, body, d + 1)
                if cycle:
                    body = "var warm = Fiber.new(|| { var w = [[0]]; Fiber.yield(w); return w; }); warm.call(); warm.call(); " + body
                src = "fn run() { var top = [[100], [200]]; var f1 = Fiber.new(|| { %s }); f1.call(); }\nrun();\n" % body
                out.append(("abandoned:%d:%s:%s" % (depth, rn, "cycle" if cycle else "plain"), src, {}))
    return out


def footprint_failures(runner):
    import subprocess
    out = []
    for name, src, ceiling in FOOTPRINT:
        line = vlib.case_line("m", ["S:" + vlib.hx(src)], steps=2000000000)
        try:
            p = subprocess.run(["/usr/bin/time", "-f", "maxrss_kb=%M", runner], input=line + "\n", capture_output=True, text=True, timeout=300)
            rss = int(p.stderr.strip().rsplit("maxrss_kb=", 1)[1]) // 1024
        except Exception as e:
            out.append({"what": "footprint probe %s did not run: %s" % (name, str(e)[:200]), "program": src, "name": name, "signature": "footprint probe failed", "failing_input": True})
            continue
        if "\"done\"" not in p.stdout:
            out.append({"what": "footprint probe %s did not finish: %s" % (name, p.stdout[:200]), "program": src, "name": name, "signature": "footprint probe failed", "failing_input": True})
        elif rss > ceiling:
            out.append({"what": "a program with a small bounded live set held %d MiB of memory (ceiling %d MiB): garbage that owns large buffers is not reclaimed in step with what it occupies" % (rss, ceiling),
                        "program": src, "name": name, "resident_mib": rss, "signature": "known F54", "failing_input": True})
    return out


def correspondence(ctx, model_ok=True):
    rng = ctx.rng.fork("c16")
    failures = []
    broken = []
    runner = ctx.runner   # release build = the threshold-paced configuration
    failures += footprint_failures(runner)
    n_pace = 40 if ctx.thorough else 10
    pace_progs = []
    for i in range(n_pace):
        iters = (1500 + rng.below(4000)) * (3 if ctx.thorough else 1)
        pace_progs.append(("pace%d" % i, loop_program(rng.fork("p%d" % i), iters), {}))
    res, lines = progs.run_programs(runner, pace_progs, {"gc": "default", "allocs": 1}, steps_budget=400000000, tag="p")
    total_allocs = 0
    total_collections = 0
    max_over = 0
    mlines = []
    per_prog = []
    for (name, src, _), r in zip(pace_progs, res):
        allocs = r.get("allocs") if isinstance(r, dict) else None
        if not allocs or r.get("status") != "ok":
            failures.append({"what": "allocation-heavy program did not run to completion", "program": src, "observed": str(r)[:400],
                             "signature": "pace program failed", "failing_input": True})
            continue
        first = allocs[0]
        mlines.append("mode paced")
        mlines.append("reset %d %d" % (first[1], first[2]))
        thr_in_force = None
        for k, (size, bb, tb, coll, ba, ta) in enumerate(allocs):
            total_allocs += 1
            total_collections += coll
            mlines.append("alloc %d %d %d %d %d %d" % (size, bb, tb, coll, ba, ta))
            # the property's own oracle on the recorded numbers
            bad = None
            if coll != (1 if bb >= tb else 0):
                bad = "collection decision: bytes_before=%d threshold=%d collected=%d" % (bb, tb, coll)
            elif not coll and not (ba == bb + size and ta == tb and ba < tb + size):
                bad = "no-collection step: bytes %d -> %d (size %d), threshold %d -> %d" % (bb, ba, size, tb, ta)
            elif coll and not (ta == GROWTH * (ba - size) and ba - size <= bb):
                bad = "collection step: threshold_after=%d but survivors=%d" % (ta, ba - size)
            if not coll:
                max_over = max(max_over, ba - tb)
            if bad:
                failures.append({"what": "heap pacing violates the bound: " + bad, "program": src, "alloc_index": k,
                                 "event": [size, bb, tb, coll, ba, ta], "signature": "pacing: " + bad.split(":")[0],
                                 "failing_input": True})
                break
        per_prog.append((name, len(allocs), sum(a[3] for a in allocs)))
    if model_ok and mlines:
        try:
            ans = vlib.run_model("pace", mlines)
            for a, l in zip(ans, mlines):
                if a != "ok":
                    failures.append({"what": "pacing model and real allocator disagree", "request": l, "model": a,
                                     "signature": "model-vs-real pacing", "failing_input": False})
                    break
        except Exception as e:
            broken.append("model driver pace: %s" % e)
    if total_collections == 0:
        broken.append("no paced collection was observed (programs too small to cross the budget)")

    # (b) census metamorphics
    n_cen = 30 if ctx.thorough else 8
    cen_cases = []
    srcs = []
    for i in range(n_cen):
        r2 = rng.fork("c%d" % i)
        n = 200 + r2.below(600)
        seedfork = r2.fork("prog")
        a = loop_program(vlib.SplitMix(seedfork.s), n)
        b = loop_program(vlib.SplitMix(seedfork.s), 2 * n)
        srcs.append((a, b))
        for tag, s in (("n", a), ("2n", b)):
            cen_cases.append(vlib.case_line("cen%d%s" % (i, tag), ["S:" + vlib.hx(s), "G"], gc="default", steps=400000000))
    for name, body in DIRECTED_LOOPS:
        a, b = directed_loop(body, 150), directed_loop(body, 300)
        srcs.append((a, b))
        for tag, s in (("n", a), ("2n", b)):
            cen_cases.append(vlib.case_line("dir-%s-%s" % (name, tag), ["S:" + vlib.hx(s), "G"], gc="default", steps=400000000))
    for name, defs, body in combo_loops():
        a, b = combo_loop(defs, body, 12), combo_loop(defs, body, 24)
        srcs.append((a, b))
        for tag, s in (("n", a), ("2n", b)):
            cen_cases.append(vlib.case_line("%s-%s" % (name.replace("/", "_").replace(":", "-"), tag), ["S:" + vlib.hx(s), "G"], gc="default", steps=400000000))
    real = vlib.run_real(runner, cen_cases)
    cen_checked = 0
    recounts = 0
    for case, r in zip(cen_cases, real):
        # the counter the pacing decisions are taken on is what is actually on the heap: an independent recount of the live payload
        st = ((r.get("steps") or [{}, {}])[1] if isinstance(r, dict) and len(r.get("steps") or []) > 1 else {}).get("stats") or {}
        if "payload_bytes" in st:
            recounts += 1
            if st["payload_bytes"] != st["bytes"]:
                failures.append({"what": "the heap's byte counter (%d) differs from a recount of the objects on the heap (%d payload bytes): collections are paced "
                                         "on a drifting number" % (st["bytes"], st["payload_bytes"]), "case": case, "signature": "byte counter drifts from the recount",
                                 "failing_input": True})
                break
    for i, (a, b) in enumerate(srcs):
        ra, rb = real[2 * i], real[2 * i + 1]
        try:
            ca, cb = census(ra["steps"][1]["stats"]), census(rb["steps"][1]["stats"])
        except Exception:
            failures.append({"what": "census run failed", "program": a, "observed": str(ra)[:300], "signature": "census run failed",
                             "failing_input": True})
            continue
        cen_checked += 1
        if not same_census(ca, cb):
            failures.append({"what": "running a loop twice as long leaves more objects behind", "program_n": a, "program_2n": b,
                             "census_n": ca, "census_2n": cb, "signature": "census grows with iterations", "failing_input": True})
    # twins: the same reachable data through two histories
    tw_cases = []
    for name, a, b in TWINS:
        tw_cases.append(vlib.case_line("twin-%s-a" % name, ["S:" + vlib.hx(a), "G"], gc="default", steps=50000000))
        tw_cases.append(vlib.case_line("twin-%s-b" % name, ["S:" + vlib.hx(b), "G"], gc="default", steps=50000000))
    treal = vlib.run_real(runner, tw_cases)
    for i, (name, a, b) in enumerate(TWINS):
        ra, rb = treal[2 * i], treal[2 * i + 1]
        try:
            ok_run = ra["steps"][0].get("status") == "ok" and rb["steps"][0].get("status") == "ok" and ra["steps"][0].get("printed") == rb["steps"][0].get("printed")
            ca, cb = census(ra["steps"][1]["stats"]), census(rb["steps"][1]["stats"])
        except Exception:
            failures.append({"what": "census run failed", "program": a, "observed": str(ra)[:300], "signature": "census run failed", "failing_input": True})
            continue
        cen_checked += 1
        # the two histories differ in how many closures / cells / fibers they keep; the DATA objects they keep must be the same
        data = ("ObjVec", "ObjTuple", "ObjHashMap", "ObjInstance")
        da = {k: ca.get(k, 0) for k in data}
        db = {k: cb.get(k, 0) for k in data}
        if not ok_run or da != db:
            failures.append({"what": "two programs that end with the same reachable data leave different data objects on the heap after a collection: "
                                     "something the program can no longer reach is retained (%s vs %s)" % (da, db),
                             "name": "twin:" + name, "program": a, "twin": b, "census_a": ca, "census_b": cb,
                             "signature": "twin census differs: " + name, "failing_input": True})
    # (d) what survives a collection vs what the reference interpreter can still REACH (language-level answer): for generated programs the
    # data objects (vectors, tuples, maps, instances) left on the heap after a forced collection, relative to the empty program, must be
    # exactly those reachable from the persistent roots in the reference interpreter's store after the same program
    import progs as progs_mod, specdiff
    spec_cmp = 0
    if model_ok and specdiff.available():
        n_rc = 2400 if ctx.thorough else 400
        gen = progs_mod.generated(rng.fork("reach"), ["data", "closures", "classes", "fibers", "iteration", "exceptions", "alloc", "typed", "typed-try"], n_rc)
        rc_progs = [("empty", "\n", {})] + abandoned_run_programs() + [(n, s_, m) for n, s_, m, _ in gen] + [("twin:%s:%s" % (n, t), s_, {}) for n, a, b in TWINS for t, s_ in (("a", a), ("b", b)) if n not in SPEC_OVERAPPROXIMATES]
        # (an EMPTY snippet is run between the program and the census: a run that ended with an uncaught error leaves its fibers - the one that
        # failed and, through the caller links, the ones that waited for it, with what their stacks hold - referenced by the interpreter until
        # the next run starts; that is what one abandoned run occupies, for as long as the interpreter is idle, not something later runs
        # accumulate, and the language-level reachable set knows nothing of it)
        rc_lines = [vlib.case_line("rc%d" % i, progs_mod.module_steps(m, s_) + ["S:" + vlib.hx(s_), "S:" + vlib.hx("\n"), "G"], gc="default", steps=3000000) for i, (n, s_, m) in enumerate(rc_progs)]
        rreal = vlib.run_real(runner, rc_lines)
        try:
            rspec = specdiff.run_spec(rc_lines)
        except Exception as e:
            broken.append("reference interpreter driver (census): %s" % e)
            rspec = []
        kinds = (("ObjVec", "vec"), ("ObjTuple", "tuple"), ("ObjHashMap", "map"), ("ObjInstance", "instance"))
        base_r = base_s = None
        for (name, src, mods), r, sp in zip(rc_progs, rreal, rspec):
            try:
                rs, ss = r["steps"], sp["steps"]
                st_r, st_s = rs[-3], ss[-3]
                cen_r, cen_s = census(rs[-1]["stats"]), ss[-1]
            except Exception:
                continue
            if cen_s.get("status") != "census" or st_s.get("status") not in ("ok", "err") or st_s.get("status") != st_r.get("status"):
                continue
            if specdiff.budget_exhausted(progs_mod.canon_step(st_r)):
                continue
            dr = tuple(cen_r.get(a, 0) for a, _ in kinds)
            ds = tuple(cen_s.get(b, 0) for _, b in kinds)
            if name == "empty":
                base_r, base_s = dr, ds
                continue
            if base_r is None:
                break
            spec_cmp += 1
            rel_r = tuple(x - y for x, y in zip(dr, base_r))
            rel_s = tuple(x - y for x, y in zip(ds, base_s))
            if rel_r != rel_s:
                what = "more" if sum(rel_r) > sum(rel_s) else "fewer"
                failures.append({"what": "after a collection the heap holds %s data objects than the program can reach: (vectors, tuples, maps, instances) on the heap %s, "
                                         "reachable in the reference interpreter %s" % (what, rel_r, rel_s), "name": name, "program": src,
                                 "modules": {k: v for k, v in mods.items() if k in src},
                                 "signature": "heap vs reachable: " + what, "failing_input": True})
    # transient programs vs the empty program
    n_tr = 20 if ctx.thorough else 6
    tr_srcs = [transient_program(rng.fork("t%d" % i)) for i in range(n_tr)]
    tr_cases = [vlib.case_line("empty", ["S:" + vlib.hx("\n"), "G"], gc="default")]
    tr_cases += [vlib.case_line("tr%d" % i, ["S:" + vlib.hx(s), "G"], gc="default", steps=50000000) for i, s in enumerate(tr_srcs)]
    real = vlib.run_real(runner, tr_cases)
    try:
        base = real[0]["steps"][1]["stats"]
        base_c = census(base)
        for s, r in zip(tr_srcs, real[1:]):
            st = r["steps"][1]["stats"]
            c = census(st)
            if r["steps"][0].get("status") != "ok":
                failures.append({"what": "transient program failed", "program": s, "observed": str(r["steps"][0])[:300],
                                 "signature": "transient program failed", "failing_input": True})
            elif not same_census(c, base_c):
                diff = {k: (c.get(k, 0), base_c.get(k, 0)) for k in set(c) | set(base_c) if c.get(k, 0) != base_c.get(k, 0)}
                failures.append({"what": "objects survive although the program dropped every reference", "program": s, "left_behind": diff,
                                 "signature": "census: garbage retained " + ",".join(sorted(diff)), "failing_input": True})
            cen_checked += 1
    except Exception as e:
        broken.append("census baseline run failed: %s" % e)

    cov = {
        "evaluations": total_allocs + cen_checked,
        "distinct_nontrivial": len([1 for p in per_prog if p[2] > 0]) + cen_checked,
        "rule": "allocation events of generated loop programs (bounded live set, every object kind) in the release (threshold-paced) "
                "build; non-trivial = program whose run contains at least one paced collection; census pairs N/2N and drop-all programs",
        "samples": [pace_progs[0][1][:500], {"first_events": mlines[1:6]}],
        "alloc_events_replayed": total_allocs,
        "paced_collections_observed": total_collections,
        "max_bytes_over_threshold_between_collections": max_over,
        "traces_validated_against_impl": len(per_prog),
        "census_comparisons": cen_checked, "programs_census_vs_reference_reachability": spec_cmp, "byte_counter_recounts": recounts,
        "programs": len(pace_progs) + 2 * n_cen + n_tr,
    }
    return {"failures": failures, "coverage": cov, "broken": broken}


def replay(ctx, payload):
    if "program" in payload:
        res, _ = progs.run_programs(ctx.runner, [("replay", payload["program"], {})], {"gc": "default", "allocs": 1}, steps_budget=400000000)
        r = res[0]
        allocs = r.get("allocs") or []
        for (size, bb, tb, coll, ba, ta) in allocs:
            if coll != (1 if bb >= tb else 0) or (not coll and not (ba == bb + size and ta == tb)) or (coll and ta != GROWTH * (ba - size)):
                return False, "pacing bound violated at %s" % [size, bb, tb, coll, ba, ta]
        return True, "%d allocation events respect the bound" % len(allocs)
    return False, "nothing to replay: " + json.dumps(payload)[:400]
