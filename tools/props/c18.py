"""C18 — iteration is uniform over built-in and user-defined iterables.

Theorems: Yarel.Props.C18 (range_iter_spec for all bounds, tuple/vec/string_iter_spec, vec_iter_index_based under arbitrary interleaved
mutation, vec_mutation_never_panics, chain_spec / map_filter_collect_reduce_spec for the adapters of core.yl, sentinel_cuts, for_loop_spec,
break_leaves_no_state, nested_loops_independent, loops_independent, iter_allocates_fresh).
Correspondence: the iterator model's answers (range / vector-with-mutations / adapter chains) against the real implementation on generated
requests; scenarios with constructed expected output for the for-loop (every iterable kind, break/continue/return at every position,
nested and shared iterators, user iterators incl. early sentinel, mutation during iteration); generated iteration programs against the
Lean reference interpreter.
"""
import json

import vlib
import progs
import specdiff

THEOREM_MODULES = ["Yarel.Props.C18", "Yarel.Props.ModelLimits", "Yarel.Props.SpecIteration"]
REQUIRED_THEOREMS = ["for_calls_iter_once", "for_keeps_iterator_and_asks_next", "for_next_value_runs_body", "for_sentinel_ends_loop",
                     "for_body_end_asks_next_again", "break_leaves_no_state", "range_iter_spec", "vec_iter_index_based", "vec_mutation_never_panics", "chain_spec", "map_filter_collect_reduce_spec",
                     "for_loop_spec", "break_leaves_no_state", "loops_independent", "string_iter_spec", "tuple_iter_spec"]
# the state the models abstract is all the state there is: the fields of the run-time structures, regenerated on every run, are the ones
# the models were written against (Props/StateInventory)
THEOREM_MODULES.append("Yarel.Props.StateInventory.state_of_sequences_and_iterators")
REQUIRED_THEOREMS += ['state_of_sequences_and_iterators']
LEVEL = "proof"
ASSUMPTIONS = [
    "iterator model Yarel/Model/Iter.lean transcribes the *_iter_next natives and core.yl's Iter/MapIter/FilterIter (tie: request correspondence)",
    "the compiled shape of the for loop (one loop variable per loop, hidden iterator local) is tied by scenarios and the reference interpreter",
    "an element that is itself a StopIter instance ends a loop early and cuts adapter chains (sentinel_cuts): documented behaviour of the protocol",
]

RANGE_LENGTHS = [2 ** k + d for k in (8, 15, 16, 31, 32, 33, 40, 52) for d in (-1, 0, 1)]
RANGE_BEGINS = [0, 1, -1, 7, -2 ** 31, 2 ** 31 - 1, -2 ** 32, 2 ** 32, -(2 ** 52), 2 ** 40]

COUNTER = ('#[derive(Iter)] class Counter { #[constructor] fn new(self, max) { self.max = max; self.pos = 0; } fn iter(self) { self.pos = 0; return self; }\n'
           ' fn next(self) { if self.pos == self.max { return StopIter.new(); } self.pos += 1; return self.pos; } }\n')
BAG = '#[derive(Iter)] class Bag { #[constructor] fn new(self, items) { self.items = items; } fn iter(self) { return self.items.iter(); } }\n'

SCENARIOS = [
    ("every-iterable-kind",
     'for x in [3, 1, 2] { print(x); } for x in (7, 8) { print(x); } for x in 0..3 { print(x); } for x in 3..0 { print(x); } for x in "aé€😀" { print(x); }\n'
     'for x in [] { print("no"); } for x in () { print("no"); } for x in 2..2 { print("no"); } for x in "" { print("no"); } print("end");',
     ["3", "1", "2", "7", "8", "0", "1", "2", "3", "2", "1", "a", "é", "€", "😀", "end"]),
    ("negative-and-descending-ranges",
     'for x in -2..2 { print(x); } for x in 2..-2 { print(x); } for x in (1..4).iter() { print(x); }',
     ["-2", "-1", "0", "1", "2", "1", "0", "-1", "1", "2", "3"]),
    ("break-continue-at-every-position",
     'for k in 0..4 { var out = []; for x in [10, 11, 12] { if x - 10 == k { break; } out.push(x); } print(out); }\n'
     'for k in 0..4 { var out = []; for x in [10, 11, 12] { if x - 10 == k { continue; } out.push(x); } print(out); }',
     ["[]", "[10]", "[10, 11]", "[10, 11, 12]", "[11, 12]", "[10, 12]", "[10, 11]", "[10, 11, 12]"]),
    ("return-from-loop",
     'fn find(v, t) { for x in v { if x == t { return "found " + String.from(x); } } return "none"; }\nprint(find([1, 2, 3], 2)); print(find([1, 2, 3], 9)); print(find((4, 5), 5)); print(find(0..3, 0));',
     ["found 2", "none", "found 5", "found 0"]),
    ("nested-loops-over-one-iterable-are-independent",
     'var v = [1, 2, 3]; for x in v { for y in v { if y > x { print(String.from(x) + "<" + String.from(y)); } } }',
     ["1<2", "1<3", "2<3"]),
    ("shared-iterator-object",
     'var it = [1, 2, 3, 4].iter(); for x in it { print("outer " + String.from(x)); for y in it { print("inner " + String.from(y)); break; } }\nprint(it.next().derives(StopIter)); print(it.next().derives(StopIter));',
     ["outer 1", "inner 2", "outer 3", "inner 4", "true", "true"]),
    ("break-leaves-no-state",
     'var v = [1, 2, 3]; for x in v { if x == 2 { break; } } for x in v { print(x); } var s = "ab"; for c in s { break; } for c in s { print(c); }',
     ["1", "2", "3", "a", "b"]),
    ("adapters",
     'print([1, 2, 3, 4].iter().map(|v| v * 3).filter(|v| v % 2 == 0).collect());\nprint((1, 2, 3).iter().map(|v| v + 1).reduce(|a, b| a + b, 10));\n'
     'print((0..5).iter().filter(|v| v > 1).map(|v| v * v).collect());\nprint("héllo".iter().filter(|c| c != "l").map(|c| c + c).collect());\n'
     'print([].iter().map(|v| v).collect()); print([].iter().reduce(|a, b| a + b, "init"));',
     ["[6, 12]", "19", "[4, 9, 16]", "[hh, éé, oo]", "[]", "init"]),
    ("user-iterator",
     'class Count { #[constructor] fn new(self, n) { self.i = 0; self.n = n; } fn iter(self) { return self; } fn next(self) { if self.i >= self.n { return StopIter.new(); } self.i = self.i + 1; return self.i; } }\n'
     'for v in Count.new(3) { print(v); } for v in Count.new(0) { print("no"); }\n'
     '#[derive(Iter)] class Evens { #[constructor] fn new(self) { self.i = 0; } fn next(self) { if self.i >= 6 { return StopIter.new(); } self.i = self.i + 2; return self.i; } }\n'
     'print(Evens.new().map(|v| v + 1).collect()); print(Evens.new().filter(|v| v > 2).reduce(|a, b| a + b, 0));',
     ["1", "2", "3", "[3, 5, 7]", "10"]),
    ("early-sentinel-ends-loop",
     'var v = [1, StopIter.new(), 3]; for x in v { print(x); } print("after");',
     ["1", "after"]),
    ("mutation-during-iteration-is-index-based",
     'var v = [1, 2, 3]; var n = 0; for x in v { n = n + 1; print(x); if n < 3 { v.push(x * 10); } } print(v);\n'
     'var w = [1, 2, 3, 4]; for x in w { print(x); w.pop(); } print(w);\nvar u = [1, 2, 3]; for x in u { u[2] = 99; print(x); }',
     ["1", "2", "3", "10", "20", "[1, 2, 3, 10, 20]", "1", "2", "[1, 2]", "1", "2", "99"]),
    ("loop-variable-is-one-variable-per-loop",
     'var fs = []; for i in 0..3 { var j = i; fs.push(|| j); } for f in fs { print(f()); }',
     ["0", "1", "2"]),
    ("extreme-range-bounds",
     'var n = 0; for x in -9223372036854775808..9223372036854775807 { n = n + 1; if n == 3 { break; } } print(n);\n'
     'var m = 0; for x in 9223372036854775807..-9223372036854775808 { m = m + 1; if m == 3 { break; } } print(m);\n'
     'for x in 9007199254740990..9007199254740992 { print(x); } for x in -9007199254740990..-9007199254740992 { print(x); }',
     ["3", "3", "9007199254740990", "9007199254740991", "-9007199254740990", "-9007199254740991"]),
    ("restartable-user-iterable",
     COUNTER + 'var c = Counter.new(6); for x in c { if x == 3 { break; } } print(c.collect());\n'
     'for x in c { if x == 3 { break; } } print(c.map(|x| x * 10).collect());\nfor x in c { if x == 3 { break; } } print(c.filter(|x| x > 0).collect());\n'
     'for x in c { if x == 4 { break; } } print(c.filter(|x| x % 2 == 0).map(|x| x * x).collect());\nprint(c.map(|x| x + 1).filter(|x| x > 3).collect());\n'
     'for x in c { if x == 5 { break; } } print(c.reduce(|a, x| a + x, 0)); var n = 0; for x in c { for y in c { n = n + 1; } } print(n);',
     ["[1, 2, 3, 4, 5, 6]", "[10, 20, 30, 40, 50, 60]", "[1, 2, 3, 4, 5, 6]", "[4, 16, 36]", "[4, 5, 6, 7]", "21", "6"]),
    ("container-user-iterable",
     BAG + 'var b = Bag.new([1, 2, 3, 4, 5]); var plain = []; for x in b { plain.push(x); } print(plain); print(b.reduce(|a, x| a + x, 0));\n'
     'print(b.map(|x| x * 10).collect()); print(b.filter(|x| x > 2).collect()); print(b.filter(|x| x > 2).map(|x| x + 1).collect()); print(b.collect());\n'
     'for x in b { for y in b { if x == y { print(x); } } }',
     ["[1, 2, 3, 4, 5]", "15", "[10, 20, 30, 40, 50]", "[3, 4, 5]", "[4, 5, 6]", "[1, 2, 3, 4, 5]", "1", "2", "3", "4", "5"]),
    ("range-outlives-the-range-cache",
     'fn churn(n) { var junk = nil; var c = 0; while c < n { junk = [c, c]; c += 1; } }\n'
     'var out = []; for i in 0..3 { out.push(i); if out.len() >= 12 { break; } var others = [10..11, 10..12, 10..13, 10..14, 10..15, 10..16, 10..17, 10..18, 10..19];\n'
     ' churn(3000); var later = [41..90, 42..90, 43..90, 44..90, 45..90, 46..90, 47..90, 48..90, 49..90]; } print(out);\n'
     'var seen = (3..0).iter().map(|i| { var others = [20..21, 20..22, 20..23, 20..24, 20..25, 20..26, 20..27, 20..28, 20..29]; churn(3000);\n'
     ' var later = [71..-90, 72..-90, 73..-90, 74..-90, 75..-90, 76..-90, 77..-90, 78..-90, 79..-90]; return i; });\n'
     'var got = []; for v in seen { got.push(v); if got.len() >= 12 { break; } } print(got);',
     ["[0, 1, 2]", "[3, 2, 1]"]),
    ("errors-as-data-are-ordinary-elements",
     'var items = [1, Error.new("bad"), 3]; try { var z = nil + 1; } catch e { items.push(e); }\nfn describe(v) { if type(v) == Num { return "ok"; } return "failed"; }\n'
     'print(items.iter().map(describe).collect()); print(items.iter().map(describe).map(|s| s + "!").collect()); print(items.iter().map(describe).filter(|s| s == "failed").collect());\n'
     'print(items.iter().map(|r| 1).reduce(|a, b| a + b, 0)); var n = 0; for x in items { n = n + 1; } print(n); print(items.iter().filter(|v| type(v) != Num).map(|v| v.derives(Error)).collect());',
     ["[ok, failed, ok, failed]", "[ok!, failed!, ok!, failed!]", "[failed, failed]", "4", "4", "[true, true]"]),
    ("iterating-a-non-iterable-is-an-error",
     'try { for x in 5 { print("no"); } } catch e { print(type(e) == AttributeError); }\ntry { for x in nil { print("no"); } } catch e { print(type(e) == AttributeError); }',
     ["true", "true"]),
]


# ties between the function bodies translated from the Rust source on every run (Gen/Fns.lean) and the hand-written models
THEOREM_MODULES.append("Yarel.Props.FnsTie.Index")
REQUIRED_THEOREMS += ['range_iter_new_tie', 'range_iter_next_tie', 'vec_iter_next_tie', 'tuple_iter_next_same']
# `for` as compiled (Props/FnsTie/Statements, body of Parser::for_statement as read on this run): iter() invoked once with no arguments, then per
# pass IterNext / store into the loop variable / leave on the stop marker / pop / body in its own scope / jump back to the IterNext
THEOREM_MODULES.append("Yarel.Props.FnsTie.Statements")
REQUIRED_THEOREMS += ["for_statement_skeleton", "for_statement_needs_a_name", "for_protocol_order", "break_statement_skeleton", "continue_statement_skeleton"]
# what break and continue emit for the scopes they leave (Props/FnsTie/ScopeEnd, body of Parser::emit_scope_end as read on this run, for BOTH values of
# pop_locals): a captured local is closed, an uncaptured one popped - a pass left early closes what it captured exactly as a pass that ends
THEOREM_MODULES.append("Yarel.Props.FnsTie.ScopeEnd")
REQUIRED_THEOREMS += ["emit_scope_end_spec", "captured_slots_are_closed", "scope_end_matches_reference"]


# every value is an element: nil, false, 0, the empty string, empty containers, the StopIter CLASS (only an INSTANCE of it is the end
# marker) go through every kind of iterable - built-in, user class, iterator assembled from closures, the adapters - like any other value
SCENARIOS.append(("every-value-is-an-element", 'var vals = [1, nil, false, 0, "", [], nil, StopIter, (), 2];\n#[derive(Iter)] class Walk { #[constructor] fn new(self, items) { self.items = items; self.i = 0; } fn iter(self) { self.i = 0; return self; }\n  fn next(self) { if self.i >= self.items.len() { return StopIter.new(); } self.i = self.i + 1; return self.items[self.i - 1]; } }\n#[constructor(new)] class Bare { }\nfn closure_iter(items) { var o = Bare.new(); var i = 0; o.iter = || o; o.next = || { if i >= items.len() { return StopIter.new(); } i = i + 1; return items[i - 1]; }; return o; }\nfn if_nil(v) { if v == 2 { return nil; } return v; }\nfn walk(it) { var out = []; for x in it { out.push(x); } return out; }\nprint(walk(vals));\nprint(walk((1, nil, false, 0, "", [], nil, StopIter, (), 2)));\nprint(walk(Walk.new(vals)));\nprint(walk(closure_iter(vals)));\nprint(walk(vals.iter().map(|v| v)));\nprint(walk(Walk.new(vals).map(|v| v)));\nprint(Walk.new(vals).map(|v| v).collect());\nprint(vals.iter().filter(|v| true).collect());\nprint(Walk.new(vals).filter(|v| v == nil).collect());\nprint(walk(closure_iter(vals)).len());\nprint(vals.iter().map(|v| nil).collect());\nprint(Walk.new([1, 2, 3]).map(|v| if_nil(v)).collect());\nprint(vals.iter().reduce(|a, v| a + 1, 0));\nprint(Walk.new(vals).reduce(|a, v| a + 1, 0));\nvar n = 0; for x in Walk.new([nil, nil, nil]) { n = n + 1; } print(n);\nvar it = Walk.new([nil, 5]); print(it.next()); print(it.next()); print(type(it.next()) == StopIter);\n', ['[1, nil, false, 0, , [], nil, <class StopIter>, (), 2]', '[1, nil, false, 0, , [], nil, <class StopIter>, (), 2]', '[1, nil, false, 0, , [], nil, <class StopIter>, (), 2]', '[1, nil, false, 0, , [], nil, <class StopIter>, (), 2]', '[1, nil, false, 0, , [], nil, <class StopIter>, (), 2]', '[1, nil, false, 0, , [], nil, <class StopIter>, (), 2]', '[1, nil, false, 0, , [], nil, <class StopIter>, (), 2]', '[1, nil, false, 0, , [], nil, <class StopIter>, (), 2]', '[nil, nil]', '10', '[nil, nil, nil, nil, nil, nil, nil, nil, nil, nil]', '[1, nil, 3]', '10', '10', '3', 'nil', '5', 'true']))


# closures made in a loop pass keep that pass's variables, however the pass ends: every (continue-at, break-at) pair over every kind of loop;
# the slots of the pass are re-used by the next pass and by the code after the loop, so a pass that left a captured variable open on the
# stack (a pass left by break or continue that did not close what it captured) would read the next occupant of its slot
def _closure_pass_scenario():
    n = 4
    src = (COUNTER +
           'fn t(it, c, b) { var fs = []; for i in it { var j = i * 10; fs.push(|| j); if i == c { continue; } if i == b { break; } var k = j + 1; fs.push(|| k); }\n'
           '  var p = "x"; var q = "y"; var r = "z"; return fs.iter().map(|f| f()).collect(); }\n'
           'fn w(n, c, b) { var fs = []; var i = 0; while i < n { var j = i * 10; i = i + 1; fs.push(|| j); if i - 1 == c { continue; } if i - 1 == b { break; } var k = j + 1; fs.push(|| k); }\n'
           '  var p = "x"; var q = "y"; var r = "z"; return fs.iter().map(|f| f()).collect(); }\n'
           'fn nested(c, b) { var fs = []; for a in 0..2 { var m = a * 100; for i in 0..%d { var j = m + i; if i == c { fs.push(|| j); continue; } if i == b { fs.push(|| j + m); break; } } fs.push(|| m); }\n'
           '  var p = "x"; return fs.iter().map(|f| f()).collect(); }\n' % n)
    exp = []
    def passes(first, c, b):
        out = []
        for i in range(first, first + n):
            out.append(i * 10)
            if i == c:
                continue
            if i == b:
                break
            out.append(i * 10 + 1)
        return "[" + ", ".join(str(x) for x in out) + "]"
    for c in range(-1, n):
        for b in range(-1, n):
            src += "print(t(0..%d, %d, %d)); print(t([0, 1, 2, 3], %d, %d)); print(t(Counter.new(%d), %d, %d)); print(w(%d, %d, %d));\n" % (n, c, b, c, b, n, c + 1, b + 1, n, c, b)
            exp += [passes(0, c, b), passes(0, c, b), passes(1, c + 1, b + 1), passes(0, c, b)]
            src += "print(nested(%d, %d));\n" % (c, b)
            out = []
            for a in range(2):
                m = a * 100
                for i in range(n):
                    if i == c:
                        out.append(m + i); continue
                    if i == b:
                        out.append(m + i + m); break
                out.append(m)
            exp.append("[" + ", ".join(str(x) for x in out) + "]")
    return ("closures-of-a-pass-keep-its-variables-however-it-ends", src, exp)


SCENARIOS.append(_closure_pass_scenario())


def canon_item(s):
    if s == "-0":
        return "0"      # the model's chains compute over integers; the sign of a zero product is number semantics (C05/C19)
    return "stop" if "StopIter instance" in s else s


def correspondence(ctx, model_ok=True):
    rng = ctx.rng.fork("c18")
    failures = []
    broken = []
    reqs, progs_src = [], []
    n_req = 9000 if ctx.thorough else 7000
    for i in range(n_req):
        r = rng.fork("q%d" % i)
        k = r.below(4)
        if k == 0:
            b = r.below(13) - 6
            e = r.below(13) - 6
            n = r.below(10)
            if r.chance(1, 5):
                # LONG ranges (a range is lazy: its length is not a cost): lengths around the widths a counter could have, from begins on
                # both sides of zero, ascending and descending; the first few elements and the fact that there are that many
                ln = RANGE_LENGTHS[r.below(len(RANGE_LENGTHS))]
                b = RANGE_BEGINS[r.below(len(RANGE_BEGINS))]
                e = b + ln if r.chance(1, 2) else b - ln
                if abs(e) > 2 ** 53:
                    e = b - ln if e > 0 else b + ln
                n = 1 + r.below(5)
            reqs.append("range %d %d %d" % (b, e, n))
            src = "var it = ((%d)..(%d)).iter();\n" % (b, e) + "print(it.next());\n" * n
        elif k == 1:
            kk = r.below(4)
            ops = ["new %d" % kk, "iter"]
            src = "var v = [%s];\nvar it = v.iter();\n" % ", ".join(str(x) for x in range(kk))
            length = kk
            for _ in range(2 + r.below(10)):
                o = r.below(6)
                if o < 3:
                    ops.append("next"); src += "print(it.next());\n"
                elif o == 3:
                    val = r.below(100); ops.append("push %d" % val); src += "v.push(%d);\n" % val; length += 1
                elif o == 4 and length > 0:
                    ops.append("pop"); src += "v.pop();\n"; length -= 1
                elif o == 5 and length > 0:
                    idx = r.below(length); val = r.below(100)
                    ops.append("set %d %d" % (idx, val)); src += "v[%d] = %d;\n" % (idx, val)
            if r.chance(1, 2):
                # a KEPT iterator: run it to exhaustion (and once beyond), grow the vector, and ask again - the cursor is an index, so
                # the elements pushed after it reported the end are delivered next, each once
                for _ in range(length + 1 + r.below(2)):
                    ops.append("next"); src += "print(it.next());\n"
                for _ in range(1 + r.below(2)):
                    val = r.below(100); ops.append("push %d" % val); src += "v.push(%d);\n" % val; length += 1
                for _ in range(2 + r.below(2)):
                    ops.append("next"); src += "print(it.next());\n"
            reqs.append("vecops " + ";".join(ops))
        else:
            xs = [r.below(20) - 5 for _ in range(r.below(7))]
            stages = []
            head = "chain %s" % (",".join(str(x) for x in xs) if xs else "-")
            pre = ""
            expr = "[%s].iter()" % ", ".join("(%d)" % x for x in xs)
            if k == 3 and r.chance(1, 2):
                mx = r.below(8)
                pos = r.below(mx + 1)
                head = "obj counter %d %d" % (mx, pos)
                pre = COUNTER + "var o = Counter.new(%d);\n" % mx + ("for x in o { if x == %d { break; } }\n" % pos if pos else "")
                expr = "o"
            elif k == 3:
                head = "obj bag %s" % (",".join(str(x) for x in xs) if xs else "-")
                pre = BAG + "var o = Bag.new([%s]);\n" % ", ".join("(%d)" % x for x in xs)
                expr = "o"
            for _ in range(r.below(4)):
                s = r.below(4)
                kk = r.below(7) - 2
                if s == 0:
                    stages.append("map:add:%d" % kk); expr += ".map(|v| v + (%d))" % kk
                elif s == 1:
                    stages.append("map:mul:%d" % kk); expr += ".map(|v| v * (%d))" % kk
                elif s == 2:
                    stages.append("filter:even"); expr += ".filter(|v| v % 2 == 0)"
                else:
                    stages.append("filter:gt:%d" % kk); expr += ".filter(|v| v > (%d))" % kk
            if r.chance(1, 2):
                fin = "collect"; expr += ".collect()"
                src = pre + "for x in %s { print(x); }\n" % expr
            else:
                init = r.below(10)
                fin = "reduce:add:%d" % init; expr += ".reduce(|a, b| a + b, %d)" % init
                src = pre + "print(%s);\n" % expr
            reqs.append("%s %s %s" % (head, " ".join(stages), fin))
            reqs[-1] = " ".join(reqs[-1].split())
        progs_src.append(src)
    real, _ = progs.run_programs(ctx.runner, [("q%d" % i, s, {}) for i, s in enumerate(progs_src)], {"gc": "default"}, tag="q")
    ans = None
    if model_ok:
        try:
            ans = vlib.run_model("iter", reqs)
        except Exception as e:
            broken.append("model driver iter: %s" % e)
    compared = 0
    kinds = {"range": 0, "vecops": 0, "chain": 0, "obj": 0}
    if ans is not None:
        for req, a, r, src in zip(reqs, ans, real, progs_src):
            c = progs.canon_step(r)
            printed = [canon_item(x) for x in c[2]] if len(c) > 2 else []
            got = ",".join(printed) if printed else "-"
            kinds[req.split()[0]] += 1
            compared += 1
            exp = a
            if req.split()[0] in ("chain", "obj") and req.endswith("collect") and a == "-":
                exp = "-"
            if c[0] != "ok" or got != exp:
                failures.append({"what": "iterator model and implementation disagree", "request": req, "model": a, "real": got, "status": c[0], "program": src,
                                 "signature": "model-vs-real iter " + req.split()[0], "failing_input": True})
    scen = [(n, s, {}) for n, s, _ in SCENARIOS]
    for mode in ({"gc": "default"}, {"gc": "always", "quarantine": 1}):
        sres, _ = progs.run_programs(ctx.runner, scen, mode, tag="s")
        for (name, src, _), r, (_, _, e) in zip(scen, sres, SCENARIOS):
            c = progs.canon_step(r)
            uaf = r.get("uaf") if isinstance(r, dict) else None
            if c[0] != "ok" or list(c[2]) != e or uaf:
                failures.append({"what": "iteration scenario '%s' prints %s (%s), expected %s" % (name, list(c[2]) if len(c) > 2 else c, c[0], e), "program": src,
                                 "expected": e, "signature": "scenario " + name, "failing_input": True})
    gen = progs.generated(rng, ["iteration", "control"], 4800 if ctx.thorough else 3000)
    sd = specdiff.diff(ctx, [(n, s, m) for n, s, m, _ in gen] + [("scenario:" + sc[0], sc[1], {}) for sc in SCENARIOS], "C18", broken) if model_ok else {"failures": [], "compared": 0}
    failures += sd["failures"]
    cov = {
        "evaluations": compared + 2 * len(scen) + sd["compared"],
        "distinct_nontrivial": len(set(reqs)),
        "rule": "generated requests to the iterator model (range bounds in [-6,6] incl. empty and descending; vectors with interleaved next/push/pop/set; "
                "adapter chains of depth 0-3 ending in collect or reduce, over a vector iterator or applied to a user object deriving Iter whose iter() rewinds it / answers a separate iterator) executed on the implementation; distinct = distinct request; plus %d "
                "constructed-oracle scenarios x 2 GC modes" % len(scen),
        "samples": [reqs[0], reqs[1], reqs[2]],
        "requests_by_kind": kinds,
        "scenarios": len(scen),
        "programs_compared_with_reference_interpreter": sd["compared"],
        "programs": len(progs_src) + len(scen),
    }
    from props.c08 import dedupe
    return {"failures": dedupe(failures), "coverage": cov, "broken": broken}


def replay(ctx, payload):
    if "program" not in payload:
        return False, "nothing to replay"
    r, _ = progs.run_programs(ctx.runner, [("r", payload["program"], {})], {"gc": "default"})
    c = progs.canon_step(r[0])
    if "expected" in payload:
        return c[0] == "ok" and list(c[2]) == payload["expected"], str(c)
    if "model" in payload:
        got = ",".join(canon_item(x) for x in c[2]) or "-"
        return c[0] == "ok" and got == payload["model"], got
    return False, str(c)
