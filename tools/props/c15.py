"""C15 — an interpreter can be reused: failed runs leave no residue.

Theorems: Yarel.Props.C15 (residue_fresh on the mechanism models: after execute returns the handler/fiber/flag state equals a new
interpreter's; reset_eq_new), and the reference interpreter's snippet semantics.
Correspondence: histories of snippets on ONE interpreter (definitions, successes, compile errors, uncaught throws from top level,
nested calls, fibers, try/finally, class definitions in progress, imports, resets):
  (a) after every snippet the residue hook must report a fresh state and no snippet may panic (dev and release builds);
  (b) metamorphic: a failing snippet = its completed definitions + the failing statement; replacing it by the definitions alone must
      not change what later snippets print;
  (c) after a reset the interpreter behaves like a new one on any continuation;
  (d) differential against the reference interpreter (S).
"""
import json

import vlib
import progs
import specdiff

THEOREM_MODULES = ["Yarel.Props.C15", "Yarel.Props.C09", "Yarel.Props.SpecReuse"]
REQUIRED_THEOREMS = ["execute_depends_on_persistent_only", "runSnippet_depends_on_persistent_only", "residue_fresh", "residue_fresh_after_any_run", "reset_eq_new", "execute_dual"]
# the state the models abstract is all the state there is: the fields of the run-time structures, regenerated on every run, are the ones
# the models were written against (Props/StateInventory)
THEOREM_MODULES.append("Yarel.Props.StateInventory.state_of_interpreter_and_fiber")
REQUIRED_THEOREMS += ['state_of_interpreter_and_fiber']
# who writes the state the mechanism models are about: the set of write sites per group of fields, regenerated on every run (Props/StateWrites)
THEOREM_MODULES.append("Yarel.Props.StateWrites.writers_of_reuse_state")
REQUIRED_THEOREMS += ['writers_of_reuse_state']
# what a run starts from and what reset restores, as written on this run (Props/GlueText)
THEOREM_MODULES.append("Yarel.Props.GlueText.C15")
REQUIRED_THEOREMS += ['reset_as_modelled', 'reset_stack_as_modelled', 'execute_as_modelled', 'module_as_modelled']
LEVEL = "proof"
ASSUMPTIONS = [
    "residue = (exception-in-flight flag, class definition in progress, active fiber's stack/frames/handlers, fiber designators) as "
    "reported by the hook Vm::verif_residue after execute returns",
    "piecewise-equals-whole is tied to the implementation by metamorphic histories and the reference interpreter, not proved for the Rust code",
]
FRESH = [False, False, 0, 0, 0, True]

MODULES = {
    "okmod": "var value = 41;\nfn inc() { value = value + 1; return value; }\nfn boom() { throw \"boom in okmod\"; }\nprint(\"okmod body\");\n",
    "badmod": "var before = 1;\nthrow \"in module\";\n",
    "synmod": "var = ;\n",
    "usesok": "import \"okmod\";\nvar seen = okmod.value;\n",
}


def failing_snippet(rng, uid):
    """Returns (defs_only, failing): failing = defs_only + a statement that ends the snippet with an uncaught error."""
    k = rng.below(N_FAIL_KINDS)
    d = "var d%d = %d;\nfn df%d(x) { return x + d%d; }\n" % (uid, uid * 3, uid, uid)
    fails = [
        'throw "top%d";' % uid,
        'fn t%d(n) { if n == 0 { throw "deep"; } return t%d(n - 1); }\nt%d(3);' % (uid, uid, uid),
        'var fb%d = Fiber.new(|| { throw "in fiber"; });\nfb%d.call();' % (uid, uid),
        'try { throw "f%d"; } finally { print("fin%d"); }' % (uid, uid),
        'var NotC%d = 1;\n#[derive(NotC%d)]\nclass Bad%d {}' % (uid, uid, uid),
        'fn r%d(n) { return r%d(n + 1); }\nr%d(0);' % (uid, uid, uid),
        'var z%d = nil + 1;' % uid,
        'try { try { throw "inner"; } finally { var q = [1][9]; } } finally { print("outer fin"); }',
        'import "badmod";',
        'import "nosuch";',
        'Fiber.yield(1);',
        'var fy%d = Fiber.new(|| { var v = Fiber.yield(1); throw v; });\nfy%d.call();\nfy%d.call("resumed");' % (uid, uid, uid),
        'fn inner%d() { try { throw "x"; } finally { undefined_name_%d; } }\ninner%d();' % (uid, uid, uid),
        # the failure happens while a `return` is in progress (inside the finally block it entered), one and two calls deep, and in a method
        'fn cl%d() { try { return 41; } finally { nil + 1; } }\ncl%d();' % (uid, uid),
        'fn cl%d() { try { return [41]; } finally { var q = [1][9]; } }\nfn outer%d() { var keep = 1; return cl%d(); }\nouter%d();' % (uid, uid, uid, uid),
        '#[constructor(new)] class CL%d { fn run(self) { try { return self; } finally { throw "in finally"; } } }\nCL%d.new().run();' % (uid, uid),
        # ... inside a catch block, and inside a finally block reached normally
        'fn cc%d() { try { throw "first"; } catch e { var z = nil + 1; } }\ncc%d();' % (uid, uid),
        'fn cf%d() { try { var ok = 1; } finally { throw "from finally"; } }\ncf%d();' % (uid, uid),
        # ... in a fiber nested many fibers deep (every one of them waiting), and in a deep call inside a nested fiber
        'fn nest%d(n, f) { if n == 0 { return f(); } return Fiber.new(|| nest%d(n - 1, f)).call(); }\nnest%d(20, || nil + 1);' % (uid, uid, uid),
        'fn nest%d(n, f) { if n == 0 { return f(); } return Fiber.new(|| nest%d(n - 1, f)).call(); }\nfn dd%d(n) { if n == 0 { throw "deep in fibers"; } return dd%d(n - 1); }\nnest%d(9, || dd%d(30));' % (uid, uid, uid, uid, uid, uid),
        # ... while a class is being declared, while a for loop is running, while an import is in progress inside a function
        'fn lp%d() { for x in [1, 2, 3] { for y in [4, 5] { if y == 5 { throw "in loops"; } } } }\nlp%d();' % (uid, uid),
        'fn im%d() { import "badmod"; }\nim%d();' % (uid, uid),
        # a resource limit is hit inside a try statement and the error still ends the snippet: finally only, a catch that throws again,
        # a function that was returning through finally, a fiber
        'fn ro%d(n) { return ro%d(n + 1); }\ntry { ro%d(0); } finally { print("fin-over%d"); }' % (uid, uid, uid, uid),
        'fn ro%d(n) { return ro%d(n + 1); }\ntry { ro%d(0); } catch e { throw e; }' % (uid, uid, uid),
        'fn ro%d(n) { return ro%d(n + 1); }\nfn wr%d() { try { return ro%d(0); } finally { var pad = [1]; } }\nwr%d();' % (uid, uid, uid, uid, uid),
        'fn ro%d(n) { return ro%d(n + 1); }\nFiber.new(|| { try { ro%d(0); } finally { print("fiber-fin%d"); } }).call();' % (uid, uid, uid, uid),
        # the import of a module that does not COMPILE, at top level and inside a function (nothing of it may stay registered: a later import
        # of the same path is the same compile error again)
        'import "synmod";',
        'fn is%d() { import "synmod"; }\nis%d();' % (uid, uid),
    ]
    return d, d + fails[k] + "\n", k


N_FAIL_KINDS = 28


def ok_snippet(rng, uid, defined):
    k = rng.below(6)
    if k == 0 or not defined:
        defined.append("g%d" % uid)
        return "var g%d = %d;\nprint(g%d);\n" % (uid, uid, uid)
    if k == 1:
        return "fn f%d(x) { return x * 2; }\nprint(f%d(%d));\n" % (uid, uid, uid)
    if k == 2:
        return "#[constructor(new)]\nclass C%d { fn m(self) { return \"m%d\"; } }\nprint(C%d.new().m());\n" % (uid, uid, uid)
    if k == 3:
        return "import \"okmod\";\nprint(okmod.inc());\n"
    if k == 4:
        return "print(%s + 1);\n" % defined[rng.below(len(defined))]
    return "var fbo%d = Fiber.new(|a| { var b = Fiber.yield(a + 1); return b; });\nprint(fbo%d.call(1));\nprint(fbo%d.call(5));\n" % (uid, uid, uid)


PROBE = ('try { print("p-try"); } finally { print("p-fin"); }\n'
         'try { throw 7; } catch e { print(e); } finally { print("p-fin2"); }\n'
         'fn pr() { try { return "p-ret"; } finally { print("p-fin3"); } }\nprint(pr());\n'
         'var pf = Fiber.new(|| { Fiber.yield("p-y"); return "p-done"; });\nprint(pf.call());\nprint(pf.call());\n'
         'class PC { #[static] fn s() { return "p-static"; } }\nprint(PC.s());\n'
         # try statements that end normally one and two calls deep, in a method and in a fiber; a loop; resources close to their limits
         'fn pd1() { try { print("p-d1"); } catch e { print("p-d1-failed"); } print("p-d1-after"); return "p-d1-done"; }\nprint(pd1());\n'
         'fn pd2() { var r = pd1(); try { var q = 1; } finally { print("p-d2-fin"); } for x in [1, 2] { r = r + String.from(x); } return r; }\nprint(pd2());\n'
         '#[constructor(new)] class PM { fn run(self) { try { return "p-m"; } finally { print("p-m-fin"); } } }\nprint(PM.new().run());\n'
         'print(Fiber.new(|| { try { print("p-f-try"); } finally { print("p-f-fin"); } return pd1(); }).call());\n'
         )
# ... and resources close to their limits (40 fibers nested in one call chain, 57 call frames): only after many failed runs (these cost)
PROBE_CAP = PROBE + ('fn pnest(n, f) { if n == 0 { return f(); } return Fiber.new(|| pnest(n - 1, f)).call(); }\nprint(pnest(40, || "p-nested"));\n'
                     'fn prec(n) { if n == 0 { return 0; } return prec(n - 1) + 1; }\nprint(prec(55));\n'
                     # the limits themselves, measured: how deep calls can nest (at top level, below 10 frames, in a fiber) before the
                     # interpreter refuses - the same on an interpreter with a history of failures as on one without
                     'fn pdepth(n) { try { return pdepth(n + 1); } catch e { return n; } }\nprint(pdepth(0));\n'
                     'fn pdown(k) { if k == 0 { return pdepth(0); } return pdown(k - 1); }\nprint(pdown(10));\nprint(Fiber.new(|| pdepth(0)).call());\n'
                     'fn plocals(n) { var a = n; var b = n; var c = n; var d = n; try { return plocals(n + 1); } catch e { return a + b + c + d; } }\nprint(plocals(0));\n')

COMPILE_ERRORS = ["var = ;\n", "print(1;\n", "fn (x) {}\n", "{ var a = 1; var a = 2; }\n", "return 1;\n", "break;\n", "\"unterminated\n"]


def gen_history(rng):
    """Returns (steps_fail, steps_defs, kinds): two parallel histories differing only in failing snippets vs their definitions."""
    n = 3 + rng.below(5)
    a, b, kinds = [], [], []
    defined = []
    uid = 0
    for _ in range(n):
        uid += 1
        k = rng.below(10)
        if k < 4:
            s = ok_snippet(rng, uid, defined)
            a.append(s); b.append(s); kinds.append("ok")
        elif k < 8 and rng.chance(1, 5):
            # the failing function had stored a closure over one of its locals in a global: the definition it completed (the global) stays,
            # and the closure still sees the variable it captured (expected output known by construction)
            how = rng.choice(['var z = nil + 1;', 'throw "after capture";', 'undefined_name_%d;' % uid, 'return [1][7];',
                              # the failure happens in a fiber the capturing function is waiting for / several calls deeper
                              'var fbx = Fiber.new(|| { throw "in a child fiber"; }); fbx.call();',
                              'var fbx = Fiber.new(|| { var inner = Fiber.new(|| { var q = nil + 1; }); inner.call(); }); fbx.call();',
                              'fn deeper(n) { if n == 0 { throw "deeper"; } return deeper(n - 1); } deeper(3);'])
            f = ('var kept%d = nil;\nfn cap%d() { var pad = %d; var held = "held%d"; kept%d = || held + String.from(pad); %s }\ncap%d();\n'
                 % (uid, uid, uid, uid, uid, how, uid))
            a.append(f); b.append("var kept%d = nil;\n" % uid); kinds.append("fail-capture")
            use = 'var other%d = [%d, %d]; print(kept%d());\n' % (uid, uid, uid, uid)
            a.append(use); b.append(use); kinds.append("failuse:held%d%d" % (uid, uid))
            a.append(PROBE); b.append(PROBE); kinds.append("probe")
        elif k < 8 and rng.chance(1, 6):
            # a fiber object defined by a completed statement, killed by an uncaught error of its body: later it is a finished fiber
            f = 'var w%d = Fiber.new(|| { var step = %d; throw "worker failed"; });\nprint("ready");\nw%d.call();\n' % (uid, uid, uid)
            a.append(f); b.append('var w%d = Fiber.new(|| { return 1; }); w%d.call();\nprint("ready");\n' % (uid, uid)); kinds.append("fail-fiber")
            use = 'print(w%d.has_finished()); try { w%d.call(); print("no error"); } catch e { print(e.context); }\n' % (uid, uid)
            a.append(use); b.append(use); kinds.append("failuse:true|Cannot call a finished fiber.")
            a.append(PROBE); b.append(PROBE); kinds.append("probe")
        elif k < 8 and rng.chance(1, 6):
            # a fiber kept in a global was WAITING for another fiber when that one failed: the abandoned run must stay abandoned - a later
            # snippet can neither resume the waiting fiber in the middle of its body nor see it finished
            depth = 1 + rng.below(2)
            how = rng.choice(['throw "inner failed";', "var z = nil + 1;", "undefined_name_%d;" % uid, "fn r(n) { return r(n + 1); } r(0);"])
            body = "{ %s }" % how
            for lvl in range(depth):
                body = ('{ var in%d = Fiber.new(|| %s); try { in%d.call(); } finally { print("cleanup %d"); } print("resumed %d"); return "done %d"; }'
                        % (lvl, body, lvl, lvl, lvl, lvl))
            f = 'var wait%d = Fiber.new(|| %s);\nprint("ready");\nwait%d.call();\n' % (uid, body, uid)
            a.append(f); b.append('var wait%d = Fiber.new(|| 1);\nprint("ready");\n' % uid); kinds.append("fail-waiting-fiber")
            use = ('print(wait%d.has_finished()); try { print(wait%d.call()); } catch e { print(e.context); }\nprint(wait%d.has_finished());\n' % (uid, uid, uid))
            a.append(use); b.append(use); kinds.append("failuse:false|Cannot call a fiber that has already been called.|false")
            a.append(PROBE); b.append(PROBE); kinds.append("probe")
        elif k < 8 and rng.chance(1, 6):
            # an assignment to a global that was never declared fails and must not define it
            where = rng.choice(["counter%d = 10;" % uid, "fn setup%d() { counter%d = 10; return 1; }\nprint(setup%d());" % (uid, uid, uid),
                                "counter%d += 1;" % uid, "var t%d = [counter%d = 3];" % (uid, uid)])
            a.append(where + "\n"); b.append("\n"); kinds.append("fail-undeclared")
            use = ('try { print(counter%d); } catch e { print(type(e) == NameError); }\ntry { counter%d = counter%d + 1; print("assigned"); } catch e { print(type(e) == NameError); }\n'
                   % (uid, uid, uid))
            a.append(use); b.append(use); kinds.append("failuse:true|true")
        elif k < 8:
            d, f, which = failing_snippet(rng, uid)
            a.append(f); b.append(d); kinds.append("fail%d" % which)
            a.append(PROBE); b.append(PROBE); kinds.append("probe")
        elif k == 8:
            s = rng.choice(COMPILE_ERRORS)
            a.append(s); b.append("\n"); kinds.append("compile-error")
        else:
            a.append("R"); b.append("R"); kinds.append("reset")
            defined.clear()
    a.append(PROBE); b.append(PROBE); kinds.append("probe")
    if defined:
        s = "print(%s);\n" % defined[0]
        a.append(s); b.append(s); kinds.append("use")
    return a, b, kinds


def repeated_histories():
    """For every kind of failing snippet: the same failure 4 times and 70 times in a row on one interpreter, then the probe - something
    left behind by EACH failed run (a counter, a stack entry, a table entry) adds up until a valid snippet trips over it."""
    out = []
    rng = vlib.SplitMix(7)
    for k in range(N_FAIL_KINDS):
        for reps in (4, 70):
            a, b, kinds = [PROBE], [PROBE], ["probe"]
            for i in range(reps):
                uid = 1000 + i
                # pick the k-th kind deterministically
                d = f = None
                tries = 0
                while f is None and tries < 4000:
                    tries += 1
                    dd, ff, kk = failing_snippet(rng, uid)
                    if kk == k:
                        d, f = dd, ff
                if f is None:
                    break
                a.append(f); b.append(d); kinds.append("fail%d" % k)
            a.append(PROBE_CAP); b.append(PROBE_CAP); kinds.append("probe")
            out.append((a, b, kinds))
    return out


# single-purpose probes, each run as the FIRST thing after a failed snippet (state that the first completed call / try / fiber switch of
# the next snippet happens to put right again is still state that leaked): measured limits and the shortest uses of each mechanism
FIRST_PROBES = [
    'fn pdepth(n) { try { return pdepth(n + 1); } catch e { return n; } }\nprint(pdepth(0));\n',
    'fn pover(n) { return pover(n + 1); }\ntry { pover(0); } catch e { print(type(e)); print(e.context); }\n',
    'fn plocals(n) { var a = n; var b = n; var c = n; var d = n; try { return plocals(n + 1); } catch e { return a + b + c + d; } }\nprint(plocals(0));\n',
    'fn pchain(n) { if n == 0 { return 0; } return pchain(n - 1) + 1; }\nprint(pchain(62));\n',
    'print(Fiber.new(|| { fn fd(n) { try { return fd(n + 1); } catch e { return n; } } return fd(0); }).call());\n',
    'try { print("p1-try"); } finally { print("p1-fin"); }\nprint("p1-after");\n',
    'try { throw 7; } catch e { print(e); }\nprint("p2-after");\n',
    'fn pr() { try { return "p3-ret"; } finally { print("p3-fin"); } }\nprint(pr());\n',
    'var pf = Fiber.new(|| { Fiber.yield("p4-y"); return "p4-done"; });\nprint(pf.call());\nprint(pf.call());\n',
    'class PC5 { #[static] fn s() { return "p5-static"; } }\nprint(PC5.s());\n',
    'for x in [1, 2] { print(x); }\nprint((0..3).iter().map(|v| v * 2).collect());\n',
    'import "okmod";\nprint(okmod.inc());\n',
    'var big = []; var i = 0; while i < 300 { big.push([i]); i = i + 1; } print(big.len());\n',
    'try { import "synmod"; } catch e { print(e.context.split("\\n")[0]); }\ntry { import "nosuch"; } catch e2 { print(type(e2)); }\n',
]


def first_probe_histories():
    """Every kind of failing snippet, once and three times, followed directly by ONE single-purpose probe."""
    out = []
    rng = vlib.SplitMix(11)
    by_kind = {}
    tries = 0
    while len(by_kind) < N_FAIL_KINDS and tries < 20000:
        tries += 1
        d, f, k = failing_snippet(rng, 2000 + k_uid(tries))
        by_kind.setdefault(k, (d, f))
    for k, (d, f) in sorted(by_kind.items()):
        for pi, probe in enumerate(FIRST_PROBES):
            reps = 1 if (k + pi) % 2 == 0 else 3
            # (the definitions of a failing snippet are idempotent enough to repeat: `var` / `fn` at top level re-declare)
            out.append(([f] * reps + [probe], [d] * reps + [probe], ["fail%d" % k] * reps + ["probe"]))
    return out


def k_uid(t):
    return t % 7


KEEP = ('var kr = 100..105; var km = {kr: "r"};\n'
        'var kf = Fiber.new(|| { var g = Fiber.yield(1); try { print("kf body"); } finally { print("kf fin"); } return g; }); print(kf.call());\n'
        'var kn = Fiber.new(|a| { try { print("kn " + a); } finally { print("kn fin"); } return 7; });\n'
        'var ki = [1, 2, 3].iter(); ki.next();\n'
        '#[constructor(new)] class KC { fn who(self) { return self.tag; } } var ko = KC.new(); ko.tag = "ko"; var kb = ko.who;\n')
USE_KEPT = ('print(kr == 100..105); print(km.has_key(100..105)); print(km.get(100..105));\n'
            'print(kf.call("again")); print(kf.has_finished());\nprint(kn.call("x"));\nprint(ki.next());\nprint(kb()); print(ko.who());\n')
USE_KEPT_EXPECTED = "true|true|r|kf body|kf fin|again|true|kn x|kn fin|7|2|ko|ko"
_PW = 'var PW = Fiber.new(|| { print("w: working"); Fiber.yield(1); try { print("w: done"); } finally { print("w fin"); } return "w ok"; });\n'
_PW_NAMED = 'fn pw_body() { print("w: working"); Fiber.yield(1); try { print("w: done"); } finally { print("w fin"); } return "w ok"; }\n'


def kept_histories():
    """(a) Things with identity or suspended state made by an EARLIER successful snippet (a range and a map keyed by it, a suspended fiber,
    a fiber not yet started, an iterator under way, an instance and a bound method) are used after every kind of failing snippet: they are
    what they were.  (b) A fiber is started / resumed / created INSIDE the handler machinery of a snippet that then fails (a finally block
    that runs because an exception propagates, a catch block that throws again, a finally that runs for a return), kept in a global, and
    used by a later snippet: it runs as a fiber of its own.  Expected output by construction (`failuse:`)."""
    out = []
    rng = vlib.SplitMix(23)
    by_kind = {}
    tries = 0
    while len(by_kind) < N_FAIL_KINDS and tries < 20000:
        tries += 1
        d, f, k = failing_snippet(rng, 3000 + tries % 7)
        by_kind.setdefault(k, (d, f))
    for k, (d, f) in sorted(by_kind.items()):
        out.append(([KEEP, f, USE_KEPT, PROBE], [KEEP, d, USE_KEPT, PROBE], ["ok", "fail%d" % k, "failuse:" + USE_KEPT_EXPECTED, "probe"]))
    inside = [
        ("first-call-in-propagating-finally", _PW + 'try { throw "boom"; } finally { PW.call(); }\n', "w: done|w fin|w ok|true"),
        ("resumed-in-propagating-finally", _PW + 'PW.call();\ntry { throw "boom"; } finally { print(PW.call()); }\n', "Cannot call a finished fiber.|true"),
        ("first-call-in-catch-that-rethrows", _PW + 'try { throw "boom"; } catch e { PW.call(); throw e; }\n', "w: done|w fin|w ok|true"),
        ("first-call-in-finally-for-a-return", _PW + 'fn leave() { try { return 1; } finally { PW.call(); nil + 1; } }\nleave();\n', "w: done|w fin|w ok|true"),
        ("created-in-propagating-finally", 'var PW = nil;\n' + _PW_NAMED + 'try { throw "boom"; } finally { PW = Fiber.new(pw_body); PW.call(); }\n', "w: done|w fin|w ok|true"),
        ("first-call-in-nested-propagating-finally", _PW + 'fn inner() { try { throw "deep"; } finally { PW.call(); } }\ntry { inner(); } finally { var pad = 1; }\n', "w: done|w fin|w ok|true"),
    ]
    use = 'try { print(PW.call()); } catch e { print(e.context); }\nprint(PW.has_finished());\n'
    for name, failing, want in inside:
        out.append(([PROBE, failing, use, PROBE], [PROBE, _PW, use, PROBE], ["probe", "fail-inside:" + name, "failuse:" + want, "probe-after-inside"]))
    return out


def steps_of(snips):
    out = ["M:%s:%s" % (vlib.hx(n), vlib.hx(s)) for n, s in MODULES.items()]
    for s in snips:
        out.append("R" if s == "R" else "S:" + vlib.hx(s))
    return out


def observed(case):
    """list of canonical observations for the S/R steps of a case result"""
    if "steps" not in case:
        return None
    return [st for st in case["steps"] if st.get("status") not in ("module",)]


def prologue_matches_source():
    """The reuse model's `executePrologue` and `reset` are a transcription of the first statements of Vm::execute and of
    Vm::reset; re-read them from the current source so that an edit there breaks the tie visibly."""
    import os, re
    src = open(os.path.join(vlib.REPO, "yarel", "src", "vm.rs"), encoding="utf-8").read()
    problems = []
    m = re.search(r"pub fn execute\(.*?\n    \}\n", src, re.S)
    body = m.group(0) if m else ""
    head = body.split("self.load_fiber(")[0]
    for stmt in ("self.ip = ptr::null();", "self.fiber = None;", "self.handling_exception = false;"):
        if stmt not in head:
            problems.append("Vm::execute no longer begins with `%s` (model: executePrologue)" % stmt)
    if "self.new_root_obj_fiber(" not in head:
        problems.append("Vm::execute no longer creates a new fiber per run (model: executePrologue)")
    m = re.search(r"pub fn reset\(.*?\n    \}\n", src, re.S)
    body = m.group(0) if m else ""
    for stmt in ("self.reset_stack();", "self.range_cache.clear();", "self.modules.retain(", "self.init_built_in_globals(\"main\")"):
        if stmt not in body:
            problems.append("Vm::reset no longer contains `%s` (model: reset)" % stmt)
    return problems


def correspondence(ctx, model_ok=True):
    rng = ctx.rng.fork("c15")
    failures = []
    broken = ["reuse model out of date: " + p for p in prologue_matches_source()]
    n_hist = 3600 if ctx.thorough else 1500
    hists = [gen_history(rng.fork("h%d" % i)) for i in range(n_hist)] + repeated_histories() + first_probe_histories() + kept_histories()
    corpus = progs.corpus_dir("C15")
    kinds_seen = {}
    residue_obs = {}
    nontrivial = 0
    runners = [("release", ctx.runner)]
    spec_steps = 0
    try:
        runners.append(("dev", ctx.build_runner("dev", ())))
    except Exception as e:
        broken.append("dev harness build failed: %s" % str(e)[-200:])
    for bname, exe in runners:
        la = [vlib.case_line("a%d" % i, steps_of(a), steps=2000000) for i, (a, b, k) in enumerate(hists)]
        lb = [vlib.case_line("b%d" % i, steps_of(b), steps=2000000) for i, (a, b, k) in enumerate(hists)]
        ra = vlib.run_real(exe, la)
        rb = vlib.run_real(exe, lb)
        if bname == "release" and model_ok:
            sd = specdiff.diff_lines(ctx, la, ra, broken, what="history", payload_of=lambda i: {"history": hists[i][0], "kinds": hists[i][2]})
            failures += sd["failures"]
            spec_steps = sd["compared"]
        for i, ((a, b, kinds), xa, xb) in enumerate(zip(hists, ra, rb)):
            oa, ob = observed(xa), observed(xb)
            if oa is None or ob is None:
                failures.append({"what": "the interpreter process died while running a history", "history": a, "build": bname,
                                 "observed": str(xa if oa is None else xb)[:300], "signature": "history crash", "failing_input": True})
                continue
            if bname == "release":
                for kk in kinds:
                    kinds_seen[kk] = kinds_seen.get(kk, 0) + 1
                if any(kk.startswith("fail") for kk in kinds):
                    nontrivial += 1
            # (a) residue + panics
            for st in oa:
                if "residue" in st and st["residue"] != FRESH:
                    residue_obs[residue_name(st["residue"])] = residue_obs.get(residue_name(st["residue"]), 0) + 1
            for j, st in enumerate(oa):
                if st.get("status") == "panic":
                    failures.append({"what": "a snippet made the interpreter panic", "history": a, "snippet_index": j, "build": bname,
                                     "message": st.get("message"), "kinds": kinds,
                                     "signature": "panic: " + str(st.get("message"))[:60], "failing_input": True})
                    break
                if "residue" in st and strict(st["residue"]) != strict(FRESH):
                    failures.append({"what": "state left behind after a snippet ended", "history": a, "snippet_index": j, "build": bname,
                                     "residue": st["residue"], "kinds": kinds,
                                     "signature": "residue " + residue_name(st["residue"]), "failing_input": True})
                    break
            for j, (st, kk) in enumerate(zip(oa, kinds)):
                if kk.startswith("failuse:"):
                    c = progs.canon_step(st)
                    want = kk.split(":", 1)[1].split("|")
                    if c[0] != "ok" or list(c[2]) != want:
                        prev = kinds[j - 1] if j else ""
                        failures.append({"what": "after a failed snippet (%s) a later snippet sees something other than the definitions that snippet completed: "
                                                 "prints %s (%s), expected %r" % (prev, list(c[2]) if len(c) > 2 else c, c[0], want),
                                         "history": a, "snippet_index": j, "build": bname, "kinds": kinds,
                                         "signature": "capture lost after the capturing function failed" if prev == "fail-capture" else "state after " + prev,
                                         "failing_input": True})
                        break
            # (b) failing snippet vs its definitions: later non-failing snippets must print the same
            if len(oa) == len(ob):
                for j, (sa, sb, kk) in enumerate(zip(oa, ob, kinds)):
                    if kk.startswith("fail") or kk == "compile-error" or kk == "probe-after-inside":
                        continue
                    ca, cb = progs.canon_step(sa), progs.canon_step(sb)
                    if ca != cb:
                        failures.append({"what": "a snippet behaves differently after a FAILED snippet than after the definitions that snippet completed",
                                         "history": a, "history_defs_only": b, "snippet_index": j, "build": bname, "kinds": kinds,
                                         "after_failure": ca, "after_definitions": cb,
                                         "signature": "failed snippet leaks into %s" % kk, "failing_input": True})
                        break
    # (c) reset == new
    n_reset = 1200 if ctx.thorough else 700
    directed = [
        # identity-compared values cached inside the interpreter must not survive a reset
        (["var x = 1..3; var a1 = 10..11; var a2 = 11..12; var a3 = 12..13; var a4 = 13..14; var a5 = 14..15; var a6 = 15..16; var a7 = 16..17;\n"],
         ["var r = 1..3; var b1 = 20..21; print(r == 1..3);\n"]),
        (["import \"okmod\";\nokmod.value = 99;\n"], ["import \"okmod\";\nprint(okmod.value);\n"]),
        (["var g = 1;\nfn f() { return g; }\nclass C {}\n"], ["try { print(g); } catch e { print(e.context); }\ntry { f(); } catch e { print(e.context); }\nprint(type(print));\n"]),
        (["throw \"x\";\n"], [PROBE]),
        # after a reset the built-in classes (error classes, the iteration sentinel, the adapters) are there as on a new interpreter
        (["var junk = 1;\n"], ["print(StopIter); print(Error); print(TypeError);\ntry { nil + 1; } catch e { print(type(e) == TypeError); }\nprint([1, 2].iter().map(|v| v + 1).filter(|v| v > 2).collect());\n#[constructor(new)] class It { fn iter(self) { return self; } fn next(self) { return StopIter.new(); } }\nfor x in It.new() { print(x); }\nprint(\"end\");\n"]),
        # a failure while code of an imported module is running, then reset: main's old globals must be gone, the module forgotten
        (["var secret = \"old\";\nfn greet() { return \"hi\"; }\nimport \"okmod\";\nokmod.boom();\n"],
         ["try { print(secret); } catch e { print(e.context); }\ntry { print(greet()); } catch e { print(e.context); }\ntry { print(okmod.value); } catch e { print(e.context); }\nimport \"okmod\";\nprint(okmod.value);\n"]),
        (["var secret2 = \"old\";\nimport \"badmod\";\n"], ["try { print(secret2); } catch e { print(e.context); }\nprint(type(print));\n", PROBE]),
        (["var NotC = 1;\n#[derive(NotC)]\nclass Bad {}\n"], [PROBE]),
    ]
    for i in range(n_reset + len(directed)):
        r2 = rng.fork("r%d" % i)
        if i < len(directed):
            pre, post = directed[i]
        else:
            pre, _, _ = gen_history(r2.fork("pre"))
            post, _, _ = gen_history(r2.fork("post"))
        l1 = vlib.case_line("r%d" % i, steps_of(pre) + ["R"] + steps_of(post)[len(MODULES):], steps=2000000)
        l2 = vlib.case_line("n%d" % i, steps_of(post), steps=2000000)
        x1, x2 = vlib.run_real(ctx.runner, [l1, l2])
        o1, o2 = observed(x1), observed(x2)
        if o1 is None or o2 is None:
            continue
        tail = o1[len(o1) - len(o2):]
        c1 = [progs.canon_step(s) for s in tail]
        c2 = [progs.canon_step(s) for s in o2]
        if c1 != c2:
            j = next(k for k in range(len(c2)) if c1[k] != c2[k])
            failures.append({"what": "after reset the interpreter differs from a new one", "history_before_reset": pre, "history": post,
                             "snippet_index": j, "after_reset": c1[j], "new_interpreter": c2[j],
                             "signature": "reset differs from new", "failing_input": True})
    cov = {
        "evaluations": 2 * len(runners) * n_hist + 2 * n_reset,
        "distinct_nontrivial": nontrivial,
        "rule": "histories of 3-8 snippets (+probes) on one interpreter mixing definitions, successes, compile errors, 13 kinds of uncaught "
                "failure (top level, nested calls, fibers, try/finally, class definition in progress, stack overflow, imports, yield at top "
                "level), resets; non-trivial = history with at least one failing snippet; builds: " + ",".join(b for b, _ in runners),
        "samples": [hists[0][0]],
        "snippet_kinds": kinds_seen,
        "residue_observations": residue_obs,
        "histories": n_hist, "steps_compared_with_reference_interpreter": spec_steps,
        "reset_vs_new_pairs": n_reset,
    }
    return {"failures": dedupe(failures), "coverage": cov, "broken": broken}


def strict(r):
    """What must hold between runs whatever happened: the two designators of the active fiber agree.  The other components of the
    hook's report (exception-in-flight flag, class definition in progress, the finished fiber's stack/frames/handlers) are dead state once
    `execute` re-initialises them on entry; whether anything leaks into a later snippet is decided by the metamorphic comparisons
    (b) and (c), which are stated in terms of what later snippets print.  They are counted as `residue_observations` (informational)."""
    return [r[5]]


def residue_name(r):
    names = ["exception-in-flight", "class-definition-in-progress", "stack", "frames", "handlers", "fiber-designators"]
    return ",".join(n for n, v, f in zip(names, r, FRESH) if v != f)


def dedupe(failures):
    out = {}
    for f in failures:
        out.setdefault(f["signature"] + f.get("build", ""), f)
    return list(out.values())


def replay(ctx, payload):
    if "case_line" in payload:
        return specdiff.replay_line(ctx, payload)
    if "history" not in payload:
        return False, "nothing to replay"
    exe = ctx.build_runner("dev", ()) if payload.get("build") == "dev" else ctx.runner
    x = vlib.run_real(exe, [vlib.case_line("replay", steps_of(payload["history"]), steps=2000000)])[0]
    o = observed(x)
    if o is None:
        return False, str(x)[:500]
    ok = all(st.get("status") != "panic" and strict(st.get("residue", FRESH)) == strict(FRESH) for st in o)
    if ok and "history_defs_only" in payload:
        y = observed(vlib.run_real(exe, [vlib.case_line("replay2", steps_of(payload["history_defs_only"]), steps=2000000)])[0])
        j = payload["snippet_index"]
        ok = progs.canon_step(o[j]) == progs.canon_step(y[j])
    return ok, json.dumps([(st.get("status"), st.get("residue"), st.get("printed")) for st in o])[:1500]
