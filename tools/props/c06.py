"""C06 — lexical scoping; closures capture variables, not values.

Theorems: Yarel.Props.C06 (open_sorted, capture_shares, close_exact, refines_cells: the open-cell list mechanism
refines "one cell per variable instance" for every disciplined operation sequence).
Correspondence:
  (a) every capture/close event of real program runs is replayed through the mechanism model (same cell reused or created,
      same cells closed in the same order);
  (b) program differential against the Lean reference interpreter (S) on the closure profile;
  (c) metamorphic wrappers: the same statements at top level of a function, a lambda, a block and a fiber print the same.
"""
import json

import vlib
import progs
import events
import specdiff

THEOREM_MODULES = ["Yarel.Props.C06", "Yarel.Props.SpecScoping", "Yarel.Props.FnsTie.Resolver", "Yarel.Props.FnsTie.ScopeEnd", "Yarel.Props.FnsTie.Declare"]
REQUIRED_THEOREMS = ["declare_variable_spec", "redeclaration_is_reported", "shadowing_is_allowed", "clash_test_matches_reference", "add_local_spec",
                     "mark_initialised_spec", "mark_last_initialised_spec", "declared_then_initialised_is_found", "emit_scope_end_spec", "captured_slots_are_closed", "scope_end_matches_reference", "resolve_local_tie", "resolve_local_innermost", "add_upvalue_spec", "add_upvalue_tie", "resolveLocal_is_innermost_preceding", "pushLocal_fresh", "makeClosure_captures_cells", "write_then_read_shared",
                     "write_does_not_disturb_other", "truncateEnv_keeps_cells", "open_sorted", "capture_shares", "close_exact", "refines_cells", "refines_cells_run"]
# scopes and declarations as compiled (Props/FnsTie/Statements, bodies as read on this run): a scope entry raises the depth, leaving lowers it and
# THEN discards the deeper locals; `var x = e;` compiles the initialiser before the variable is defined; a definition inside a scope only
# marks the local initialised, at top level it defines a global; break / continue discard the loop's inner locals before jumping
THEOREM_MODULES.append("Yarel.Props.FnsTie.Statements")
REQUIRED_THEOREMS += ["begin_scope_skeleton", "end_scope_skeleton", "end_scope_underflow", "var_declaration_skeleton", "define_variable_skeleton",
                      "break_discards_before_jumping"]
# the state the models abstract is all the state there is: the fields of the run-time structures, regenerated on every run, are the ones
# the models were written against (Props/StateInventory)
THEOREM_MODULES.append("Yarel.Props.StateInventory.state_of_closures")
REQUIRED_THEOREMS += ['state_of_closures']
# who writes the state the mechanism models are about: the set of write sites per group of fields, regenerated on every run (Props/StateWrites)
THEOREM_MODULES.append("Yarel.Props.StateWrites.writers_of_open_cells")
REQUIRED_THEOREMS += ['writers_of_open_cells']
# capture_upvalue / close_upvalues as written on this run (Props/GlueText): the text the cell mechanism model was written against
THEOREM_MODULES.append("Yarel.Props.GlueText.C06")
REQUIRED_THEOREMS += ['capture_upvalue_as_modelled', 'close_upvalues_as_modelled', 'close_upvalues_for_frame_as_modelled']
LEVEL = "proof"
ASSUMPTIONS = [
    "mechanism model Yarel/Model/Upvalues.lean transcribes capture_upvalue/close_upvalues (tie: replay of real capture/close events)",
    "the discipline hypothesis of refines_cells (no truncation below an open cell without closing it) is a property of the COMPILER's output; "
    "it is checked per program by C04's verifier and by the differential runs here, not proved",
    "name resolution: Compiler::resolve_local and Compiler::add_upvalue are translated from compiler.rs on every run and proved equal to the reference "
    "parser's resolveLocalIn/addUpvalueIn (Props/FnsTie/Resolver.lean); likewise Parser::declare_variable (redeclaration in the same scope reported, shadowing of an outer scope allowed), Compiler::add_local / "
    "mark_initialised and Parser::emit_scope_end (captured slots leave scope through CloseUpvalue); the walk over enclosing functions (resolve_upvalue), "
    "begin_scope/end_scope's depth counter and the order in which the parser calls these primitives are tied by differential runs and by the resolution grid only",
]
PROFILES = ["closures", "control", "classes", "exceptions", "fibers", "iteration"]


def wrap_variants(body_lines):
    """body as statements that only use locals it declares itself (no top-level-only constructs)."""
    body = "\n".join("    " + l for l in body_lines)
    return {
        "function": "fn w() {\n%s\n}\nw();\n" % body,
        "lambda": "var w = || {\n%s\n};\nw();\n" % body,
        "block": "{\n%s\n}\n" % body,
        "fiber": "Fiber.new(|| {\n%s\n}).call();\n" % body,
        "method": "#[constructor(new)]\nclass W {\n    fn run(self) {\n%s\n    }\n}\nW.new().run();\n" % body.replace("\n", "\n    "),
    }


BODIES = [
    # a function's own name is an ordinary use of a variable: looked up when the use executes, so it sees a later assignment to that variable
    (["fn countdown(n) { if n == 0 { return \"original 0\"; } return countdown(n - 1); }", "var old = countdown;", "countdown = |n| \"patched \" + String.from(n);",
      "print(old(3));", "fn once() { once = || \"cached\"; return \"computed\"; }", "print(once());", "print(once());",
      "fn step() { return step; }", "var first = step;", "step = \"rebound\";", "print(first());"],
     ["patched 2", "computed", "cached", "rebound"]),
    # a `return` through a finally block: the variables of the still-running function stay shared between the function, the closures
    # made before the return, and the finally block
    (["fn inner() {", "    var log = \"a\";", "    var count = 1;", "    fn note(s) { log = log + \",\" + s; count = count + 1; }",
      "    try {", "        return [|| log, || count];", "    } finally {", "        note(\"b\");", "        print(\"finally sees \" + log);", "        print(count);",
      "        log = log + \",c\";", "        count = count + 1;", "    }", "}", "var got = inner();", "print(got[0]());", "print(got[1]());"],
     ["finally sees a,b", "2", "a,b,c", "3"]),
    # every block-introducing construct has its own scope (declarations do not leak, may shadow, and later assignments hit the outer one)
    (["var tag = \"outer\";", "var v = \"outer v\";", "var get = nil;",
      "try { var t1 = 1; } finally { var tag = \"finally-local\"; var v = \"finally v\"; get = || v; tag = tag + \"!\"; }",
      "print(tag);", "v = \"assigned after\";", "print(get());", "print(v);",
      "if true { var tag = \"if-local\"; } else { var tag = \"else-local\"; }", "print(tag);",
      "var k = 0; while k < 1 { var tag = \"while-local\"; k = k + 1; }", "print(tag);",
      "for q in [1] { var tag = \"for-local\"; }", "print(tag);",
      "try { throw 1; } catch e { var tag = \"catch-local\"; }", "print(tag);",
      "try { var tag = \"try-local\"; } catch e { }", "print(tag);",
      "{ var tag = \"block\"; { var tag = \"inner\"; } print(tag); }", "print(tag);"],
     ["outer", "finally v", "assigned after", "outer", "outer", "outer", "outer", "outer", "block", "outer"]),
    (["var a = 1;", "var b = 2;", "var fa = || { a = a + b; return a; };", "var fb = |v| { b = v; return a + b; };",
      "print(fa());", "print(fb(10));", "print(fa());", "print(a);", "print(b);"], ["3", "13", "13", "13", "10"]),
    (["var fs = [];", "var i = 0;", "while i < 3 {", "    var j = i * 10;", "    fs.push(|| { j = j + 1; return j; });",
      "    i = i + 1;", "}", "for f in fs { print(f()); }", "for f in fs { print(f()); }"], ["1", "11", "21", "2", "12", "22"]),
    (["fn outer() {", "    var x = \"x\";", "    fn mid() {", "        var y = \"y\";",
      "        fn inner() { x = x + y; return x; }", "        y = \"Y\";", "        return inner;", "    }",
      "    return mid();", "}", "var f = outer();", "print(f());", "print(f());"], ["xY", "xYY"]),
    (["var x = 1;", "{", "    var x = 2;", "    var g = || x;", "    {", "        var x = 3;", "        print(x);", "        print(g());",
      "    }", "    x = 20;", "    print(g());", "}", "print(x);"], ["3", "2", "20", "1"]),
    (["var counter = 0;", "fn bump() { counter = counter + 1; return counter; }", "var alias = bump;",
      "print(bump());", "print(alias());", "var get = || counter;", "counter = 100;", "print(get());", "print(bump());"],
     ["1", "2", "100", "101"]),
    # exits through try/finally keep the captured variable
    (["fn mk() { try { var x = 1; var f = || x; return f; } finally { var y = 99; } }", "print(mk()());"], ["1"]),
    # break out of a loop whose body declared (and captured) variables
    (["var i = 0;", "var fs = [];", "while true {", "    var a = i;", "    fs.push(|| a);", "    if i == 2 { break; }", "    i = i + 1;", "}",
      "var b = \"after\";", "print(b);", "for f in fs { print(f()); }"], ["after", "0", "1", "2"]),
    (["var fs = [];", "for i in 0..3 {", "    var a = i * 2;", "    if i == 1 { continue; }", "    fs.push(|| a);", "}",
      "print(fs.len());", "for f in fs { print(f()); }"], ["2", "0", "4"]),
    (["fn find() { for i in 0..5 { var sq = i * i; var g = || sq; if sq > 3 { return g; } } return nil; }", "print(find()());"], ["4"]),
    # capture order different from declaration order (high slot, low slot, then one in between), then scope exit
    (["fn make() { var a = \"a\"; var b = \"b\"; var c = \"c\"; var gc = || c; var ga = || a; var gb = || b; var sa = |v| { a = v; }; return [ga, gb, gc, sa]; }",
      "fn bystander(x) { var r = make(); r[3](\"A\"); return [x, r[0](), r[1](), r[2]()]; }", "print(bystander(\"x\"));"], ["[x, A, b, c]"]),
    (["fn mk4() { var w = 1; var x = 2; var y = 3; var z = 4; var fz = || z; var fx = || x; var fy = || y; var fw = || w; w = 10; x = 20; y = 30; z = 40; return [fw, fx, fy, fz]; }",
      "var r = mk4();", "print(r[0]()); print(r[1]()); print(r[2]()); print(r[3]());"], ["10", "20", "30", "40"]),
    # exception unwinding keeps captured variables
    (["var keep = nil;", "fn thrower() { var v = \"kept\"; keep = || v; throw \"x\"; }",
      "try { thrower(); } catch e { print(e); }", "print(keep());"], ["x", "kept"]),
    (["var keep = nil;", "try { var v = \"inner\"; keep = || v; throw 1; } catch e { var w = \"catchvar\"; print(w); }", "print(keep());"],
     ["catchvar", "inner"]),
]



# A use of a name that is no local is the module global of that name, LOOKED UP WHEN THE USE EXECUTES: every way of writing a global (plain
# assignment at top level / in a function / in a closure / compound, redefinition with `var`, a failed assignment, a callback run by
# another module, and for a module's global: assignment through the module object, through an alias of it, compound, by the module's own
# functions, a new attribute, a function replaced by a closure) is seen at once by every way of reading it that has ALREADY executed before
# (function, interpolation, method, closure, suspended fiber, top level) - nothing may remember an earlier value.
MODULE_SCENARIOS = [("global-writes-are-seen-by-every-warmed-read", 'import "gmod";\nvar g = 0;\nfn get() { return g; }\nfn get_str() { return "g=${g}"; }\n#[constructor(new)] class R { fn get(self) { return g; } }\nvar r = R.new();\nvar lam = || g;\nvar fib = Fiber.new(|| { while true { Fiber.yield(g); } });\nfn all() { return [get(), get_str(), r.get(), lam(), fib.call(), g]; }\nprint(all()); print(all());\ng = 1; print(all());\nfn setter(v) { g = v; } setter(2); print(all());\ng += 1; print(all());\nvar g = 4; print(all());\n{ var h = || { g = 5; }; h(); } print(all());\ngmod.set_main_g(|v| { g = v; }, 6); print(all());\nfn g_as_fn() { return 7; } print(get() == 0);\ntry { g = nil + 1; } catch e { print(all()); }\n// the module\'s global through every write route, read by the module\'s own (warmed) functions\nprint(gmod.all()); print(gmod.all());\ngmod.level = 1; print(gmod.all());\ngmod.set_level(2); print(gmod.all());\ngmod.level += 1; print(gmod.all());\nvar alias = gmod; alias.level = 4; print(gmod.all());\ngmod.bump(); print(gmod.all());\ngmod.fresh = "new attribute"; print(gmod.read_fresh());\ngmod.fresh = "changed"; print(gmod.read_fresh());\ngmod.helper = |x| x + 100; print(gmod.use_helper(1));\ngmod.helper = |x| x + 200; print(gmod.use_helper(1));\nprint(gmod.level);\n', {"gmod": 'var level = 0;\nfn current() { return level; }\nfn describe() { return "level=${level}"; }\nvar lam = || level;\n#[constructor(new)] class R { fn get(self) { return level; } }\nvar r = R.new();\nfn all() { return [current(), describe(), lam(), r.get(), level]; }\nfn set_level(v) { level = v; }\nfn bump() { level += 1; }\nfn set_main_g(f, v) { f(v); }\nfn read_fresh() { return fresh; }\nfn helper(x) { return x; }\nfn use_helper(x) { return helper(x); }\n'}, ['[0, g=0, 0, 0, 0, 0]', '[0, g=0, 0, 0, 0, 0]', '[1, g=1, 1, 1, 1, 1]', '[2, g=2, 2, 2, 2, 2]', '[3, g=3, 3, 3, 3, 3]', '[4, g=4, 4, 4, 4, 4]', '[5, g=5, 5, 5, 5, 5]', '[6, g=6, 6, 6, 6, 6]', 'false', '[6, g=6, 6, 6, 6, 6]', '[0, level=0, 0, 0, 0]', '[0, level=0, 0, 0, 0]', '[1, level=1, 1, 1, 1]', '[2, level=2, 2, 2, 2]', '[3, level=3, 3, 3, 3]', '[4, level=4, 4, 4, 4]', '[5, level=5, 5, 5, 5]', 'new attribute', 'changed', '101', '201', '5'])]


BUILTIN_NAMES = {"type": "<built-in fn type>", "clock": "<built-in fn clock>", "Fiber": "<class Fiber>", "StopIter": "<class StopIter>"}


def deep_nesting_programs():
    """A variable declared N block levels deep (N around 256 and beyond) shadows an outer one of the same name that a closure captured: inside
    it is the inner one, after its block has ended every use - in the function, in a closure, at module level - reaches the outer one again,
    and writes reach what the closure captured."""
    out = []
    for n in (3, 254, 255, 256, 257, 300, 513):
        src = ("var name = \"global\";\nfn f() {\n    var name = \"outer\";\n    var get = || name;\n    var seen = [];\n" + "    {\n" * n +
               "    var name = \"inner\"; var pad = 1;\n    seen.push(name);\n    seen.push((|| name)());\n" + "    }\n" * n +
               "    seen.push(name);\n    name = name + \"!\";\n    seen.push(get());\n    { var name = \"again\"; seen.push(name); }\n    seen.push(name);\n    return seen;\n}\n"
               "print(f());\nprint(name);\n")
        out.append(("deepnest:%d" % n, src, ("ok", ["[inner, inner, outer, outer!, again, outer!]", "global"])))
    return out


def resolution_grid(name="a"):
    """Which declaration does a use of `a` refer to?  Declarations of `a` are present or absent at every level (module global, the
    function, an enclosing block, a sibling block that has ended, the statement whose initialiser holds the use, a later statement of the
    same block); the use is written directly, inside a lambda, inside a lambda in a lambda, or inside a nested function.  The expected
    answer is computed here from the rule of the property (innermost enclosing declaration that precedes the use; else the module global;
    a variable is not in scope in its own initialiser: the language rejects that use)."""
    out = []
    a = name
    uses = {"direct": a, "lambda": "(|| %s)()" % a, "lambda2": "(|| (|| %s)())()" % a, "fn": "g()"}
    for bits in range(64):
        G, F, B, S, I, L = [(bits >> k) & 1 for k in range(6)]
        for uk, use in uses.items():
            lines = []
            if G:
                lines.append('var %s = "G";' % a)
            lines.append("fn f() {")
            if F:
                lines.append('    var %s = "F";' % a)
            lines.append("    {")
            if S:
                lines.append('        { var %s = "S"; }' % a)
            if B:
                lines.append('        var %s = "B";' % a)
            lines += ["        {", "            {"]
            if uk == "fn":
                lines.append("                fn g() { return %s; }" % a)
            if I:
                lines += ["                var %s = %s;" % (a, use), "                print(%s);" % a]
            else:
                lines.append("                print(%s);" % use)
            lines.append("            }")
            if L:
                lines.append('            var %s = "L";' % a)
            lines += ["        }", "    }", "}", "f();", 'print("done");']
            bound = "B" if B else "F" if F else "G" if G else None
            if I and uk != "fn":
                exp = ("compile", "Cannot read local variable in its own initialiser.")
            elif bound is None and name in BUILTIN_NAMES:
                exp = ("ok", [BUILTIN_NAMES[name], "done"])      # a name that is a built-in global is that global when nothing declares it
            elif bound is None:
                exp = ("name-error",)
            else:
                exp = ("ok", [bound, "done"])
            out.append(("resolve%s:%d%d%d%d%d%d/%s" % ("" if name == "a" else "-" + name, G, F, B, S, I, L, uk), "\n".join(lines) + "\n", exp))
    return out


def fixed_expectation_programs():
    """[(name, source, expectation)]: the scenario bodies in every wrapper, and the resolution grid - programs whose printed values say
    which variable every access reached, with the expectation built from the scoping rule (also run by C04: 'every variable access reads
    or writes exactly the variable the source names')."""
    out = []
    for i, (body, expected) in enumerate(BODIES):
        v = wrap_variants(body)
        v["toplevel"] = "\n".join(body) + "\n"
        for k, src in v.items():
            out.append(("scenario%d:%s" % (i, k), src, ("ok", list(expected))))
    # the same grid with the variable named like a built-in global (a local or a parameter called `type` is an ordinary variable)
    return out + resolution_grid() + [p for nm in BUILTIN_NAMES for p in resolution_grid(nm)] + deep_nesting_programs() + self_reference_programs() + catch_variable_programs()


def self_reference_programs():
    """Declarations that refer to THEMSELVES - a local function that recurses, a local class whose method names the class, a closure stored
    in the variable it reads - declared in every kind of inner scope, handed out of it in every way, and called after the scope has
    ended and its slots have been taken by other variables: the self-reference still reaches the declaration."""
    decls = [
        ("fn", 'fn countdown(n) { if n == 0 { return "done"; } return countdown(n - 1); }', "countdown", "%s(3)", "done"),
        ("fn-mutual-with-capture", 'var depth = 2; fn countdown(n) { if n == 0 { return "done" + String.from(depth); } return countdown(n - 1); }', "countdown", "%s(3)", "done2"),
        ("class", '#[constructor(new)] class Node { fn twin(self) { return Node.new(); } fn name(self) { return "node"; } }', "Node", "%s.new().twin().twin().name()", "node"),
        ("closure-var", 'var f = nil; f = |n| { if n == 0 { return "done"; } return f(n - 1); };', "f", "%s(3)", "done"),
    ]
    scopes = [("block", "{", "}"), ("nested", "{ var pad = 0; {", "} }"), ("for", "for i in 0..1 {", "}"),
              ("while", "var w = 0; while w < 1 { w = w + 1;", "}"), ("if", "if out.len() == 0 {", "}"), ("else", "if out.len() == 1 { } else {", "}"),
              ("try", "try {", "} catch e { print(\"unexpected\"); }"), ("catch", "try { throw 1; } catch e {", "}")]
    ways = [("assigned", "result = %s;", "result"), ("pushed", "out.push(%s);", "out[0]"), ("wrapped", "var d = %s; result = |a| d;", "result(0)")]
    progs_ = []
    for dn, decl, name, call, exp in decls:
        for sn, op, cl in scopes:
            for wn, esc, got in ways:
                src = ("fn make() {\n  var out = []; var result = nil;\n  %s\n    %s\n    %s\n  %s\n"
                       "  var label = \"reuse 1\"; var other = \"reuse 2\"; var third = [label, other];\n  print(label);\n  print(%s);\n  return %s;\n}\n"
                       "var c = make();\nvar pad1 = \"p\"; print(%s);\n" % (op, decl, esc % name, cl, call % got, got, call % "c"))
                progs_.append(("selfref:%s:%s:%s" % (dn, sn, wn), src, ("ok", ["reuse 1", exp, exp])))
    return progs_


def catch_variable_programs():
    """The variable of a catch clause is a variable like any other: closures made in the catch block share it (a write through one is read
    through the other), keep it after the block has ended - however it ended: normally, by break, continue, return - and after its slot
    has been taken by other variables; each pass of a loop has its own."""
    progs_ = []
    ends = [("normal", "", "fn"), ("break", "break;", "loop"), ("continue", "continue;", "loop"), ("return", "return [get, set];", "fn")]
    for en, stmt, ctx_ in ends:
        body = "try { throw \"first\"; } catch e { get = || e; set = |v| { e = v; }; %s }" % stmt
        if ctx_ == "loop":
            body = "for once in 0..1 { %s }" % body
        src = ("fn remember() {\n  var get = nil; var set = nil;\n  %s\n  var unrelated = \"unrelated\"; var more = [1, 2];\n  return [get, set];\n}\n"
               "var p = remember(); var pad = \"pad\";\nprint(p[0]()); p[1](\"second\"); print(p[0]()); var q = remember(); print(q[0]()); print(p[0]());\n" % body)
        progs_.append(("catchvar:" + en, src, ("ok", ["first", "second", "first", "second"])))
    src = ("fn collect(values) {\n  var kept = []; var i = 0;\n  while i < values.len() {\n    try { if values[i] % 2 == 1 { throw \"odd \" + String.from(values[i]); } }\n"
           "    catch problem { kept.push(|| problem); }\n    i = i + 1;\n  }\n  var after = \"after\";\n  return kept;\n}\n"
           "var ks = collect([1, 2, 3, 5]); var out = []; for k in ks { out.push(k()); } print(out);\n")
    progs_.append(("catchvar:per-pass", src, ("ok", ["[odd 1, odd 3, odd 5]"])))
    src = ("fn nested() {\n  var fs = [];\n  try { throw \"outer\"; } catch a {\n    try { throw \"inner\"; } catch b { fs.push(|| a + \"/\" + b); }\n    fs.push(|| a);\n  }\n"
           "  var x = 1; var y = 2;\n  return fs;\n}\nvar fs = nested(); print(fs[0]()); print(fs[1]());\n")
    progs_.append(("catchvar:nested", src, ("ok", ["outer/inner", "outer"])))
    return progs_


def meets(o, exp):
    """o = progs.canon_step(result)"""
    if exp[0] == "ok":
        return o[0] == "ok" and list(o[2]) == list(exp[1])
    if exp[0] == "compile":
        return o[0] == "err" and o[1] == "CompileError" and len(o[3]) == 1 and exp[1] in o[3][0] and not o[2]
    return o[0] == "err" and o[1] == "NameError" and not o[2]


def local_closure_body(rng):
    return BODIES[rng.below(len(BODIES))]


def correspondence(ctx, model_ok=True):
    rng = ctx.rng.fork("c06")
    failures = []
    broken = []
    n_gen = 9000 if ctx.thorough else 5000
    gen = progs.generated(rng, PROFILES, n_gen)
    scripts = progs.corpus_scripts()
    corpus = progs.corpus_dir("C06")
    allp = corpus + [(n, s, m) for n, s, m, _ in gen] + scripts
    # (a) event validation
    res, lines = progs.run_programs(ctx.runner, allp, {"events": 1, "quarantine": 1, "gc": "default"}, tag="e")
    mlines = []
    spans = []
    n_cap = n_close = n_reuse = 0
    progs_with_capture = set()
    for (name, src, mods), r in zip(allp, res):
        evs = r.get("events", []) if isinstance(r, dict) else []
        ul = events.upv_lines(evs)
        caps = [l for l in ul if l.startswith("cap ")]
        n_cap += len(caps)
        n_reuse += len([l for l in caps if l.endswith(" 0")])
        n_close += len([l for l in ul if l.startswith("close ") and not l.endswith(" -")])
        if caps:
            progs_with_capture.add(src)
        spans.append((len(mlines), len(ul), name, src))
        mlines.extend(ul)
    if model_ok and mlines:
        try:
            ans = vlib.run_model("upv", mlines)
            for (start, n, name, src) in spans:
                bad = [(mlines[start + k], ans[start + k]) for k in range(n) if ans[start + k] != "ok"]
                if bad:
                    failures.append({"what": "captured-variable bookkeeping differs from the mechanism model", "program": src, "name": name,
                                     "request": bad[0][0], "model": bad[0][1], "signature": "model-vs-real upvalues: " + bad[0][1].split(" expected")[0],
                                     "failing_input": False})
        except Exception as e:
            broken.append("model driver upv: %s" % e)
    # (c) metamorphic wrappers
    n_meta = 1800 if ctx.thorough else 1200
    meta_cases = []
    for i in range(n_meta):
        body, expected = BODIES[i % len(BODIES)] if i < len(BODIES) else local_closure_body(rng.fork("m%d" % i))
        v = wrap_variants(body)
        v["toplevel"] = "\n".join(body) + "\n"
        meta_cases.append((v, expected))
    flat = []
    for i, (variants, expected) in enumerate(meta_cases):
        for k, src in variants.items():
            flat.append(("meta%d:%s" % (i, k), src, {}))
    for mode in ({"gc": "default"}, {"gc": "always", "quarantine": 1}):
        mres, _ = progs.run_programs(ctx.runner, flat, mode, tag="m")
        pos = 0
        for i, (variants, expected) in enumerate(meta_cases):
            for k in variants:
                o = progs.canon_step(mres[pos])
                pos += 1
                if o[0] != "ok" or list(o[2]) != expected:
                    failures.append({"what": "closure/scoping scenario prints the wrong values when placed in a %s" % k,
                                     "program": variants[k], "expected": expected, "printed": list(o[2]) if len(o) > 2 else o, "status": o[0],
                                     "signature": "scenario %d in %s" % (i % len(BODIES), k), "failing_input": True})
    for mode in ({"gc": "default"}, {"gc": "always", "quarantine": 1}):
        mres, _ = progs.run_programs(ctx.runner, [(n, src, mods) for n, src, mods, _ in MODULE_SCENARIOS], mode, tag="g")
        for (name, src, mods, expected), r in zip(MODULE_SCENARIOS, mres):
            o = progs.canon_step(r)
            if o[0] != "ok" or list(o[2]) != expected:
                failures.append({"what": "scenario '%s' prints %s (%s), expected %s" % (name, list(o[2]) if len(o) > 2 else o, o[0], expected),
                                 "program": src, "modules": mods, "expected": expected, "signature": "scenario " + name, "failing_input": True})
    # (d) which declaration a use refers to: expectation constructed from the rule
    grid = resolution_grid() + [p for nm in BUILTIN_NAMES for p in resolution_grid(nm)] + deep_nesting_programs() + self_reference_programs() + catch_variable_programs()
    gres, _ = progs.run_programs(ctx.runner, [(n, src, {}) for n, src, _ in grid], {"gc": "default"}, tag="r")
    for (name, src, exp), r in zip(grid, gres):
        o = progs.canon_step(r)
        if exp[0] == "ok":
            good = o[0] == "ok" and list(o[2]) == exp[1]
        elif exp[0] == "compile":
            good = o[0] == "err" and o[1] == "CompileError" and len(o[3]) == 1 and exp[1] in o[3][0] and not o[2]
        else:
            good = o[0] == "err" and o[1] == "NameError" and not o[2]
        if not good:
            failures.append({"what": "a use of a name does not refer to the innermost enclosing declaration that precedes it (%s): expected %s, observed %s"
                                     % (name, exp, str(o)[:200]), "program": src, "expected_resolution": list(exp), "signature": "resolution " + (name.split("/")[1] if "/" in name else name.split(":")[0]),
                             "failing_input": True})
    # (b) reference interpreter
    sd = specdiff.diff(ctx, [(n, s, m) for n, s, m, _ in gen] + corpus + [(n, src, {}) for n, src, _ in grid] + [(n, src, mods) for n, src, mods, _ in MODULE_SCENARIOS], "C06", broken) if model_ok else {"failures": [], "compared": 0}
    failures += sd["failures"]
    tags = {}
    for _, _, _, tg in gen:
        for t in tg:
            tags[t] = tags.get(t, 0) + 1
    cov = {
        "evaluations": len(allp) + 2 * len(flat) + sd["compared"],
        "distinct_nontrivial": len(progs_with_capture),
        "rule": "programs (generated profiles %s + repository scripts) whose capture/close events are replayed through the mechanism model; "
                "non-trivial = distinct program that captured at least one variable; plus wrapper metamorphics and reference-interpreter differential" % ",".join(PROFILES),
        "samples": [gen[0][1][:500], mlines[:8]],
        "capture_events": n_cap, "captures_reusing_a_cell": n_reuse, "close_groups_closing_cells": n_close,
        "traces_validated_against_impl": len(spans),
        "wrapper_groups": n_meta, "resolution_grid_programs": len(grid),
        "programs_compared_with_reference_interpreter": sd["compared"],
        "generator_distribution": dict(sorted(tags.items(), key=lambda kv: -kv[1])[:30]),
        "programs": len(allp),
    }
    return {"failures": failures, "coverage": cov, "broken": broken}


def replay(ctx, payload):
    if "expected_resolution" in payload:
        a, _ = progs.run_programs(ctx.runner, [("a", payload["program"], {})], {"gc": "default"})
        o = progs.canon_step(a[0])
        exp = payload["expected_resolution"]
        if exp[0] == "ok":
            good = o[0] == "ok" and list(o[2]) == exp[1]
        elif exp[0] == "compile":
            good = o[0] == "err" and o[1] == "CompileError" and len(o[3]) == 1 and exp[1] in o[3][0]
        else:
            good = o[0] == "err" and o[1] == "NameError"
        return good, "observed %s expected %s" % (str(o)[:300], exp)
    if "expected" in payload:
        a, _ = progs.run_programs(ctx.runner, [("a", payload["program"], {})], {"gc": "default"})
        o = progs.canon_step(a[0])
        return o[0] == "ok" and list(o[2]) == payload["expected"], "printed %s expected %s" % (o, payload["expected"])
    if "program" in payload:
        return specdiff.replay(ctx, payload)
    return False, "nothing to replay"
