"""C02 — running a program never panics, crashes or corrupts memory.

Theorems: no_fault theorems of the data-level models (Yarel.Props.C13: no string/index/range operation can reach a Rust panic site;
Yarel.Props.C12: unhashable keys never reach the panicking hash arm; Yarel.Props.C11: the intern probe loop terminates;
Yarel.Props.GcCollector: the collector terminates for well-formed trace tables), Yarel.Props.C04 (verified bytecode keeps every
operand access in range, so the `expect`/index sites reading operands are unreachable), Yarel.Props.StackGuardThm, and the panic-site
inventory of the run-time files regenerated from the source (Yarel.Props.SitesInventory: every unwrap/expect/panic!/index/unsafe site is
paired with the lemma, the verifier, a ledger entry or 'dynamic only').
Correspondence: every built-in method x receivers of every value kind x argument tuples from an adversarial pool (exhaustive for arity <= 2);
every operator x operand kinds; ill-typed generated programs; resource-limit programs - in the checked (dev, all safe_* features) and
the optimised build: each run must end Ok or with a reported error value (catchable), never panic, abort, hang or touch freed memory.
"""
import json
import os

import vlib
import progs
from gen import shapes, stmts

THEOREM_MODULES = ["Yarel.Props.C13", "Yarel.Props.C12", "Yarel.Props.C04", "Yarel.Props.StackGuardThm", "Yarel.Props.FnsTie.NoPanic", "Yarel.Props.FnsTie.StackTie"]
REQUIRED_THEOREMS = ["no_fault", "unhashable_rejected_unchanged", "verify_sound", "guard_free_equiv", "vm_binary_op_never_panics", "op_total",
                     "vm_equal_never_panics", "vm_logical_not_never_panics", "vm_negate_never_panics"]
if os.path.exists(os.path.join(vlib.LEAN_DIR, "Yarel", "Props", "SitesInventory.lean")):
    THEOREM_MODULES.append("Yarel.Props.SitesInventory")
    REQUIRED_THEOREMS.append("sites_accounted_run_time")
# who writes the state the mechanism models are about: the set of write sites per group of fields, regenerated on every run (Props/StateWrites)
THEOREM_MODULES.append("Yarel.Props.StateWrites.writers_of_exception_state")
REQUIRED_THEOREMS += ['writers_of_exception_state']
USES_GEN = True
LEVEL = "proof"
ASSUMPTIONS = [
    "VM-wide progress (every opcode on every operand kind) is NOT proved for vm.rs: it rests on the site inventory plus the exhaustive "
    "operator/native sweeps below (partial)",
    "memory safety of unsafe blocks is outside any model; covered by the use-after-free monitor and the checked build",
]

POOL_SETUP = r'''
#[constructor(new)] class UserK { fn m(self) { return 1; } #[static] fn s() { return 2; } }
#[constructor(new)] class StopNow { fn iter(self) { return self; } fn next(self) { return StopIter.new(); } }
fn pool() {
    var inst = UserK.new();
    var fin = Fiber.new(|| 1); fin.call();
    var sus = Fiber.new(|| { Fiber.yield(1); return 2; }); sus.call();
    var err = nil; try { var z = nil + 1; } catch e { err = e; }
    var cyc = [1]; cyc.push(cyc);
    return [nil, true, false, 0, -0, 0.5, -1, 1, 2, 255, 256, (0/0), (1/0), (-1/0), 9223372036854775808, -9223372036854775808, 9007199254740993,
            "1.7976931348623157e308".to_num(), "", "a", "é€😀", "12", [], [1], [1, [2]], cyc, (), (1,), (1, 2), {}, {1: 2}, 1..3, 3..1, 0..0,
            String, UserK, Type, inst, || 1, |a, b| a, inst.m, [1].len, "s".len, Fiber.new(|| 1), fin, sus, [1, 2].iter(), (1, 2).iter(), (1..3).iter(), "ab".iter(),
            [1, 2].iter().map(|v| v), StopIter.new(), err, print, type, UserK.s, StopNow.new()];
}
'''

METHODS = ["derives", "from", "from_ascii", "from_utf8", "from_code_points", "iter", "len", "is_alpha", "is_digit", "is_hexdigit", "count_chars",
           "char_byte_index", "find", "replace", "split", "starts_with", "ends_with", "to_num", "to_bytes", "to_code_points", "next", "push", "pop",
           "has_key", "get", "insert", "remove", "clear", "keys", "values", "items", "new", "call", "yield", "has_finished", "map", "filter", "collect",
           "reduce", "m", "s", "context", "nosuch"]
BINOPS = ["+", "-", "*", "/", "%", "&", "|", "^", "<<", ">>", "<", "<=", ">", ">=", "==", "!=", "&&", "||", ".."]


# call_closure / return_impl translated from vm.rs on every run (Props/FnsTie/CallReturn): wrong arity and exhausted call depth are handed to the
# exception machinery and push no frame; a call saves the resume point and pushes a frame at the callee; Return cuts the stack to the frame's base,
# puts the result there and resumes the caller ("calls are atomic"); the last Return of a called fiber hands the result to the caller
THEOREM_MODULES.append("Yarel.Props.FnsTie.CallReturn")
REQUIRED_THEOREMS += ['call_wrong_arity', 'call_depth_limit']
REQUIRED_THEOREMS += ['stack_peek_checked', 'stack_push_checked', 'stack_pop_checked', 'stack_truncate_checked']
# "never ... silently corrupts memory" has the completeness of the collector's tracing as a premise: every pointer-bearing field of every
# kind of object is traced (the table regenerated from the sources on every run; Props/C01)
THEOREM_MODULES.append("Yarel.Props.C01")
REQUIRED_THEOREMS += ['schema_covers', 'schema_wellFormed']


def sweep_programs():
    progs_ = []
    n_pool = 57
    # natives: receiver i, method name, all argument tuples of arity 0..2
    for name in METHODS:
        src = POOL_SETUP + '''
var P = pool(); var n = 0;
for r in P {
    try { r.%(m)s(); } catch e { n = n + 1; }
    for a in P {
        try { r.%(m)s(a); } catch e { n = n + 1; }
        for b in P { try { r.%(m)s(a, b); } catch e { n = n + 1; } }
    }
}
print("done");
''' % {"m": name}
        progs_.append(("natives:" + name, src))
        src3 = POOL_SETUP + '''
var P = pool(); var n = 0; var k = 0;
for r in P { for a in P { k = k + 1; if k %% 7 == 0 { for b in P { try { r.%(m)s(a, b, a); } catch e { n = n + 1; } } } } }
print("done");
''' % {"m": name}
        progs_.append(("natives3:" + name, src3))
    for op in BINOPS:
        src = POOL_SETUP + '''
var P = pool(); var n = 0;
for a in P { for b in P { try { var z = a %s b; } catch e { n = n + 1; } } }
print("done");
''' % op
        progs_.append(("binop:" + op, src))
    misc = {
        "unary": "for a in P { try { var z = -a; } catch e {} try { var z = !a; } catch e {} try { var z = ~a; } catch e {} }",
        "index": "for a in P { for b in P { try { var z = a[b]; } catch e {} try { a[b] = 1; } catch e {} } }",
        "slice": "for a in P { for b in P { for c in [0, 1, -1, 5, 0.5, (0/0), (1/0)] { try { var z = a[b..c]; } catch e {} try { var z = a[c..b]; } catch e {} } } }",
        "call": "for a in P { try { a(); } catch e {} for b in P { try { a(b); } catch e {} try { a(b, b); } catch e {} } }",
        "property": "for a in P { try { var z = a.x; } catch e {} try { a.x = 1; } catch e {} try { var z = a.len; } catch e {} for b in P { try { a.field = b; } catch e {} } }",
        "forloop": "for a in P { try { for x in a { var y = x; } } catch e {} }",
        "display": "for a in P { try { var s = String.from(a); var t = \"${a}\"; } catch e {} }",
        "hashkey": "for a in P { try { var m = {a: 1}; m.get(a); m.insert(a, a); var z = m.keys(); } catch e {} }",
        "hashkey-retry": "var M = {}; for a in P { for rep in [0, 1, 2] { try { var m = {a: 1}; } catch e {} try { M.insert(a, a); } catch e {} try { M.get(a); } catch e {} "
                         "try { M.has_key(a); M.remove(a); } catch e {} try { M.insert([a, M], 1); } catch e {} try { M.insert((a, [a]), 1); } catch e {} } try { var s = String.from(a); } catch e {} }",
        "tuple-key-retry": "for a in P { for b in P { var t = (a, (b, [a])); var u = (a, b); for rep in [0, 1, 2] { try { var m = {t: 1}; } catch e {} try { var m = {u: 1}; m.get(u); m.get(t); } catch e {} } "
                           "try { var s = String.from(t) + String.from(u); var z = t == u; } catch e {} } }",
        "throw": "for a in P { try { throw a; } catch e { var z = e; } }",
        "type": "for a in P { try { var t = type(a); var d = a.derives(t); var d2 = a.derives(a); } catch e {} }",
        "equality": "var Q = []; for a in P { if type(a) != Vec { Q.push(a); } } for a in Q { for b in Q { var z = a == b; } }",
        "tuple-of": "for a in P { for b in P { try { var t = (a, b); var m = {t: 1}; var z = t == (a, b); } catch e {} } }",
        "range-of": "for a in P { for b in P { try { var r = a..b; for x in r { break; } } catch e {} } }",
        "fiber-of": "for a in P { try { var f = Fiber.new(a); f.call(); } catch e {} try { var f = Fiber.new(|x| x); f.call(a); f.call(a); } catch e {} }",
        "derive-of": "for a in P { try { var S = a; #[derive(S)] class D {} } catch e {} }",
        "construct-of": "for a in P { try { var z = a.new(); } catch e {} try { var z = a.new(a); } catch e {} }",
        "iter-protocol": "for a in P { try { var it = a.iter(); it.next(); it.next(); it.next(); } catch e {} }",
        "iterate-while-shrinking": "for n in [1, 2, 3, 5] { for k in [0, 1, 2, 3, 4] { try { var v = []; var i = 0; while i < n { v.push(i); i = i + 1; } var it = v.iter(); var j = 0; while j < k { it.next(); j = j + 1; } "
                                   "v.pop(); v.pop(); it.next(); v.clear(); it.next(); it.next(); var s = \"abcé\"; var si = s.iter(); si.next(); si.next(); si.next(); si.next(); si.next(); si.next(); "
                                   "var t = (1, 2).iter(); t.next(); t.next(); t.next(); t.next(); var r = (0..2).iter(); r.next(); r.next(); r.next(); r.next(); } catch e {} } }",
        "adapters": "for a in P { try { var z = [1, 2].iter().map(a).collect(); } catch e {} try { var z = [1, 2].iter().filter(a).collect(); } catch e {} try { var z = [1, 2].iter().reduce(a, a); } catch e {} }",
    }
    for k, body in misc.items():
        progs_.append(("misc:" + k, POOL_SETUP + "var P = pool();\n" + body + "\nprint(\"done\");\n"))
    limits = {
        "deep-recursion": "fn r(n) { return r(n + 1); }\ntry { r(0); } catch e { print(type(e) == IndexError); }\nprint(\"done\");\n",
        "mutual-recursion": "fn a(n) { return b(n + 1); }\nfn b(n) { return a(n + 1); }\ntry { a(0); } catch e { print(type(e) == IndexError); }\nprint(\"done\");\n",
        "fiber-recursion": "fn mk(n) { return Fiber.new(|| { if n > 200 { return n; } return mk(n + 1).call(); }); }\ntry { print(mk(0).call()); } catch e { print(\"err\"); }\nprint(\"done\");\n",
        "big-vec": "var v = []; var i = 0; while i < 20000 { v.push(i); i = i + 1; }\nprint(v.len());\nprint(\"done\");\n",
        "big-string": "var s = \"ab\"; var i = 0; while i < 16 { s = s + s; i = i + 1; }\nprint(s.len());\nprint(\"done\");\n",
        "many-locals-deep": "fn f(n) { var a0=0; var a1=1; var a2=2; var a3=3; var a4=4; var a5=5; var a6=6; var a7=7; if n == 0 { return 0; } return f(n - 1) + a7; }\ntry { print(f(60)); } catch e { print(\"err\"); }\nprint(\"done\");\n",
    }
    # the call-depth limit reached through EVERY call form (plain call, closure, method, super, bound method, static method, constructor, a
    # callback of a core-library adapter), starting 0, 1 and 2 frames deep (which call of an alternating pair meets the limit depends on the
    # parity): a catchable error each time, the depth reached is the same on a second attempt, and the program runs on
    forms = {
        "plain": ("fn rec(n) { try { return rec(n + 1); } catch e { return n; } }", "rec(0)"),
        "closure": ("var clo = nil; clo = |n| { try { return clo(n + 1); } catch e { return n; } };", "clo(0)"),
        "method": ("#[constructor(new)] class M { fn m(self, n) { try { return self.m(n + 1); } catch e { return n; } } } var mo = M.new();", "mo.m(0)"),
        "super": ("#[constructor(new)] class SA { fn m(self, n) { return self.m(n + 1); } } #[derive(SA), constructor(new)] class SB { fn m(self, n) { try { return super.m(n + 1); } catch e { return n; } } } var so = SB.new();", "so.m(0)"),
        "super-uncaught-inside": ("#[constructor(new)] class TA { fn m(self, n) { return self.m(n + 1); } } #[derive(TA), constructor(new)] class TB { fn m(self, n) { return super.m(n + 1); } } var to = TB.new(); fn tgo() { try { return to.m(0); } catch e { return type(e) == IndexError; } }", "tgo()"),
        "bound": ("#[constructor(new)] class BM { fn m(self, n) { var again = self.m; try { return again(n + 1); } catch e { return n; } } } var bo = BM.new().m;", "bo(0)"),
        "static": ("class ST { #[static] fn s(n) { try { return ST.s(n + 1); } catch e { return n; } } }", "ST.s(0)"),
        "constructor": ("var reached = 0; class CK { #[constructor] fn new(self, n) { reached = n; try { CK.new(n + 1); } catch e { } } }", "(|| { CK.new(0); return reached; })()"),
        "adapter-callback": ("fn viamap(n) { try { return [n].iter().map(|v| viamap(v + 1)).collect()[0]; } catch e { return n; } }", "viamap(0)"),
    }
    for fname, (defs, call) in forms.items():
        src = (defs + "\nfn one() { return %s; }\nfn two() { return one(); }\n"
               "var d0 = %s; var d0b = %s; print(d0 == d0b); var d1 = one(); print(d1 == one()); var d2 = two(); print(d2 == two());\n"
               "print(d0 == true || d0 > 20); print(\"done\");\n") % (call, call, call)
        limits_forms = ("limit:depth-" + fname, src)
        progs_.append(limits_forms)
    for k, src in limits.items():
        progs_.append(("limit:" + k, src))
    return progs_


_P255 = ", ".join("p%d" % i for i in range(255))
_ONES254 = ", ".join(["1"] * 254)
_ONES255 = ", ".join(["1"] * 255)
# (name, program, builds in which it is run)
KNOWN = [
    ("F4-derive-native-class", "#[constructor(new), derive(Vec)] class V {}\ntry { print(V.new().len()); } catch e { print(\"caught\"); }\nprint(\"done\");\n", ("release", "dev+safe")),
    ("F5-equality-of-cyclic-vecs", "var a = [1]; a.push(a); var b = [1]; b.push(b);\nprint(a == b);\nprint(\"done\");\n", ("release",)),
    ("F6-value-stack-overflow", "fn s255(" + _P255 + ") { return 0; }\nfn f(n) { " + " ".join("var v%d = %d;" % (i, i) for i in range(253)) +
     " if n == 0 { return s255(" + _ONES254 + ", s255(" + _ONES255 + ")); } return f(n - 1); }\ntry { print(f(62)); } catch e { print(\"caught\"); }\nprint(\"done\");\n", ("dev+safe",)),
    ("F7-deep-nesting-display", "var v = []; var i = 0; while i < 150000 { v = [v]; i = i + 1; }\ntry { print(String.from(v).len() > 0); } catch e { print(\"caught\"); }\nprint(\"done\");\n", ("release",)),
]


def misuse_histories():
    """One interpreter used again after a snippet failed (REPL / several interpret calls): a chain of fibers, each waiting for the next,
    whose innermost member fails in one of several ways while the others wait; later snippets then use every member of the chain in
    every way a program can (call with/without argument, has_finished, iteration, a closure it stored).  Every such use must be a
    reported error or a value - never a panic, a dead process, or a touched swept object."""
    fails = {"throw": 'throw "boom";', "type-error": "var z = nil + 1;", "overflow": "fn r(n) { return r(n + 1); } r(0);",
             "undefined": "nosuch_name;", "after-yield": 'Fiber.yield("y"); throw "late";', "bad-call": "var q = 1; q(2);"}
    uses = ["@.call();", "@.call(1);", "print(@.has_finished());", "for x in @ { print(x); }", "var g = Fiber.new(|| { try { return @.call(); } catch e2 { return type(e2); } }); print(g.call());",
            "@.call(); @.call();"]
    out = []
    for depth in (1, 2, 3):
        for fk, fsrc in fails.items():
            defs = ["var chain = [];", "var stash = [];"]
            # member k creates and calls member k+1; the last one fails
            body = "{ var loc = \"l%d\"; stash.push(|| loc); %s }" % (depth - 1, fsrc)
            for k in range(depth - 1, 0, -1):
                body = ("{ var loc = \"l%d\"; stash.push(|| loc); var nxt = Fiber.new(|| %s); chain.push(nxt); var got = nxt.call(); if got == \"y\" { got = nxt.call(); } "
                        "print(\"resumed %d\"); return got; }" % (k - 1, body, k - 1))
            first = "\n".join(defs) + "\nvar head = Fiber.new(|| %s);\nchain.push(head);\nprint(head.call());\n" % body
            if fk == "after-yield":
                first += "print(head.call());\n"
            second = []
            for m in range(depth):
                for u in uses:
                    second.append("try { %s } catch e { print(type(e)); }" % u.replace("@", "chain[%d]" % m))
            second.append("for c in stash { print(c()); }")
            second.append('print("alive");')
            out.append(("history:chain%d/%s" % (depth, fk), [first, "\n".join(second) + "\n", 'print("alive");\n']))
    return out


def uncaught_histories():
    """The report of an UNCAUGHT exception is built by the interpreter itself from the thrown value (class, context, trace): every kind
    of value, thrown at top level, from a call and from a fiber, must end the snippet with a reported error - also values that contain
    themselves, errors whose context (chain) leads back to an error already seen, and long chains of wrapped errors - and the
    interpreter must be usable afterwards."""
    defs = ("#[constructor(new)] class Box { }\n#[derive(ValueError)] class PE { #[constructor] fn new(self, c) { self.context = c; } }\n"
            "#[derive(PE)] class PE2 { #[constructor] fn new(self, c) { super.new(c); self.extra = self; } }\nfn id(x) { return x; }\n")
    shapes_ = {
        "nil": "nil", "bool": "false", "number": "-0", "nan": "(0/0)", "string": "\"s\\n${1}\"", "empty-string": "\"\"", "vec": "[1, [2]]", "map": "{1: {2: 3}}", "tuple": "(1, (2,))",
        "range": "(0..3)", "class": "Box", "builtin-class": "ValueError", "instance": "Box.new()", "closure": "|| 1", "fn": "id", "native": "print", "bound": "[1].len",
        "bound-user": "PE.new(1).derives", "fiber": "Fiber.new(|| 1)", "iterator": "[1].iter()", "adapter": "[1].iter().map(id)", "error": "Error.new(\"plain\")",
        "error-nil": "Error.new(nil)", "error-in-error": "Error.new(ValueError)", "user-error": "PE.new(\"u\")", "user-error-2": "PE2.new([1, 2])",
        "vec-in-itself": "(|| { var v = [1]; v.push(v); return v; })()", "map-in-itself": "(|| { var m = {}; m.insert(1, m); return m; })()",
        "tuple-cycle": "(|| { var v = []; var t = (v, 1); v.push(t); return t; })()",
        "instance-in-itself": "(|| { var b = Box.new(); b.me = b; b.context = b; return b; })()",
        "error-context-itself": "(|| { var e = Error.new(\"x\"); e.context = e; return e; })()",
        "error-context-cycle-2": "(|| { var a = Error.new(\"a\"); var b = Error.new(a); a.context = b; return a; })()",
        "user-error-context-itself": "(|| { var p = PE.new(nil); p.context = p; return p; })()",
        "user-error-cycle-3": "(|| { var a = PE.new(nil); var b = PE2.new(a); var c = Error.new(b); a.context = c; return b; })()",
        "error-context-vec-with-error": "(|| { var e = Error.new(nil); e.context = [e, (e,), {1: e}]; return e; })()",
        "error-chain-3000": "(|| { var e = Error.new(\"root\"); var i = 0; while i < 3000 { e = PE.new(e); i = i + 1; } return e; })()",
        "error-context-fiber": "Error.new(Fiber.new(|| 1))", "error-context-class": "PE.new(PE)",
    }
    wraps = {"top": "throw %s;\n", "call": "fn thrower(v) { throw v; }\nfn outer(v) { return thrower(v); }\nouter(%s);\n",
             "fiber": "var fb = Fiber.new(|v| { throw v; });\nfb.call(%s);\n", "finally": "try { throw %s; } finally { var pad = 1; }\n",
             "rethrow": "try { throw %s; } catch e { throw e; }\n"}
    out = []
    for sn, expr in shapes_.items():
        for wn, w in wraps.items():
            out.append(("history:uncaught/%s/%s" % (sn, wn), [defs + w % expr, 'print("alive");\n', 'print(id(1)); print("alive");\n']))
    return out


def outcome_ok(r):
    c = progs.canon_step(r)
    if c[0] == "crash":
        return "the interpreter process died (%s)" % c[1][-30:]
    if c[0] == "panic":
        return "panic: %s" % c[1][:100]
    if c[0] == "missing":
        return "no answer"
    if c[0] == "err" and c[3] and "step budget" in c[3][0]:
        return "did not finish within the step budget"
    if isinstance(r, dict) and r.get("uaf"):
        return "touched a swept object: %s" % r["uaf"][:2]
    return None


def correspondence(ctx, model_ok=True):
    rng = ctx.rng.fork("c02")
    failures = []
    broken = []
    sweeps = sweep_programs()
    if not ctx.thorough:
        sweeps = [p for p in sweeps if not p[0].startswith("natives3:")]
    gen = progs.generated(rng, ["expr", "control", "classes", "fibers", "exceptions", "iteration", "data", "typed", "typed-try"], 1800 if ctx.thorough else 270)
    shp = [("gen:" + n, s) for n, s in shapes.all_shapes()]
    # every statement form of the catalogue (tools/gen/stmts.py) 20 000 times inside one activation: a slot left behind (or taken) per
    # pass by ANY instruction overruns (or underruns) the 16 384-slot value stack
    loops = stmts.loop_programs(60000 if ctx.thorough else 20000) + stmts.failing_loop_programs(60000 if ctx.thorough else 20000)
    plist = [(n, s, {}) for n, s in sweeps] + [(n, s, m) for n, s, m, _ in gen] + [(n, s, {}) for n, s in shp] + loops
    known = KNOWN
    builds = [("release", ctx.runner, {"gc": "default"})]
    try:
        builds.append(("dev+safe", ctx.build_runner("dev", ("safe_stack", "safe_active_fiber", "safe_class_lookup", "safe_vm_opcodes")), {"gc": "default", "quarantine": 1}))
    except Exception as e:
        broken.append("checked harness build failed: %s" % str(e)[-200:])
    n_runs = 0
    budget_cut = 0
    for bname, exe, mode in builds:
        todo = plist
        if bname != "release" and not ctx.thorough:
            # the checked build collects at every allocation (minutes per 190k-operation sweep): quick tier runs the misc sweeps, the limit
            # programs and the generated programs there, and every sweep in the release build
            todo = [p for p in plist if not p[0].startswith(("natives:", "natives3:", "binop:"))]
        todo = todo + [(n, s, {}) for n, s, bs in known if bname in bs]
        # one program per process and a generous wall-clock limit: a native sweep performs ~190k operations and, in the checked build
        # (a collection at every allocation), takes minutes
        heavy = [p for p in todo if not p[0].startswith(("gen:", "stmtloop:"))]
        light = [p for p in todo if p[0].startswith("gen:")]
        lps = [p for p in todo if p[0].startswith("stmtloop:")]
        if bname != "release":
            # caught failures allocate an error object per pass: 1 500 passes each in the checked build, the full count in the optimised one
            lps = [p for p in lps if not p[0].startswith("stmtloop:fail")] + stmts.failing_loop_programs(1500)
        res_h, _ = progs.run_programs(exe, heavy, mode, steps_budget=400000000, tag=bname[0], timeout_per_batch=5400, batch=1)
        # short programs, several per process (a process that dies is bisected down to the program that killed it)
        # (the checked build runs them without collections: this sweep is about the operand stack, and a collection at every allocation
        # makes 2.3 million passes take minutes)
        res_p, _ = progs.run_programs(exe, lps, mode if bname == "release" else {"gc": "never"}, steps_budget=400000000, tag=bname[0] + "s", timeout_per_batch=1800, batch=8)
        # generated programs may legitimately run for ever (unbounded recursion trees, long loops): a small step budget, and running
        # out of it is not a failure of THIS property
        res_l, _ = progs.run_programs(exe, light, mode, steps_budget=1500000, tag=bname[0] + "g", timeout_per_batch=900)
        todo = heavy + light + lps
        res = res_h + res_l + res_p
        n_runs += len(todo)
        for (name, src, mods), r in zip(todo, res):
            bad = outcome_ok(r)
            if bad == "did not finish within the step budget" and name.startswith("gen:"):
                budget_cut += 1
                bad = None
            c = progs.canon_step(r)
            if not bad and name.split(":")[0] in ("natives", "natives3", "binop", "misc", "limit", "stmtloop") and (c[0] != "ok" or not c[2] or c[2][-1] != "done"):
                bad = "sweep program ended with %s %s instead of running to completion" % (c[0], list(c[3])[:1])
            if not bad and name.startswith("stmtloop:") and tuple(c[2]) != ("done",):
                bad = "a statement form repeated in one activation printed %s instead of only 'done': a local below the statement, or a global, was clobbered" % (list(c[2])[:3],)
            if not bad and name.startswith("F") and (c[0] != "ok" or c[2][-1:] != ("done",)):
                bad = "ended with %s %s" % (c[0], list(c[3])[:1])
            if bad:
                failures.append({"what": "%s [%s build]: %s" % (name, bname, bad), "program": src, "name": name, "build": bname, "modules": mods,
                                 "observed": c if c[0] != "ok" else c[:2],
                                 "signature": ("known " + name.split("-")[0]) if name.startswith("F") else "no-crash: %s: %s" % (name.split(":")[0] + ":" + name.split(":")[-1], bad.split(":")[0][:40]),
                                 "failing_input": True})
    # one interpreter used again after a failure
    hists = misuse_histories() + uncaught_histories()
    for bname, exe, mode in builds:
        hl = [vlib.case_line("h%d" % i, ["S:" + vlib.hx(sn) for sn in snips], steps=20000000) for i, (_, snips) in enumerate(hists)]
        for (hname, snips), r in zip(hists, vlib.run_real(exe, hl)):
            n_runs += 1
            steps = r.get("steps") if isinstance(r, dict) else None
            bad = None
            if not steps or len(steps) < len(snips):
                bad = "the interpreter process died (%s)" % str(r)[:120]
            else:
                for st in steps:
                    if st.get("status") == "panic":
                        bad = "panic: %s" % str(st.get("message"))[:100]
                    elif st.get("uaf"):
                        bad = "touched a swept object: %s" % st["uaf"][:2]
                last = progs.canon_step(steps[-1])
                mid = progs.canon_step(steps[-2])
                if not bad and (last[0] != "ok" or mid[0] != "ok" or mid[2][-1:] != ("alive",)):
                    bad = "after a failed snippet a later snippet on the same interpreter did not run normally (a use of what the failure left behind was not a reported, catchable error): %s" % (str(mid)[:160],)
                if not bad and "/uncaught/" in hname.replace("history:uncaught", "/uncaught") and progs.canon_step(steps[0])[0] != "err":
                    bad = "an uncaught throw did not end the snippet with a reported error: %s" % (str(progs.canon_step(steps[0]))[:160],)
            if bad:
                failures.append({"what": "%s [%s build]: %s" % (hname, bname, bad), "history": snips, "name": hname, "build": bname,
                                 "signature": "no-crash: %s: %s" % (hname.split("/")[0], bad.split(":")[0][:40]), "failing_input": True})
    cov = {
        "evaluations": n_runs, "reuse_after_failure_histories": len(hists), "generated_runs_cut_by_the_step_budget": budget_cut,
        "distinct_nontrivial": len(sweeps) + len(gen) + len(shp) + len(loops), "handler_shape_programs": len(shp), "statement_form_loops": len(loops),
        "rule": ("sweep programs: every method name x 57 receivers/arguments of every value kind (adversarial pool) x all argument tuples of arity 0-2 "
                "(+sampled arity 3), every binary operator x all pairs, unary/index/slice/call/property/for/display/hash/throw/type/equality/tuple/range/fiber/"
                "derive/construct/iterator sweeps, resource-limit programs, ill-typed generated programs, %d statement forms (every instruction family x the kinds of value it dispatches on) repeated 20 000 times in one activation; builds: " % len(loops)) + ", ".join(b for b, _, _ in builds) +
                "; each sweep program performs ~3.3k-190k operations; distinct = distinct program",
        "samples": [sweeps[0][1][-400:]],
        "operations_per_native_sweep": 57 * (1 + 57 + 57 * 57),
        "programs": len(plist),
    }
    return {"failures": dedupe(failures), "coverage": cov, "broken": broken}


def search(ctx, broken):
    """A broken obligation: the edge probes and generated programs of C01 (a swept object used, output depending on the schedule) are
    the search for a corruption; otherwise nothing is found here."""
    from props import c01
    found = c01.search(ctx, broken)
    for f in found:
        f["delegate"] = f.get("delegate", "c01")
    return found


def hash_even(s):
    return sum(map(ord, s)) % 3 != 0


def dedupe(failures):
    out = {}
    for f in failures:
        out.setdefault(f["signature"], f)
    return list(out.values())


def replay(ctx, payload):
    if payload.get("delegate") in ("c01", "c06"):
        from props import c01
        return c01.replay(ctx, payload)
    if "history" in payload:
        exe = ctx.runner
        if payload.get("build", "release") != "release":
            exe = ctx.build_runner("dev", ("safe_stack", "safe_active_fiber", "safe_class_lookup", "safe_vm_opcodes"))
        r = vlib.run_real(exe, [vlib.case_line("h", ["S:" + vlib.hx(sn) for sn in payload["history"]], steps=20000000)])[0]
        steps = r.get("steps") if isinstance(r, dict) else None
        if not steps or len(steps) < len(payload["history"]):
            return False, "the interpreter process died: %s" % str(r)[:200]
        for st in steps:
            if st.get("status") == "panic":
                return False, "panic: %s" % st.get("message")
        mid = progs.canon_step(steps[-2])
        return (mid[0] == "ok" and mid[2][-1:] == ("alive",)), str(mid)[:500]
    if "program" not in payload:
        return False, "nothing to replay"
    exe = ctx.runner
    if payload.get("build", "release") != "release":
        exe = ctx.build_runner("dev", ("safe_stack", "safe_active_fiber", "safe_class_lookup", "safe_vm_opcodes"))
    r, _ = progs.run_programs(exe, [("r", payload["program"], payload.get("modules", {}))], {"gc": "default"}, steps_budget=400000000)
    bad = outcome_ok(r[0])
    return bad is None, bad or str(progs.canon_step(r[0]))[:500]
