"""C19 — numbers survive text: printing and parsing round-trip exactly.

Theorems: Yarel.Props.C19 on the exact soft-float model (print_parse_roundtrip for EVERY bit pattern, roundRat_exact, integral_no_fraction,
parse = correctly rounded value of the decimal text, ofInt_exact) and the scanner's number lexing (lex_dot).
Correspondence: doubles (random bit patterns + subnormals, powers of two and ten, neighbours of 2^53 and 2^63, extremes) are brought
into the language through exact decimal literals, printed, converted back with to_num and compared; decimal texts (incl. long digit
strings, leading zeros, trailing dot) through literals and to_num; the implementation's text must equal the Lean model's `display`
and an independent host-side formatter, its parse must equal the model's `parseDec` and the host's correctly-rounded float();
number lexing: `d.x`, `d..d'`, `d.d'`, `d.` for generated digit strings against the token stream of the real scanner.
"""
import json
import math
import os
import struct

import vlib
import progs
from gen import ref

THEOREM_MODULES = []
REQUIRED_THEOREMS = []
if os.path.exists(os.path.join(vlib.LEAN_DIR, "Yarel", "Props", "C19.lean")):
    THEOREM_MODULES.append("Yarel.Props.C19")
    REQUIRED_THEOREMS += ["print_parse_roundtrip", "roundRat_exact"]
LEVEL = "proof"
ASSUMPTIONS = [
    "Rust's f64 Display/FromStr are not assumed correct: their results are compared with the Lean model and with the host's independent repr()/float()",
    "doubles enter the language as exact decimal literals (every double has a finite exact decimal expansion), so the literal parser is part of what is tested",
]


def bits_to_float(b):
    return struct.unpack("<d", struct.pack("<Q", b))[0]


def float_to_bits(x):
    return struct.unpack("<Q", struct.pack("<d", x))[0]


def exact_decimal(x):
    """The finite exact decimal expansion of a finite double (positional, no exponent)."""
    from fractions import Fraction
    f = Fraction(abs(x))
    n, d = f.numerator, f.denominator
    ip = n // d
    rem = n % d
    digits = []
    while rem:
        rem *= 10
        digits.append(str(rem // d))
        rem %= d
    s = str(ip) + ("." + "".join(digits) if digits else "")
    return s


def sigdigits(text):
    d = text.lstrip("-").replace(".", "").lstrip("0")
    return len(d.rstrip("0")) if "." not in text else len(d)


def gen_bits(rng, n):
    out = [0, 1 << 63, 1, (1 << 52) - 1, 1 << 52, 0x7FEFFFFFFFFFFFFF, 0x0010000000000000, 0x3FF0000000000000, 0x4340000000000000, 0x4340000000000001,
           0x433FFFFFFFFFFFFF, 0x43E0000000000000, 0xC3E0000000000000, 0x43DFFFFFFFFFFFFF, 0x3FB999999999999A, 0x3FD5555555555555, 0x4024000000000000]
    for e in range(-30, 31, 3):
        out.append(float_to_bits(10.0 ** e))
        out.append(float_to_bits(2.0 ** e))
    for e in (-1074, -1022, -1021, -500, 500, 1000, 1023):
        out.append(float_to_bits(math.ldexp(1.0, e)))
    while len(out) < n:
        k = rng.below(5)
        b = rng.next()
        if k == 0:
            b &= 0x800FFFFFFFFFFFFF              # subnormals
        elif k == 1:
            b = (b & 0x800FFFFFFFFFFFFF) | ((1023 + rng.below(70) - 10) << 52)   # magnitudes near 1 .. 2^60
        elif k == 2:
            b = float_to_bits(float(rng.below(2 ** 20)) / (10 ** rng.below(6)))  # short decimals
        e = (b >> 52) & 0x7FF
        if e == 0x7FF:
            continue
        out.append(b)
    return out


def gen_texts(rng, n):
    out = ["0", "00", "1", "1.0", "1.50", "0.1", "0.30000000000000004", "9007199254740993", "9007199254740992.5", "123456789012345678901234567890",
           "0.000000000000000000000000000001", "1.7976931348623157", "4.9406564584124654", "2.2250738585072011", "0.5", "5", "10", "100", "1000000",
           "1.", "12.", "007", "0.0", "000.000", "18446744073709551616", "9223372036854775807", "9223372036854775808", "0.1000000000000000055511151231257827"]
    while len(out) < n:
        k = rng.below(4)
        ip = "".join(str(rng.below(10)) for _ in range(1 + rng.below(20 if k else 5)))
        fp = "".join(str(rng.below(10)) for _ in range(rng.below(25 if k > 1 else 4)))
        out.append(ip + ("." + fp if fp else ""))
    return out


def gen_to_num_texts(rng, n):
    """Texts for String.to_num: signs, zeros of both signs, exponent forms, the special names, malformed texts."""
    out = ["-0", "-000", "-0.0", "+0", "0", "-0e5", "-0.000e-3", "+5", "-5", "1e5", "1E5", "1e+5", "1e-5", "-1.5e300", "1e400", "-1e400", "1e-400", "-1e-400",
           "inf", "-inf", "+inf", "infinity", "-infinity", "Infinity", "INF", "nan", "NaN", "-nan", "+nan", ".5", "-.5", "5.", "-5.", ".", "-", "+", "", "e5", "1e", "1e+",
           " 1", "1 ", "1_0", "0x10", "1.2.3", "--1", "+-1", "1e5.5", "12a", "4.9e-324", "2.4e-324", "2.5e-324", "1.7976931348623157e308", "1.7976931348623159e308",
           "9007199254740993", "-9007199254740993", "0.1e1", "00012", "-00012.5000"]
    # integers (and their neighbours) at the widths where an integer accumulator of 8 / 16 / 32 / 53 / 63 / 64 / 128 bits overflows, long runs of digits
    for p in (8, 16, 31, 32, 53, 63, 64, 65, 127, 128):
        for d in (-2049, -1, 0, 1, 2048, 4096):
            v = 2 ** p + d
            out += [str(v), "-" + str(v), str(v) + ".0", "0" + str(v)]
    for n in (15, 16, 17, 18, 19, 20, 21, 22, 39, 40, 309, 310):
        out += ["9" * n, "1" + "0" * (n - 1), "-" + "9" * n, "9" * n + ".5", "0." + "0" * n + "1", "0." + "9" * n]
    while len(out) < n:
        k = rng.below(6)
        sign = rng.choice(["", "-", "+", ""])
        ip = "".join(str(rng.below(10)) for _ in range(rng.below(8 if k else 22)))
        fp = "".join(str(rng.below(10)) for _ in range(rng.below(8 if k != 1 else 25)))
        t = sign + ip + ("." + fp if fp or rng.chance(1, 8) else "")
        if k >= 3:
            t += rng.choice(["e", "E"]) + rng.choice(["", "-", "+"]) + str(rng.below(330 if k == 5 else 30))
        if k == 4 and rng.chance(1, 3):
            i = rng.below(len(t) + 1)
            t = t[:i] + rng.choice(["x", " ", "e", ".", "-", "_", "f", "n"]) + t[i:]
        out.append(t)
    return out


def correspondence(ctx, model_ok=True):
    rng = ctx.rng.fork("c19")
    failures = []
    broken = []
    bits = gen_bits(rng.fork("bits"), 40000 if ctx.thorough else 25000)
    texts = gen_texts(rng.fork("texts"), 20000 if ctx.thorough else 15000)
    # programs of 100 numbers each: print(x), round trip through String.from + to_num, integrality
    batch = 100
    prog_list, meta = [], []
    for i in range(0, len(bits), batch):
        chunk = bits[i:i + batch]
        L = []
        for b in chunk:
            x = bits_to_float(b)
            lit = exact_decimal(x)
            lit = ("-" + lit) if (b >> 63) else lit
            L.append("{ var x = %s; print(x); print(String.from(x).to_num() == x); print(\"${x}\" == String.from(x)); print(String.from(x).to_num()); }" % lit)
        prog_list.append(("bits%d" % i, "\n".join(L) + "\n", {}))
        meta.append(("bits", chunk))
    for i in range(0, len(texts), batch):
        chunk = texts[i:i + batch]
        L = []
        for t in chunk:
            L.append("print(%s);" % (t if not t.endswith(".") else "(" + t[:-1] + ")"))
            L.append("print(\"%s\".to_num());" % t)
            # the literal written IN PLACE in every text-producing position: all must be the text `print` gives for it
            lt = t if not t.endswith(".") else "(" + t[:-1] + ")"
            L.append("print(\"${%s}|${ %s }|a${%s}b|\" + String.from(%s) + \"|${(%s)}|${%s + 0}\");" % (lt, lt, lt, lt, lt, lt))
        prog_list.append(("text%d" % i, "\n".join(L) + "\n", {}))
        meta.append(("text", chunk))
    tn = gen_to_num_texts(rng.fork("tonum"), 6000 if ctx.thorough else 5000)
    for i in range(0, len(tn), batch):
        chunk = tn[i:i + batch]
        prog_list.append(("tonum%d" % i, "\n".join("try { print(\"%s\".to_num()); } catch e { print(\"err \" + String.from(type(e) == ValueError)); }" % t for t in chunk) + "\n", {}))
        meta.append(("tonum", chunk))
    tonum_req, tonum_real = [], []
    res, _ = progs.run_programs(ctx.runner, prog_list, {"gc": "default"}, steps_budget=50000000, tag="n")
    model_print_req, model_print_real = [], []
    model_parse_req, model_parse_real = [], []
    compared = 0
    for (name, src, _), (kind, chunk), r in zip(prog_list, meta, res):
        c = progs.canon_step(r)
        printed = list(c[2]) if len(c) > 2 else []
        if c[0] != "ok":
            failures.append({"what": "number program failed: %s %s" % (c[0], list(c[3])[:2] if len(c) > 3 else c), "program": src[:2000], "signature": "number program failed", "failing_input": True})
            continue
        if kind == "bits":
            for j, b in enumerate(chunk):
                x = bits_to_float(b)
                shown, rt, interp, again = printed[4 * j:4 * j + 4]
                compared += 1
                exp = ref.fmt_num(x)
                bad = None
                if x == x and abs(x) != math.inf and sigdigits(shown) != sigdigits(exp):
                    bad = "prints %r (%d significant digits), a shortest round-trip text has %d (%r)" % (shown, sigdigits(shown), sigdigits(exp), exp)
                elif (x != x or abs(x) == math.inf) and shown != exp:
                    bad = "prints %r, expected %r" % (shown, exp)
                elif rt != ("true" if x == x else "false") or again != shown:
                    bad = "printing and converting back does not give the same number (text %r, converted back it prints %r)" % (shown, again)
                elif interp != "true":
                    bad = "interpolation and String.from disagree"
                elif x == math.trunc(x) and "." in shown:
                    bad = "an integral value prints with a fraction: %r" % shown
                elif "e" in shown.lower() and x == x and abs(x) != math.inf:
                    bad = "prints in exponent notation: %r" % shown
                elif float(shown) != x or (x == 0 and (shown.startswith("-") != (b >> 63 == 1))):
                    bad = "printed text %r does not denote the number" % shown
                if bad:
                    failures.append({"what": "number %016x: %s" % (b, bad), "bits": "%016x" % b, "program": "var x = %s; print(x); print(String.from(x).to_num() == x);" % (("-" if b >> 63 else "") + exact_decimal(x)),
                                     "signature": "number text: " + bad.split(",")[0].split("%")[0][:40], "failing_input": True})
                model_print_req.append("print %016x" % b)
                model_print_real.append(shown)
        elif kind == "tonum":
            for t, shown in zip(chunk, printed):
                compared += 1
                tonum_req.append(t)
                tonum_real.append(shown)
        else:
            for j, t in enumerate(chunk):
                lit, conv, routes = printed[3 * j:3 * j + 3]
                compared += 1
                if routes != "%s|%s|a%sb|%s|%s|%s" % (lit, lit, lit, lit, lit, lit):
                    failures.append({"what": "decimal text %r written in place: print gives %r, the interpolations / String.from / parenthesised / summed forms give %r" % (t, lit, routes),
                                     "text": t, "program": "print(%s); print(\"${%s}\"); print(String.from(%s));" % (t, t, t), "signature": "literal in place formats differently", "failing_input": True})
                x = float(t)
                exp = ref.fmt_num(x)
                # (where two shortest texts are equally close, formatters may differ in the last digit: compare the numbers denoted)
                if float(lit) != x or float(conv) != x or sigdigits(lit) != sigdigits(exp):
                    failures.append({"what": "decimal text %r: literal prints %r, to_num prints %r, the nearest double prints %r" % (t, lit, conv, exp), "text": t,
                                     "program": "print(%s); print(\"%s\".to_num());" % (t, t), "signature": "decimal text not nearest double", "failing_input": True})
                model_parse_req.append("parse " + vlib.hx(t))
                model_parse_real.append("%016x" % float_to_bits(x))
    # number lexing against the real scanner
    lex_cases = []
    for i in range(300 if ctx.thorough else 60):
        r = rng.fork("l%d" % i)
        d = "".join(str(r.below(10)) for _ in range(1 + r.below(6)))
        d2 = "".join(str(r.below(10)) for _ in range(1 + r.below(4)))
        ident = r.choice(["len", "x", "derives", "e5", "_a"])
        lex_cases += [(d + "." + ident, [("Number", d), ("Dot", "."), ("Identifier", ident)]),
                      (d + ".." + d2, [("Number", d), ("DotDot", ".."), ("Number", d2)]),
                      (d + "." + d2, [("Number", d + "." + d2)]),
                      (d + ".", [("Number", d), ("Dot", ".")]),
                      (d + "." + d2 + "." + ident, [("Number", d + "." + d2), ("Dot", "."), ("Identifier", ident)]),
                      (d + "." + d2 + ".." + d, [("Number", d + "." + d2), ("DotDot", ".."), ("Number", d)])]
    # the same cases after text of every UTF-8 length class (a comment line, a string literal with 2-, 3-, 4-byte characters): where the
    # number starts in BYTES and in CHARACTERS differs, and the look-ahead must not mix the two up
    prefixes = [("// caf\u00e9 \u20ac \U0001f600\n", []), ("\"\u00e9\u20ac\" ; ", None), ("\"\U0001f600\U0001f600\U0001f600\"; ", None)]
    base_cases = list(lex_cases)
    for k, (src, exp) in enumerate(base_cases):
        pre, ptoks = prefixes[k % len(prefixes)]
        lex_cases.append((pre + src, (ptoks, exp)))
    lres = vlib.run_real(ctx.runner, [vlib.case_line("lex%d" % i, ["SCAN:" + vlib.hx(src)]) for i, (src, _) in enumerate(lex_cases)])
    for (src, exp), r in zip(lex_cases, lres):
        toks = [(t[1], t[3]) for t in (r.get("steps") or [{}])[0].get("tokens", [])]
        if isinstance(exp, tuple):
            # prefixed case: the tokens of the prefix (none for a comment; a string and a `;`) come first
            ptoks, exp = exp
            skip = 0 if ptoks == [] else 2
            if skip and [t[0] for t in toks[:2]] != ["Str", "SemiColon"] and [t[0] for t in toks[:2]] != ["String", "SemiColon"]:
                exp = None
            toks = toks[skip:]
        if exp is None or toks[:-1] != exp or not toks or toks[-1][0] != "Eof":
            failures.append({"what": "number lexing of %r gives %s, expected %s" % (src, toks, exp), "source": src, "signature": "number lexing", "failing_input": True})
    # Lean model
    model_checked = 0
    if model_ok and THEOREM_MODULES:
        try:
            ans = vlib.run_model("num", model_print_req)
            for req, a, real in zip(model_print_req, ans, model_print_real):
                model_checked += 1
                if vlib.unhx(a).decode("utf-8", "replace") != real:
                    failures.append({"what": "model display and implementation differ", "request": req, "model": vlib.unhx(a).decode("utf-8", "replace"), "real": real,
                                     "signature": "model-vs-real display", "failing_input": False})
                    break
            # to_num on signed / exponent / special / malformed texts: the model's parse, then the model's display of the result
            pa = vlib.run_model("num", ["parse " + vlib.hx(t) for t in tonum_req])
            good = [(t, a, real) for t, a, real in zip(tonum_req, pa, tonum_real) if a != "err"]
            da = vlib.run_model("num", ["print " + ("7ff8000000000000" if a == "nan" else a) for _, a, _ in good]) if good else []
            expected = {}
            for (t, a, real), d in zip(good, da):
                expected[t] = vlib.unhx(d).decode("utf-8", "replace")
            for t, a, real in zip(tonum_req, pa, tonum_real):
                model_checked += 1
                exp = "err true" if a == "err" else expected[t]
                if real != exp:
                    failures.append({"what": "to_num(%r) prints %r; the model's parse (the nearest double, sign of zero kept; ValueError for malformed text) gives %r" % (t, real, exp),
                                     "text": t, "program": "print(\"%s\".to_num());" % t, "signature": "to_num differs from the model's parse", "failing_input": True})
                    break
            ans = vlib.run_model("num", model_parse_req)
            for req, a, real in zip(model_parse_req, ans, model_parse_real):
                model_checked += 1
                if a != real:
                    failures.append({"what": "model parse and the correctly rounded double differ", "request": req, "model": a, "real": real,
                                     "signature": "model-vs-real parse", "failing_input": False})
                    break
        except Exception as e:
            broken.append("model driver num: %s" % e)
    cov = {
        "evaluations": compared + len(lex_cases),
        "distinct_nontrivial": len(set(bits)) + len(set(texts)),
        "rule": "bit patterns: 50 boundary values (zeros, subnormal/normal extremes, 2^53 and 2^63 neighbours, powers of two and ten) + random patterns in five "
                "regimes, each entered as its exact decimal literal; decimal texts: 28 boundary texts + random digit strings of up to 20.25 digits; distinct = distinct input",
        "samples": ["%016x" % bits[20], texts[5], lex_cases[0][0]],
        "doubles": len(bits), "decimal_texts": len(texts), "lexing_cases": len(lex_cases),
        "compared_with_lean_model": model_checked,
    }
    from props.c08 import dedupe
    return {"failures": dedupe(failures), "coverage": cov, "broken": broken}


def replay(ctx, payload):
    if "program" in payload:
        r, _ = progs.run_programs(ctx.runner, [("r", payload["program"], {})], {"gc": "default"})
        return False, str(progs.canon_step(r[0]))[:600]
    return False, "nothing to replay"
