"""C12 — a HashMap is the abstract map keyed by the language's `==`.

Theorems: Yarel.Props.C12 (the hash after the -0 repair is coherent with `==`; the bucketed std-contract map with a
coherent hash refines the `==`-keyed association list; that list is a map by `==`; unhashable keys are rejected and
leave the map unchanged; NaN keys; and the PRESENT hash is NOT coherent at 0 / -0).
Correspondence: one Yarel program per operation sequence (literal construction, insert, remove, get, has_key, clear,
len, keys, values, items) over a pool of keys that contains equal-but-differently-built keys, keys engineered to
have equal hashes without being equal, NaN, and unhashable values.  Three parties answer every operation:
  * the real implementation (the program's printed lines, rendered by an in-language `show`),
  * the property's own oracle: a Python association list keyed by an explicit `eq` (IEEE equality for numbers, bytes
    for strings, elementwise for tuples with the same-object shortcut, pool identity for classes and ranges) —
    independent of the Lean model; that `eq` IS the language's `==` is checked per program on the whole pool matrix,
  * the Lean model driver `yarel_model map` (std-contract map with the REPAIRED hash).
real != oracle  -> the implementation violates the property (failing_input True);
real == oracle but real != model -> "model-vs-real map" (failing_input False).
Known defect on the present tree: 0 == -0 but hash_number(0.0) != hash_number(-0.0).  A sequence whose real answers
are exactly those of the map keyed by "`==` AND equal PRESENT hash" (a Python transcription of `impl Hash for Value`),
and that uses zeros of both signs, is reported under the single signature "neg-zero key".
"""
import json
import struct
from decimal import Decimal

import vlib
import progs

THEOREM_MODULES = ["Yarel.Props.C12"]
REQUIRED_THEOREMS = ["coherent_fixed", "bucketed_refines_assoc", "assoc_is_map_by_eq", "unhashable_rejected_unchanged",
                     "nan_keys", "coherent_fails_neg_zero"]
# the state the models abstract is all the state there is: the fields of the run-time structures, regenerated on every run, are the ones
# the models were written against (Props/StateInventory)
THEOREM_MODULES.append("Yarel.Props.StateInventory.state_of_strings_and_maps")
REQUIRED_THEOREMS += ['state_of_strings_and_maps']
# the hash map natives, the key validation and the literal builder as written on this run (Props/GlueText)
THEOREM_MODULES.append("Yarel.Props.GlueText.C12")
REQUIRED_THEOREMS += ['build_hash_map_as_modelled', 'build_hash_map_impl_as_modelled', 'hash_map_clear_as_modelled', 'hash_map_get_as_modelled', 'hash_map_has_key_as_modelled', 'hash_map_insert_as_modelled', 'hash_map_items_as_modelled', 'hash_map_keys_as_modelled', 'hash_map_len_as_modelled', 'hash_map_remove_as_modelled', 'hash_map_values_as_modelled', 'validate_hash_map_key_as_modelled']
LEVEL = "proof"
ASSUMPTIONS = [
    "model Yarel/Model/HashMapM.lean transcribes core.rs hash_map_*, validate_hash_map_key, vm.rs build_hash_map, "
    "impl PartialEq/Hash for Value; tie = op-sequence correspondence through the interpreter",
    "std::collections::HashMap is modelled by its contract (lookup compares only stored keys of equal hash, then ==); "
    "hashbrown and rustc are trusted",
    "the model hashes numbers with the REPAIRED hash_number (-0.0 normalised to +0.0); until the repair lands the "
    "implementation differs exactly on 0 / -0 (ledger: signature 'neg-zero key')",
    "a tuple containing NaN compared with the very same object is == in Rust (pointer shortcut) and not in the model: "
    "sequences using such a tuple through a variable are checked against the oracle only",
]
TRUSTED = ["in-language renderer `show` (numbers by Rust's shortest round-trip Display, strings by to_bytes, classes and "
           "ranges by position in a table searched with ==)"]

AVOID_NEG_ZERO = False      # True: the generator never builds -0 (use while the repair is pending to see everything else)
NEG_ZERO_ONE_IN = 4         # otherwise: every n-th sequence may draw the -0 members of the zero families

MASK64 = (1 << 64) - 1
MASK128 = (1 << 128) - 1
NAN_BITS = 0x7FF8000000000000
STEPS = 20000000

# ----------------------------------------------------------------------------------------------
# key descriptions
#   ("nil",) ("b", bool) ("n", bits) ("s", bytes) ("c", id) ("r", id) ("T", (elems...), oid|None) ("u", tag)


# ties between the function bodies translated from the Rust source on every run (Gen/Fns.lean) and the hand-written models
THEOREM_MODULES.append("Yarel.Props.FnsTie.Hash")
REQUIRED_THEOREMS += ['hash_number_tie']


def bits_of(x):
    if x != x:
        return NAN_BITS
    return struct.unpack(">Q", struct.pack(">d", x))[0]


def float_of(bits):
    return struct.unpack(">d", struct.pack(">Q", bits))[0]


NIL = ("nil",)


def B(b):
    return ("b", bool(b))


def N(x):
    return ("n", bits_of(float(x)))


def NB(bits):
    return ("n", bits)


def S(text):
    return ("s", text.encode("utf-8") if isinstance(text, str) else bytes(text))


def C(i):
    return ("c", i)


def R(i):
    return ("r", i)


def T(*elems, oid=None):
    return ("T", tuple(elems), oid)


def U(tag):
    return ("u", tag)


def with_oid(d, oid):
    return ("T", d[1], oid) if d[0] == "T" else d


# identity-compared objects: created once in the prelude, rendered by position
IDENT = [
    {"var": "K1", "kind": "c", "name": b"K1"},
    {"var": "ka", "kind": "c", "name": b"K"},     # two classes with one name (equal hashes), different objects
    {"var": "kb", "kind": "c", "name": b"K"},
    {"var": "Vec", "kind": "c", "name": b"Vec"},
    {"var": "Num", "kind": "c", "name": b"Num"},
    {"var": "r0", "kind": "r", "b": 1, "e": 3},   # r0, r1: equal bounds, different objects (range cache evicted between)
    {"var": "r1", "kind": "r", "b": 1, "e": 3},
    {"var": "r2", "kind": "r", "b": 3, "e": 1},   # hash(r2) == hash(r0) (xor of the bounds' hashes)
    {"var": "r3", "kind": "r", "b": 2, "e": 2},   # hash 0: collides with false, +0.0, (), (x, x)
    {"var": "r4", "kind": "r", "b": 1, "e": 2},   # collides with the tuples (1, 2) and (2, 1)
    {"var": "r5", "kind": "r", "b": 0, "e": 0},
    {"var": "r6", "kind": "r", "b": -5, "e": 7},
]
ID_OF = {d["var"]: i for i, d in enumerate(IDENT)}


def eq(a, b):
    """The language's `==` on key descriptions (impl PartialEq for Value)."""
    if a[0] != b[0]:
        return False
    k = a[0]
    if k == "nil":
        return True
    if k == "n":
        return float_of(a[1]) == float_of(b[1])          # IEEE: 0 == -0, NaN != NaN
    if k == "T":
        if a[2] is not None and a[2] == b[2]:
            return True                                   # ObjTuple::eq: same object
        return len(a[1]) == len(b[1]) and all(eq(x, y) for x, y in zip(a[1], b[1]))
    return a[1] == b[1]


def hashable(d):
    if d[0] == "u":
        return False
    if d[0] == "T":
        return all(hashable(x) for x in d[1])
    return True


def render(d):
    """Model driver syntax."""
    k = d[0]
    if k == "nil":
        return "nil"
    if k == "b":
        return "t" if d[1] else "f"
    if k == "n":
        return "n%016x" % d[1]
    if k == "s":
        return "s" + vlib.hx(d[1])
    if k == "c":
        return "c%d:%s" % (d[1], vlib.hx(IDENT[d[1]]["name"]))
    if k == "r":
        return "r%d:%d:%d" % (d[1], IDENT[d[1]]["b"], IDENT[d[1]]["e"])
    if k == "T":
        return "T(" + ",".join(render(x) for x in d[1]) + ")"
    return "u%d" % d[1]


def is_zero(d):
    return d[0] == "n" and (d[1] << 1) & MASK64 == 0


def zero_sign_differs(a, b):
    """Two == keys that differ somewhere in the sign of a zero."""
    if a[0] != b[0]:
        return False
    if a[0] == "n":
        return is_zero(a) and is_zero(b) and a[1] != b[1]
    if a[0] == "T" and len(a[1]) == len(b[1]):
        return any(zero_sign_differs(x, y) for x, y in zip(a[1], b[1]))
    return False


def contains_nan_identity(d):
    """A tuple object held in a variable with a NaN somewhere inside (outside the model's exact domain)."""
    if d[0] != "T":
        return False
    if d[2] is not None and has_nan(d):
        return True
    return any(contains_nan_identity(x) for x in d[1])


def has_nan(d):
    if d[0] == "n":
        return float_of(d[1]) != float_of(d[1])
    if d[0] == "T":
        return any(has_nan(x) for x in d[1])
    return False


# ----------------------------------------------------------------------------------------------
# Python transcription of the PRESENT `impl Hash for Value` — used only to recognise the known -0 defect and to
# count engineered collisions; cross-checked against the model's `hash` command.

def hash_number(bits):
    h = bits
    h = ((~h & MASK128) + ((h << 18) & MASK128)) & MASK128
    h ^= h >> 31
    h = (h * 21) & MASK128
    h ^= h >> 11
    h = (h + ((h << 6) & MASK128)) & MASK128
    h ^= h >> 22
    return h & MASK64


def fnv(bs):
    h = 2166136261
    for c in list(bs) + [0xFF]:
        h ^= c
        h = (h * 16777619) & MASK64
    return h


def present_hash(d):
    k = d[0]
    if k == "nil":
        return 2
    if k == "b":
        return 1 if d[1] else 0
    if k == "n":
        return hash_number(d[1])
    if k == "s":
        return fnv(d[1])
    if k == "c":
        return fnv(IDENT[d[1]]["name"])
    if k == "r":
        return hash_number(bits_of(float(IDENT[d[1]]["b"]))) ^ hash_number(bits_of(float(IDENT[d[1]]["e"])))
    if k == "T":
        h = 0
        for x in d[1]:
            h ^= present_hash(x)
        return h
    return 0


def eq_present(a, b):
    """What the present implementation treats as one entry: == AND equal present hash."""
    return eq(a, b) and present_hash(a) == present_hash(b)


# ----------------------------------------------------------------------------------------------
# the abstract map (the property's oracle)

class AbstractMap:
    def __init__(self, same):
        self.same = same
        self.entries = []       # [key, value, how the stored key was written]

    def find(self, k):
        for i, e in enumerate(self.entries):
            if self.same(k, e[0]):
                return i
        return None

    def insert(self, k, v, how=None):
        i = self.find(k)
        if i is None:
            self.entries.append([k, v, how])
            return None, None
        old = self.entries[i][1]
        self.entries[i][1] = v              # HashMap::insert keeps the stored key
        return old, self.entries[i]

    def step(self, op):
        """Returns the canonical answer ('ok ...' / 'err ValueError') and the entry hit through a key (or None)."""
        kind = op["op"]
        if kind == "lit":
            for k, _ in op["pairs"]:
                if not hashable(k["d"]):
                    return "err ValueError", []
            new = AbstractMap(self.same)
            hits = []
            for k, v in op["pairs"]:
                _, e = new.insert(k["d"], v["d"], k["src"])
                if e is not None:
                    hits.append((k, e))
            self.entries = new.entries
            return "ok", hits
        if kind in ("insert", "get", "has_key", "remove"):
            k = op["k"]["d"]
            if not hashable(k):
                return "err ValueError", []
            if kind == "insert":
                old, e = self.insert(k, op["v"]["d"], op["k"]["src"])
                return "ok " + render(old if e is not None else NIL), ([(op["k"], e)] if e is not None else [])
            i = self.find(k)
            e = self.entries[i] if i is not None else None
            hits = [(op["k"], list(e))] if e is not None else []
            if kind == "get":
                return "ok " + render(e[1] if e is not None else NIL), hits
            if kind == "has_key":
                return "ok " + ("t" if e is not None else "f"), hits
            if e is not None:
                del self.entries[i]
            return "ok " + render(e[1] if e is not None else NIL), hits
        if kind == "clear":
            self.entries = []
            return "ok nil", []
        if kind == "len":
            return "ok %d" % len(self.entries), []
        if kind == "keys":
            return "ok [" + ",".join(sorted(render(e[0]) for e in self.entries)) + "]", []
        if kind == "values":
            return "ok [" + ",".join(sorted(render(e[1]) for e in self.entries)) + "]", []
        if kind == "items":
            return "ok [" + ",".join(sorted(render(T(e[0], e[1])) for e in self.entries)) + "]", []
        raise ValueError(kind)


# ----------------------------------------------------------------------------------------------
# the key catalogue: families of equal-but-differently-built keys and of unequal keys with equal hashes

def num_literal(bits):
    """A decimal literal that the scanner reads back as exactly this (finite) double."""
    x = float_of(bits)
    s = format(Decimal(abs(x)), "f")
    if "." not in s:
        s += ".0"
    return ("-" if bits >> 63 else "") + s


# found by inverting utils::hash_number over its 2^30 possible carries (the driver's `hash n<bits>` confirms each):
COLLIDE_NIL = 0xE8825C665D258BD4       # hash_number = 2              = hash(nil)
COLLIDE_STR_K = 0x748180B6D2FB092A     # hash_number = fnv("K")       = hash("K") = hash(class K)
COLLIDE_ONE = 0x3BD1C07DCCD5B77D       # hash_number = hash_number(1.0)
COLLIDE_STR_A = 0xA24828F91D79E651     # hash_number = fnv("a")
COLLIDE_T12 = 0xB29F5A7FC80DF233       # hash_number = hash((1, 2))   = hash(1..2)
COLLIDE_TWO_A = 0x573799224545CB39     # hash_number = hash_number(2.0)
COLLIDE_TWO_B = 0x84CD59257E70442F     # hash_number = hash_number(2.0)
EXPECTED_COLLISIONS = [
    (NB(COLLIDE_NIL), NIL), (NB(COLLIDE_STR_K), S("K")), (NB(COLLIDE_STR_K), C(ID_OF["ka"])), (NB(COLLIDE_ONE), N(1)),
    (NB(COLLIDE_STR_A), S("a")), (NB(COLLIDE_T12), T(N(1), N(2))), (NB(COLLIDE_T12), R(ID_OF["r4"])),
    (NB(COLLIDE_TWO_A), N(2)), (NB(COLLIDE_TWO_B), N(2)), (N(0), B(False)), (T(), B(False)), (R(ID_OF["r3"]), N(0)),
    (T(B(True)), B(True)), (T(NIL), NIL), (T(N(1), N(2)), T(N(2), N(1))), (R(ID_OF["r0"]), R(ID_OF["r2"])),
    (C(ID_OF["ka"]), C(ID_OF["kb"])), (S("Vec"), C(ID_OF["Vec"])),
]


def M(expr, desc, negzero=False, fresh=True):
    """One catalogue member. fresh: the expression may be written again at the point of use (a new object each time)."""
    return {"expr": expr, "desc": desc, "negzero": negzero, "fresh": fresh}


def ident(var):
    d = IDENT[ID_OF[var]]
    return M(var, (d["kind"], ID_OF[var]), fresh=True)   # the expression IS the variable: same object every time


FAMILIES = {
    "one": [M("1", N(1)), M("1.0", N(1)), M("(0.5 + 0.5)", N(1)), M("(3 - 2)", N(1)), M('"a".len()', N(1)),
            M(num_literal(COLLIDE_ONE), NB(COLLIDE_ONE)), M("true", B(True)), M('"1"', S("1")), M("(1,)", T(N(1))),
            M("(1.0,)", T(N(1)))],
    "zero": [M("0", N(0)), M("0.0", N(0)), M("(1 - 1)", N(0)), M("-0", N(-0.0), True), M("(0 * -1)", N(-0.0), True),
             M("-0.0", N(-0.0), True), M("false", B(False)), M("()", T()), M("r3", R(ID_OF["r3"])), M('"0"', S("0"))],
    "zero-tuples": [M("(0,)", T(N(0))), M("(-0,)", T(N(-0.0)), True), M("(0, 1)", T(N(0), N(1))),
                    M("(-0, 1.0)", T(N(-0.0), N(1)), True), M("((0,), \"z\")", T(T(N(0)), S("z"))),
                    M("((-0,), \"z\")", T(T(N(-0.0)), S("z")), True), M("(0, -0)", T(N(0), N(-0.0)), True),
                    M("(-0, 0)", T(N(-0.0), N(0)), True), M("(1 - 1, 0.0)", T(N(0), N(0)))],
    "two": [M("2", N(2)), M("(1 + 1)", N(2)), M(num_literal(COLLIDE_TWO_A), NB(COLLIDE_TWO_A)),
            M(num_literal(COLLIDE_TWO_B), NB(COLLIDE_TWO_B)), M("2.0", N(2)), M("(2,)", T(N(2))), M('"2"', S("2"))],
    "big": [M("9007199254740992", N(2.0 ** 53)), M("9007199254740993", N(2.0 ** 53)), M("9007199254740992.0", N(2.0 ** 53)),
            M("9007199254740994", N(2.0 ** 53 + 2)), M("123456789012345678901234567890", N(123456789012345678901234567890.0))],
    "frac": [M("(0.1 + 0.2)", N(0.1 + 0.2)), M("0.30000000000000004", N(0.30000000000000004)), M("0.3", N(0.3)),
             M("(1 / 3)", N(1 / 3)), M("0.3333333333333333", N(0.3333333333333333)), M("0.5", N(0.5)), M("(1 / 2)", N(0.5))],
    "inf": [M("(1 / 0)", N(float("inf"))), M("(2 / 0)", N(float("inf"))), M("(-1 / 0)", N(float("-inf"))),
            M("(1 / -0)", N(float("-inf")))],
    "nan": [M("(0 / 0)", NB(NAN_BITS)), M("(0 / 0 + 1)", NB(NAN_BITS)), M("((0 / 0), 1)", T(NB(NAN_BITS), N(1)))],
    "nil": [M("nil", NIL), M(num_literal(COLLIDE_NIL), NB(COLLIDE_NIL)), M("(nil,)", T(NIL)), M('"nil"', S("nil")),
            M("(true, nil)", T(B(True), NIL)), M("(nil, true)", T(NIL, B(True)))],
    "bool": [M("true", B(True)), M("(1 == 1)", B(True)), M("!false", B(True)), M("false", B(False)), M("(1 == 2)", B(False)),
             M("(true,)", T(B(True))), M('"true"', S("true"))],
    "str-ab": [M('"ab"', S("ab")), M('("a" + "b")', S("ab")), M('"${"a"}b"', S("ab")), M('"ab".replace("x", "y")', S("ab")),
               M('"a"', S("a")), M(num_literal(COLLIDE_STR_A), NB(COLLIDE_STR_A)), M('"ba"', S("ba")), M('("ab",)', T(S("ab")))],
    "str-misc": [M('""', S("")), M('("" + "")', S("")), M('"\u00e9"', S("\u00e9")), M('("e" + "\u0301")', S("e\u0301")), M('"${1}"', S("1")),
                 M('"1"', S("1")), M('"😀"', S("😀")), M('" "', S(" "))],
    "class-name": [M('"K"', S("K")), M('("" + "K")', S("K")), ident("ka"), ident("kb"), ident("K1"), M('"K1"', S("K1")),
                   M(num_literal(COLLIDE_STR_K), NB(COLLIDE_STR_K)), ident("Vec"), M('"Vec"', S("Vec")), ident("Num"),
                   M("(ka,)", T(C(ID_OF["ka"]))), M("(kb,)", T(C(ID_OF["kb"])))],
    "range": [ident("r0"), ident("r1"), ident("r2"), ident("r4"), ident("r5"), ident("r6"), M("(r0,)", T(R(ID_OF["r0"]))),
              M("(r1,)", T(R(ID_OF["r1"]))), M("(1, 3)", T(N(1), N(3))), M("(r0, r1)", T(R(ID_OF["r0"]), R(ID_OF["r1"]))),
              M("(r1, r0)", T(R(ID_OF["r1"]), R(ID_OF["r0"])))],
    "pair": [M("(1, 2)", T(N(1), N(2))), M("(1.0, 2.0)", T(N(1), N(2))), M("(3 - 2, 1 + 1)", T(N(1), N(2))),
             M("(2, 1)", T(N(2), N(1))), ident("r4"), M(num_literal(COLLIDE_T12), NB(COLLIDE_T12)),
             M("((1, 2),)", T(T(N(1), N(2)))), M("(1, 1)", T(N(1), N(1))), M("(2, 2)", T(N(2), N(2))),
             M("(1, 2, 3)", T(N(1), N(2), N(3))), M("(3, 2, 1)", T(N(3), N(2), N(1)))],
    "nested": [M('((1, 2), "ab")', T(T(N(1), N(2)), S("ab"))), M('((1.0, 1 + 1), "a" + "b")', T(T(N(1), N(2)), S("ab"))),
               M('("ab", (1, 2))', T(S("ab"), T(N(1), N(2)))), M("(1, (2, (3, ())))", T(N(1), T(N(2), T(N(3), T())))),
               M("(1.0, (2.0, (3.0, ())))", T(N(1), T(N(2), T(N(3), T())))), M("(((),),)", T(T(T()))),
               M("((), ())", T(T(), T())), M("(nil, (true, K1))", T(NIL, T(B(True), C(ID_OF["K1"])))),
               M("(nil, (1 == 1, K1))", T(NIL, T(B(True), C(ID_OF["K1"]))))],
}
UNHASHABLE = [
    M("[1]", U(1)), M("[]", U(2)), M("{}", U(3)), M("{1: 2}", U(4)), M("I.new()", U(5)), M("|| 1", U(6)), M("show", U(7)),
    M("(1, [2])", T(N(1), U(8))), M("((1, [2]), 3)", T(T(N(1), U(9)), N(3))), M("(1, {})", T(N(1), U(10))),
    M("[1].iter()", U(11)), M("[1].len", U(12)), M("(I.new(),)", T(U(13))), M("((), (nil, (|| 2,)))", T(T(), T(NIL, T(U(14))))),
]
VALUES = [M("nil", NIL), M("true", B(True)), M("false", B(False)), M('"v"', S("v")), M('"w"', S("w")), M("(1, \"x\")", T(N(1), S("x"))),
          M("()", T()), M("-0", N(-0.0)), M("(0 / 0)", NB(NAN_BITS)), M("K1", C(ID_OF["K1"])), M("r0", R(ID_OF["r0"])),
          M("r1", R(ID_OF["r1"]))]

PRELUDE = r'''fn show(x) {
  var i = 0;
  while i < IDS.len() { if x == IDS[i] { return "#${i}"; } i = i + 1; }
  var t = type(x);
  if t == Nil { return "nil"; }
  if t == Bool { if x { return "t"; } return "f"; }
  if t == Num { return "n${x}"; }
  if t == String { var r = "s"; for b in x.to_bytes() { r = r + "${b}."; } return r; }
  if t == Tuple { var r = "T("; var first = true; for e in x { if !first { r = r + ","; } first = false; r = r + show(e); } return r + ")"; }
  return "?${x}";
}
fn showv(v) { var r = "["; var first = true; for e in v { if !first { r = r + " "; } first = false; r = r + show(e); } return r + "]"; }
class K1 {}
fn mk() { class K {} return K; }
var ka = mk(); var kb = mk();
#[constructor(new)] class I {}
var EV = 0;
fn evict() { var i = 0; while i < 9 { EV = EV + 1; var q = (100000 + EV)..(200000 + EV); i = i + 1; } }
var r0 = 1..3; evict(); var r1 = 1..3; evict();
var r2 = 3..1; var r3 = 2..2; var r4 = 1..2; var r5 = 0..0; var r6 = -5..7; evict();
var IDS = [%s];
''' % ", ".join(d["var"] for d in IDENT)


class ShowError(Exception):
    pass


def conv(s):
    """The in-language rendering -> model driver syntax."""
    out, rest = _conv(s)
    if rest:
        raise ShowError("trailing %r in %r" % (rest, s))
    return out


def _conv(s):
    if s.startswith("T("):
        rest = s[2:]
        elems = []
        if rest.startswith(")"):
            return "T()", rest[1:]
        while True:
            e, rest = _conv(rest)
            elems.append(e)
            if rest.startswith(","):
                rest = rest[1:]
            elif rest.startswith(")"):
                return "T(" + ",".join(elems) + ")", rest[1:]
            else:
                raise ShowError("bad tuple rendering %r" % s)
    n = 0
    while n < len(s) and s[n] not in ",)":
        n += 1
    tok, rest = s[:n], s[n:]
    if tok in ("nil", "t", "f"):
        return tok, rest
    if tok.startswith("#"):
        return render((IDENT[int(tok[1:])]["kind"], int(tok[1:]))), rest
    if tok.startswith("n"):
        try:
            return "n%016x" % bits_of(float(tok[1:])), rest
        except ValueError:
            raise ShowError("bad number rendering %r" % tok)
    if tok.startswith("s"):
        try:
            return "s" + vlib.hx(bytes(int(b) for b in tok[1:].split(".") if b)), rest
        except ValueError:
            raise ShowError("bad string rendering %r" % tok)
    raise ShowError("unrenderable value %r" % tok)


def canon_line(kind, line):
    """One printed line of an operation -> the canonical answer."""
    if line.startswith("E "):
        parts = line.split(" ", 3)
        name = parts[2].rstrip(">") if len(parts) > 2 else "?"
        msg = parts[3] if len(parts) > 3 else ""
        if name == "ValueError" and not (msg.startswith("Cannot use unhashable value '") and msg.endswith("' as HashMap key.")):
            return "err ValueError with message %r" % msg
        return "err " + name
    if not line.startswith("R "):
        return "unexpected line %r" % line
    body = line[2:]
    try:
        if kind == "lit":
            return body
        if kind == "len":
            c = conv(body)
            x = float_of(int(c[1:], 16))
            return "ok %d" % int(x) if x == int(x) else "ok " + c
        if kind in ("keys", "values", "items"):
            if not (body.startswith("[") and body.endswith("]")):
                return "unexpected enumeration %r" % body
            inner = body[1:-1]
            elems = [conv(e) for e in inner.split(" ")] if inner else []
            return "ok [" + ",".join(sorted(elems)) + "]"
        return "ok " + conv(body)
    except ShowError as e:
        return "unrenderable: %s" % e


# ----------------------------------------------------------------------------------------------
# generator

def gen_sequence(rng, index, avoid_neg_zero):
    """Returns {"pool": [...], "ops": [...]}; pool entry = {var, expr, d (description through the variable), fresh}."""
    allow_nz = (not avoid_neg_zero) and index % NEG_ZERO_ONE_IN == 0
    names = sorted(FAMILIES)
    fams = []
    if allow_nz:
        fams.append(rng.choice(["zero", "zero-tuples"]))
    want = 2 + rng.below(3)
    while len(fams) < want:
        f = rng.choice(names)
        if f not in fams:
            fams.append(f)
    pool = []
    seen_expr = set()
    for f in fams:
        members = [m for m in FAMILIES[f] if allow_nz or not m["negzero"]]
        if allow_nz and f in ("zero", "zero-tuples"):
            nz = [m for m in members if m["negzero"]]
            pz = [m for m in members if not m["negzero"]]
            picks = [rng.choice(nz), rng.choice(pz)]
        else:
            picks = []
        k = 2 + rng.below(4)
        tries = 0
        while len(picks) < min(k, len(members)) and tries < 50:
            tries += 1
            m = rng.choice(members)
            if m not in picks:
                picks.append(m)
        for m in picks:
            if m["expr"] in seen_expr:
                continue
            seen_expr.add(m["expr"])
            pool.append(m)
    if rng.chance(1, 2):
        for _ in range(1 + rng.below(2)):
            m = rng.choice(UNHASHABLE)
            if m["expr"] not in seen_expr:
                seen_expr.add(m["expr"])
                pool.append(m)
    if "nan" not in fams and rng.chance(1, 6):
        m = rng.choice(FAMILIES["nan"])
        seen_expr.add(m["expr"])
        pool.append(m)
    # shuffle (Fisher-Yates)
    for i in range(len(pool) - 1, 0, -1):
        j = rng.below(i + 1)
        pool[i], pool[j] = pool[j], pool[i]
    entries = []
    for i, m in enumerate(pool):
        entries.append({"var": "p%d" % i, "expr": m["expr"], "src": m["expr"], "d": with_oid(m["desc"], 1000 + i),
                        "fresh_d": m["desc"], "negzero": m["negzero"]})
    # a nested tuple around a pool tuple (identity of the inner one rides along) and an alias of a pool variable
    tuples = [e for e in entries if e["d"][0] == "T" and hashable(e["d"])]
    if tuples and rng.chance(1, 3):
        inner = rng.choice(tuples)
        i = len(entries)
        entries.append({"var": "p%d" % i, "expr": "(%s, 7)" % inner["var"], "src": "(%s, 7)" % inner["src"],
                        "d": T(inner["d"], N(7), oid=1000 + i), "fresh_d": T(inner["d"], N(7)), "negzero": inner["negzero"]})
    if rng.chance(1, 3):
        src = rng.choice(entries)
        i = len(entries)
        entries.append({"var": "p%d" % i, "expr": src["var"], "src": src["src"], "d": src["d"], "fresh_d": src["d"],
                        "negzero": src["negzero"]})

    def key_use():
        if rng.chance(1, 25):
            # an unhashable key that IS or CONTAINS the receiver map itself (rendering the key for the error message reaches the receiver)
            x, d = rng.choice([("m", U(90)), ("[m]", U(91)), ("(2, [m])", T(N(2), U(92))), ("(m,)", T(U(93))), ("{1: m}", U(94)), ("(1, (m, 2))", T(N(1), T(U(95), N(2))))])
            return {"x": x, "d": d, "src": x}
        e = rng.choice(entries)
        if rng.chance(1, 2):
            return {"x": e["var"], "d": e["d"], "src": e["src"]}
        return {"x": e["expr"], "d": e["fresh_d"], "src": e["src"]}   # written out again: a new object

    counter = [0]

    def value_use():
        r = rng.below(10)
        if r < 5:
            counter[0] += 1
            return {"x": str(counter[0]), "d": N(counter[0])}
        if r < 8:
            m = rng.choice(VALUES)
            if m["expr"] == "-0" and not allow_nz:
                return {"x": "0", "d": N(0)}
            return {"x": m["expr"], "d": m["desc"]}
        e = rng.choice(entries)
        if not hashable(e["d"]):        # values are rendered by `show`: keep them renderable
            return {"x": '"u"', "d": S("u")}
        return {"x": e["var"], "d": e["d"]}

    def literal(n):
        return {"op": "lit", "pairs": [(key_use(), value_use()) for _ in range(n)]}

    n_ops = 5 + rng.below(36)
    ops = []
    if rng.chance(1, 2):
        ops.append(literal(rng.below(7)))
    if index % 50 == 7:
        # a literal at the compiler's limit of 255 entries: pool keys over and over plus fresh numbers
        pairs = []
        for j in range(255):
            if rng.chance(1, 2):
                pairs.append((key_use(), value_use()))
            else:
                pairs.append(({"x": str(1000 + j % 40), "d": N(1000 + j % 40), "src": str(1000 + j % 40)}, value_use()))
        hashable_pairs = [p for p in pairs if hashable(p[0]["d"])]
        ops.append({"op": "lit", "pairs": hashable_pairs if rng.chance(3, 4) else pairs})
    while len(ops) < n_ops:
        r = rng.below(100)
        if r < 36:
            op = {"op": "insert", "k": key_use(), "v": value_use()}
        elif r < 52:
            op = {"op": "get", "k": key_use()}
        elif r < 62:
            op = {"op": "has_key", "k": key_use()}
        elif r < 75:
            op = {"op": "remove", "k": key_use()}
        elif r < 80:
            op = {"op": "len"}
        elif r < 84:
            op = {"op": "keys"}
        elif r < 88:
            op = {"op": "values"}
        elif r < 94:
            op = {"op": "items"}
        elif r < 96:
            op = {"op": "clear"}
        else:
            op = literal(rng.below(6))
        ops.append(op)
        # after a rejected key: look at the whole map (it must be unchanged)
        keys = [op["k"]] if "k" in op else [p[0] for p in op.get("pairs", [])]
        if any(not hashable(k["d"]) for k in keys) and rng.chance(2, 3):
            ops.append({"op": "items"})
    if rng.chance(1, 3):
        # an insert over an EXISTING key whose new value is == to the stored one without being the same value (zero of the other sign):
        # the entry must hold the value inserted last
        k = key_use()
        if hashable(k["d"]):
            for vsrc, vd in (("0", N(0)), ("-0", N(-0.0)), ("0", N(0)), ("(0, \"z\")", T(N(0), S("z"))), ("(-0, \"z\")", T(N(-0.0), S("z")))):
                ops.append({"op": "insert", "k": k, "v": {"x": vsrc, "d": vd}})
                ops.append({"op": "get", "k": k})
    ops.append({"op": "items"})
    ops.append({"op": "len"})
    return {"pool": entries, "ops": ops}


CATCH = ' } catch e { print("E ${type(e)} ${e.context}"); }'


def op_source(op):
    k = op["op"]
    if k == "lit":
        body = ", ".join("%s: %s" % (a["x"], b["x"]) for a, b in op["pairs"])
        return 'try { m = {%s}; print("R ok");' % body + CATCH
    if k == "insert":
        return 'try { print("R " + show(m.insert(%s, %s)));' % (op["k"]["x"], op["v"]["x"]) + CATCH
    if k in ("get", "has_key", "remove"):
        return 'try { print("R " + show(m.%s(%s)));' % (k, op["k"]["x"]) + CATCH
    if k in ("clear", "len"):
        return 'try { print("R " + show(m.%s()));' % k + CATCH
    return 'try { print("R " + showv(m.%s()));' % k + CATCH


def op_text(op):
    k = op["op"]
    if k == "lit":
        return "m = {" + ", ".join("%s: %s" % (a["x"], b["x"]) for a, b in op["pairs"]) + "}"
    if k == "insert":
        return "insert(%s, %s)" % (op["k"]["x"], op["v"]["x"])
    if "k" in op:
        return "%s(%s)" % (k, op["k"]["x"])
    return k + "()"


def op_model(op):
    k = op["op"]
    if k == "lit":
        return " ".join(["lit"] + [render(a["d"]) + " " + render(b["d"]) for a, b in op["pairs"]])
    if k == "insert":
        return "op insert %s %s" % (render(op["k"]["d"]), render(op["v"]["d"]))
    if "k" in op:
        return "op %s %s" % (k, render(op["k"]["d"]))
    return k


def program(seq):
    src = [PRELUDE]
    shown = []
    for e in seq["pool"]:
        src.append("var %s = %s;" % (e["var"], e["expr"]))
    # the == matrix covers the hashable pool values (what the property quantifies over); unhashable ones are only rejected
    src.append("var POOL = [%s];" % ", ".join(e["var"] for e in seq["pool"] if hashable(e["d"])))
    for e in seq["pool"]:
        if hashable(e["d"]):
            src.append('print("P " + show(%s));' % e["var"])
            shown.append(e)
    src.append('for a in POOL { var r = "M "; for b in POOL { if a == b { r = r + "1"; } else { r = r + "0"; } } print(r); }')
    src.append("var m = {};")
    for op in seq["ops"]:
        src.append(op_source(op))
    return "\n".join(src) + "\n", shown


def expectations(seq):
    """Expected header lines (pool rendering, == matrix) and, per op, the answers of the true and the present-hash oracle."""
    head = ["P " + render(e["d"]) for e in seq["pool"] if hashable(e["d"])]
    hp = [e for e in seq["pool"] if hashable(e["d"])]
    for a in hp:
        head.append("M " + "".join("1" if eq_pool(a, b) else "0" for b in hp))
    true_map = AbstractMap(eq)
    present_map = AbstractMap(eq_present)
    exp_true, exp_present, hits = [], [], []
    for op in seq["ops"]:
        a, h = true_map.step(op)
        b, _ = present_map.step(op)
        exp_true.append(a)
        exp_present.append(b)
        hits.append(h)
    return head, exp_true, exp_present, hits


def eq_pool(a, b):
    """`==` between two (hashable) pool VARIABLES."""
    return eq(a["d"], b["d"])


def uses_both_zero_signs(seq):
    ks = []
    for op in seq["ops"]:
        if "k" in op:
            ks.append(op["k"]["d"])
        for p in op.get("pairs", []):
            ks.append(p[0]["d"])
    return any(zero_sign_differs(a, b) for i, a in enumerate(ks) for b in ks[i + 1:] if eq(a, b))


def nontrivial(hits):
    """A key found an entry whose stored key was written by a different catalogue expression (== but built differently)."""
    for hs in hits:
        for k, e in hs:
            if e[2] is not None and e[2] != k["src"]:
                return True
    return False


def check_printed(seq, head, printed):
    """Returns (header error or None, canonical answers per op)."""
    n = len(head)
    got_head = []
    for l in printed[:n]:
        if l.startswith("P "):
            try:
                got_head.append("P " + conv(l[2:]))
            except ShowError as e:
                got_head.append("P unrenderable: %s" % e)
        else:
            got_head.append(l)
    herr = None
    if got_head != head:
        for i, (g, h) in enumerate(zip(got_head + ["<missing>"] * n, head)):
            if g != h:
                herr = "header line %d: expected %r, got %r" % (i, h, g)
                break
    body = printed[n:]
    answers = [canon_line(op["op"], l) for op, l in zip(seq["ops"], body)]
    if len(body) != len(seq["ops"]):
        answers += ["<no output>"] * (len(seq["ops"]) - len(body))
    return herr, answers


def run_sequences(ctx, seqs, gc_modes, model_ok, failures, broken, stats):
    progs_ = []
    for s in seqs:
        src, _ = program(s)
        progs_.append(src)
    # the model (one process for everything)
    mlines, mspans = [], []
    for s in seqs:
        used = []
        for op in s["ops"]:
            used.extend(x["d"] for x in ([op["k"]] if "k" in op else []) + ([op["v"]] if "v" in op else []))
            for a, b in op.get("pairs", []):
                used.extend([a["d"], b["d"]])
        in_domain = not any(contains_nan_identity(d) for d in used)
        start = len(mlines)
        if in_domain:
            mlines.append("reset")
            mlines.extend(op_model(op) for op in s["ops"])
        mspans.append((start, in_domain))
    model_out = None
    if model_ok:
        try:
            model_out = vlib.run_model("map", mlines)
        except Exception as e:
            broken.append("model driver map: %s" % e)
    for mode in gc_modes:
        sel = [i for i in range(len(seqs)) if mode == "default" or gc_modes[mode](i)]
        lines = [vlib.case_line("m%d" % i, ["S:" + vlib.hx(progs_[i])], gc=mode, steps=STEPS) for i in sel]
        real = vlib.run_real(ctx.runner, lines)
        for i, r in zip(sel, real):
            s = seqs[i]
            ops_txt = [op_text(op) for op in s["ops"]]
            base = {"program": progs_[i], "ops": ops_txt, "gc": mode, "kinds": [op["op"] for op in s["ops"]]}
            st = (r.get("steps") or [None])[0]
            if st is None or "status" not in st:
                failures.append(dict(base, what="the interpreter died running a map program", observed=str(r)[:400],
                                     signature="crash map program", failing_input=True))
                continue
            if st["status"] != "ok":
                failures.append(dict(base, what="map program did not run to completion", observed=json.dumps(st)[:600],
                                     signature="map program failed: %s" % st.get("kind", st["status"]), failing_input=True))
                continue
            head, exp_true, exp_present, hits = expectations(s)
            herr, answers = check_printed(s, head, st.get("printed", []))
            base["expected"] = exp_true
            base["expected_header"] = head
            if herr:
                broken.append("C12 oracle premise fails (pool rendering or == matrix): %s; program:\n%s" % (herr, progs_[i][-1500:]))
                failures.append(dict(base, what="the language's == / show disagrees with the oracle's premise: " + herr,
                                     signature="pool premise", failing_input=False))
                continue
            first = next((j for j in range(len(answers)) if answers[j] != exp_true[j]), None)
            if mode == "default":
                stats["evaluations"] += len(answers) if first is None else first
                stats["sequences"] += 1
                for j, op in enumerate(s["ops"]):
                    if first is not None and j >= first:
                        break
                    k = op["op"]
                    stats["ops"][k] = stats["ops"].get(k, 0) + 1
                    keys = [op["k"]["d"]] if "k" in op else [p[0]["d"] for p in op.get("pairs", [])]
                    if answers[j] == "err ValueError":
                        stats["unhashable"] += 1
                    if any(has_nan(d) for d in keys):
                        stats["nan"] += 1
                    if k in ("keys", "values", "items"):
                        stats["enums"] += 1
                if nontrivial(hits if first is None else hits[:first]):
                    stats["nontrivial"].add(json.dumps(ops_txt))
                stats["collisions"] += count_collisions(s)
            else:
                stats["evaluations_gc_always"] += len(answers) if first is None else first
            if first is not None:
                j = first
                detail = dict(base, op_index=j, op=ops_txt[j], expected_answer=exp_true[j], real_answer=answers[j])
                if answers == exp_present and uses_both_zero_signs(s):
                    failures.append(dict(detail, what="0 == -0 but the two zeros select different entries: %s gave %s, the ==-keyed map gives %s"
                                         % (ops_txt[j], answers[j], exp_true[j]), signature="neg-zero key", failing_input=True))
                    stats["neg_zero_sequences"] += 1 if mode == "default" else 0
                elif answers == exp_present:
                    failures.append(dict(detail, what="== keys with different hashes select different entries: %s gave %s, the ==-keyed map gives %s"
                                         % (ops_txt[j], answers[j], exp_true[j]), signature="equal keys hash differently", failing_input=True))
                else:
                    failures.append(dict(detail, what="HashMap differs from the ==-keyed map at op %d: %s gave %s, expected %s"
                                         % (j, ops_txt[j], answers[j], exp_true[j]),
                                         signature="map vs == oracle: " + s["ops"][j]["op"], failing_input=True))
            # model vs real on the prefix the oracle does not condemn
            start, in_domain = mspans[i]
            if model_out is not None and in_domain:
                upto = len(answers) if first is None else first
                if model_out[start] != "ok":
                    broken.append("model driver map answered %r to reset" % model_out[start])
                for j in range(upto):
                    ma = model_out[start + 1 + j]
                    if ma != answers[j]:
                        failures.append(dict(base, what="model and implementation disagree at op %d (%s)" % (j, ops_txt[j]),
                                             request=mlines[start + 1 + j], model=ma, real=answers[j], oracle=exp_true[j],
                                             requests=mlines[start:start + 2 + j], op_index=j,
                                             signature="model-vs-real map", failing_input=False))
                        break
                if mode == "default":
                    stats["model_compared"] += upto
            elif mode == "default" and not in_domain:
                stats["outside_model_domain"] += 1
    return progs_


def count_collisions(seq):
    ds = [e["d"] for e in seq["pool"] if hashable(e["d"])]
    n = 0
    for i, a in enumerate(ds):
        for b in ds[i + 1:]:
            if not eq(a, b) and not has_nan(a) and not has_nan(b) and present_hash(a) == present_hash(b):
                n += 1
    return n


def check_hash_transcription(model_ok, broken, failures):
    """The engineered collisions really collide, and the Python transcription of the present hash is the model's."""
    descs = []
    for fam in FAMILIES.values():
        for m in fam:
            if hashable(m["desc"]):
                descs.append(m["desc"])
    for a, b in EXPECTED_COLLISIONS:
        descs.extend([a, b])
    for a, b in EXPECTED_COLLISIONS:
        if present_hash(a) != present_hash(b) or eq(a, b):
            broken.append("engineered collision does not hold in the Python transcription: %s / %s" % (render(a), render(b)))
    if not model_ok:
        return 0
    try:
        ans = vlib.run_model("map", ["hash " + render(d) for d in descs] + ["hashfixed " + render(d) for d in descs])
    except Exception as e:
        broken.append("model driver map (hash): %s" % e)
        return 0
    n = len(descs)
    for d, a, f in zip(descs, ans[:n], ans[n:]):
        if a != "%016x" % present_hash(d):
            broken.append("Python transcription of impl Hash for Value differs from the model's: %s python=%016x model=%s"
                          % (render(d), present_hash(d), a))
            break
    # coherence of the repaired hash on the catalogue (an instance of coherent_fixed), incoherence of the present one at -0 only
    fixed = dict(zip([render(d) for d in descs], ans[n:]))
    pres = dict(zip([render(d) for d in descs], ans[:n]))
    for i, a in enumerate(descs):
        for b in descs[i + 1:]:
            if eq(a, b):
                if fixed[render(a)] != fixed[render(b)]:
                    failures.append({"what": "model: == keys with different repaired hashes", "a": render(a), "b": render(b),
                                     "signature": "model hashfixed incoherent", "failing_input": False})
                if pres[render(a)] != pres[render(b)] and not zero_sign_differs(a, b):
                    failures.append({"what": "model: == keys with different PRESENT hashes that are not a zero-sign pair",
                                     "a": render(a), "b": render(b), "signature": "model present hash incoherent beyond neg-zero",
                                     "failing_input": False})
    return n


def deep_key_lines():
    out = ["fn nest(levels) { var t = (7,); var i = 1; while i < levels { t = (t,); i = i + 1; } return t; }", "var dm = {};"]
    exp = []
    n = 0
    for lv in (1, 2, 3, 8, 31, 32, 33, 63, 64, 65, 66, 100, 127, 128, 129, 200, 255, 256, 257, 400):
        n += 1
        out.append("dm.insert(nest(%d), %d); print(dm.len()); print(dm.get(nest(%d))); print(dm.has_key(nest(%d))); print(dm.has_key(nest(%d)));" % (lv, lv, lv, lv, lv + 1 if lv != 400 else 399))
        exp += [str(n), str(lv), "true", "false"]
    out.append("var lit = {nest(70): \"lit\", nest(3): \"three\"}; print(lit.get(nest(70))); print(lit.len()); print(dm.remove(nest(65))); print(dm.len()); print(dm.has_key(nest(65)));")
    exp += ["lit", "2", "65", str(n - 1), "false"]
    return "\n".join(out) + "\n", exp


def fresh_enumeration_lines():
    """What keys() / values() / items() hand out belongs to the caller: whatever the program does to one enumeration (pop, push, element
    assignment, emptying it) changes neither the map nor any other enumeration, earlier or later."""
    out = ["fn total(v) { var t = 0; for x in v { t = t + x; } return t; }",
           "fn totalp(v) { var t = 0; for p in v { t = t + p[0] * 100 + p[1]; } return t; }",
           "var fm = {1: 10, 2: 20, 3: 30};"]
    exp = []
    for meth, tot, full in (("keys", "total", "6"), ("values", "total", "60"), ("items", "totalp", "660")):
        extra = "(9, 9)" if meth == "items" else "9"
        out.append("{ var a = fm.%s(); var b = fm.%s(); while a.len() > 0 { a.pop(); } print(b.len()); print(%s(fm.%s())); print(fm.len()); }" % (meth, meth, tot, meth))
        exp += ["3", full, "3"]
        out.append("{ var a = fm.%s(); a.push(%s); a.push(%s); print(fm.%s().len()); print(%s(fm.%s())); print(fm.has_key(9)); }" % (meth, extra, extra, meth, tot, meth))
        exp += ["3", full, "false"]
        out.append("{ var a = fm.%s(); a[0] = %s; a[1] = %s; a[2] = %s; print(%s(fm.%s())); var c = fm.%s(); print(%s(c)); c.pop(); print(%s(fm.%s())); }" % (meth, extra, extra, extra, tot, meth, meth, tot, tot, meth))
        exp += [full, full, full]
        out.append("{ var a = fm.%s(); fm.insert(4, 40); print(a.len()); print(fm.%s().len()); fm.remove(4); print(a.len()); print(%s(fm.%s())); }" % (meth, meth, tot, meth))
        exp += ["3", "4", "3", full]
    return "\n".join(out) + "\n", exp


def long_unhashable_lines():
    """An unhashable key is refused EVERY time it is offered, whatever its size (its printed form from a few to thousands of characters:
    error messages quote the key), by every operation that takes a key, and the map is unchanged; hashable keys of the same sizes work."""
    out = ["fn wide(n) { var v = []; var i = 0; while i < n { v.push(i); i = i + 1; } return v; }",
           "fn longs(n) { var t = \"\"; var i = 0; while i < n { t = t + \"x\"; i = i + 1; } return t; }",
           "fn attempt(f) { try { f(); print(\"accepted\"); } catch e { print(type(e)); } }",
           "fn lit(k) { return {k: 1}; }",
           "var um = {\"k\": 1};"]
    exp = []
    for n in (0, 1, 5, 20, 70, 300, 2000):
        out.append("{ var bad = (1, wide(%d)); var bad2 = ((wide(%d), 2), longs(%d)); var good = (1, longs(%d), (2, longs(%d)));" % (n, n, n, n, n))
        for rep in range(3):
            for key in ("bad", "bad2"):
                out.append("  attempt(|| um.insert(%s, 1)); attempt(|| um.get(%s)); attempt(|| um.has_key(%s)); attempt(|| um.remove(%s)); attempt(|| lit(%s));" % (key, key, key, key, key))
                exp += ["<class ValueError>"] * 5
            out.append("  um.insert(good, %d); print(um.get(good)); print(um.has_key((1, longs(%d), (2, longs(%d))))); print(um.len()); print(um.remove(good)); print(um.len());" % (rep, n, n))
            exp += [str(rep), "true", "2", str(rep), "1"]
        out.append("}")
    return "\n".join(out) + "\n", exp


DIRECTED12 = [
    # the entry holds the value inserted LAST, also when it is == to the one it replaces: two distinct vectors / maps / tuples holding one
    ("overwrite-with-an-equal-but-distinct-value",
     "var m = {}; var first = []; var second = []; m.insert(\"k\", first); m.insert(\"k\", second); second.push(1); print(m.get(\"k\")); print(m.values()[0]); first.push(2); first.push(3); print(m.get(\"k\"));\n"
     "var ma = {}; var mb = {}; m.insert(7, ma); m.insert(7, mb); mb.insert(\"x\", 1); print(m.get(7).len()); var ta = (1, []); var tb = (1, []); m.insert(8, ta); m.insert(8, tb); tb[1].push(9); print(m.get(8));\n"
     "var lit = {\"k\": first, \"k\": second}; print(lit.get(\"k\")); print(m.insert(\"k\", first) == second); print(m.get(\"k\"));\n"
     "m.insert(\"zero\", 0); m.insert(\"zero\", -0); print(m.get(\"zero\")); m.insert(\"zero\", 0); print(m.get(\"zero\")); print(m.len());\n",
     ["[1]", "[1]", "[1]", "1", "(1, [9])", "[1]", "true", "[2, 3]", "-0", "0", "4"]),
    ("tuple-keys-of-any-depth",) + deep_key_lines(),
    ("enumerations-belong-to-the-caller",) + fresh_enumeration_lines(),
    ("unhashable-keys-of-any-size-refused-every-time",) + long_unhashable_lines(),
]


def correspondence(ctx, model_ok=True):
    rng = ctx.rng.fork("c12")
    failures = []
    broken = []
    for mode in ({"gc": "default"}, {"gc": "always", "quarantine": 1}):
        dres, _ = progs.run_programs(ctx.runner, [(n, src, {}) for n, src, _ in DIRECTED12], mode, steps_budget=50000000, tag="d")
        for (name, src, exp), r in zip(DIRECTED12, dres):
            c = progs.canon_step(r)
            if c[0] != "ok" or list(c[2]) != exp:
                k = next((i for i, (x, y) in enumerate(zip(list(c[2]) if len(c) > 2 else [], exp)) if x != y), min(len(c[2]) if len(c) > 2 else 0, len(exp)))
                failures.append({"what": "map scenario '%s': line %d is %s, the abstract map gives %s (%s %s)" % (name, k, list(c[2])[k:k + 1] if len(c) > 2 else c, exp[k:k + 1], c[0], list(c[3])[:1] if len(c) > 3 else ""),
                                 "program": src, "expected": exp, "signature": "scenario " + name, "failing_input": True})
    n_seq = 9000 if ctx.thorough else 2700
    seqs = [gen_sequence(rng.fork("seq%d" % i), i, AVOID_NEG_ZERO) for i in range(n_seq)]
    stats = {"evaluations": 0, "evaluations_gc_always": 0, "sequences": 0, "ops": {}, "unhashable": 0, "nan": 0, "enums": 0,
             "nontrivial": set(), "collisions": 0, "neg_zero_sequences": 0, "model_compared": 0, "outside_model_domain": 0}
    hashed = check_hash_transcription(model_ok, broken, failures)
    # gc=always (a collection at every allocation) for every 2nd sequence in the quick tier, for all in the thorough tier
    modes = {"default": None, "always": (lambda i: True) if ctx.thorough else (lambda i: i % 2 == 0)}
    progs_ = run_sequences(ctx, seqs, modes, model_ok, failures, broken, stats)
    if stats["unhashable"] == 0:
        broken.append("no unhashable-key rejection was exercised")
    if stats["nan"] == 0:
        broken.append("no NaN-key operation was exercised")
    # one failure per signature and op kind is enough for the report; keep the shortest programs first
    failures.sort(key=lambda f: (f.get("signature", ""), len(f.get("program", ""))))
    cov = {
        "evaluations": stats["evaluations"],
        "distinct_nontrivial": len(stats["nontrivial"]),
        "rule": "operation sequences (<= 40 ops + final items/len) over a pool drawn from families of keys that are == but "
                "written differently (1, 1.0, 0.5+0.5; 0, -0; \"ab\", \"a\"+\"b\"; (1,2), (1.0,2.0); nested tuples; tuples rebuilt "
                "at each use), unequal keys with equal hashes (false/+0.0/()/2..2; (1,2)/(2,1)/1..2; classes of one name; "
                "numbers inverted from hash_number to collide with nil, \"K\", \"a\", 1.0, 2.0, (1,2)), NaN, distinct range "
                "objects with equal bounds, unhashable values; evaluations = operations whose answer was compared with the "
                "==-keyed abstract map (up to the first divergence of a sequence); non-trivial = distinct sequence in which "
                "at least one operation's key found an entry whose stored key was written by a different expression "
                "(== but differently built, same entry)",
        "samples": [json.loads(s) for s in sorted(stats["nontrivial"], key=len)[:2]] + [progs_[0][len(PRELUDE):][:1500]],
        "sequences": stats["sequences"],
        "ops_per_kind": stats["ops"],
        "unhashable_rejections_seen": stats["unhashable"],
        "nan_key_ops": stats["nan"],
        "enumerations_compared": stats["enums"],
        "ops_compared_with_model": stats["model_compared"],
        "sequences_outside_model_domain_(nan_tuple_identity)": stats["outside_model_domain"],
        "ops_compared_under_gc_always": stats["evaluations_gc_always"],
        "unequal_pool_pairs_with_equal_hash": stats["collisions"],
        "catalogue_keys_hash_checked_against_model": hashed,
        "sequences_diverging_on_neg_zero": stats["neg_zero_sequences"],
        "avoid_neg_zero": AVOID_NEG_ZERO,
        "traces_validated_against_impl": stats["sequences"],
    }
    return {"failures": failures, "coverage": cov, "broken": broken}


def search(ctx, broken):
    """Targeted search when an obligation broke: more sequences, no -0 (the known defect), oracle only."""
    rng = ctx.rng.fork("c12-search")
    seqs = [gen_sequence(rng.fork("s%d" % i), i, True) for i in range(400)]
    failures, br = [], []
    stats = {"evaluations": 0, "evaluations_gc_always": 0, "sequences": 0, "ops": {}, "unhashable": 0, "nan": 0, "enums": 0,
             "nontrivial": set(), "collisions": 0, "neg_zero_sequences": 0, "model_compared": 0, "outside_model_domain": 0}
    run_sequences(ctx, seqs, {"default": None}, False, failures, br, stats)
    return [f for f in failures if f.get("failing_input")][:3]


def replay(ctx, payload):
    if "program" not in payload:
        return False, "nothing to replay: " + json.dumps(payload)[:400]
    line = vlib.case_line("replay", ["S:" + vlib.hx(payload["program"])], gc=payload.get("gc", "default"), steps=STEPS)
    r = vlib.run_real(ctx.runner, [line])[0]
    st = (r.get("steps") or [None])[0]
    if st is None or st.get("status") != "ok":
        return False, "program did not run to completion: " + json.dumps(r)[:1500]
    printed = st.get("printed", [])
    if "expected" not in payload or "kinds" not in payload:
        return True, "\n".join(printed)[:2000]
    head = payload.get("expected_header", [])
    kinds = payload["kinds"]
    body = printed[len(head):]
    answers = [canon_line(k, l) for k, l in zip(kinds, body)] + ["<no output>"] * (len(kinds) - len(body))
    for j, (a, e) in enumerate(zip(answers, payload["expected"])):
        if a != e:
            return False, "op %d %s: the map answered %s, the ==-keyed abstract map answers %s" % (j, payload.get("ops", kinds)[j], a, e)
    return True, "replayed %d operations: all answers are those of the ==-keyed abstract map" % len(kinds)
