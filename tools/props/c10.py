"""C10 — optimised and checked builds behave identically.

Theorems: Yarel.Props.StackGuardThm (guard_free_equiv: the unchecked value stack equals the checked one on every
operation sequence in which no guard fires; each guard matters), Yarel.Props.C09 (active_fiber_dual: the borrow-checked and
the raw designation of the active fiber always agree), Yarel.Props.C10 (cfg_sites_accounted: every cfg!/#[cfg] site and every
write of the active-fiber designators regenerated from the source is paired with a modelled operation).
Correspondence: the harness is built in {dev, release} x feature switches; every program of every profile and every repository
script must produce the same canonical trace in all builds; the two fiber designators must agree at every switch.
"""
import json
import os

import vlib
import progs

THEOREM_MODULES = ["Yarel.Props.StackGuardThm"]
REQUIRED_THEOREMS = ["guard_free_equiv"]
for _m, _t in (("C09", ["active_fiber_dual"]), ("C10", ["cfg_sites_accounted"])):
    if os.path.exists(os.path.join(vlib.LEAN_DIR, "Yarel", "Props", _m + ".lean")):
        THEOREM_MODULES.append("Yarel.Props." + _m)
        REQUIRED_THEOREMS += _t
USES_GEN = os.path.exists(os.path.join(vlib.LEAN_DIR, "Yarel", "Props", "C10.lean"))
LEVEL = "proof"
ASSUMPTIONS = [
    "the models cover the logic of the guards (stack.rs) and of the two active-fiber designators (vm.rs); what rustc does with "
    "unreachable_unchecked and unchecked pointer arithmetic is outside any model and covered only by the cross-build runs",
    "schedule irrelevance of the collector (collect-always vs paced) is C01's theorem and runs",
]
FEATURES = ["safe_stack", "safe_active_fiber", "safe_class_lookup", "safe_vm_opcodes", "debug_stress_gc"]
PROFILES = ["expr", "control", "closures", "classes", "exceptions", "fibers", "iteration", "data", "alloc", "typed", "typed-try"]


# load_fiber / unload_fiber translated from vm.rs on every run: rejections leave the state untouched, hand-over values, the caller link, both
# designators of the running fiber, and every third fiber untouched, proved of the translated bodies (Props/FnsTie/FiberSwitch)
# the value stack translated from stack.rs on every run (Props/FnsTie/StackTie): ONE translated body per method, the `cfg!` test a Boolean
# input; with the test true it is the checked model, with the test false the unchecked one - `guard_free_equiv` is about the code as read
THEOREM_MODULES.append("Yarel.Props.FnsTie.StackTie")
REQUIRED_THEOREMS += ['stack_peek_form', 'stack_push_form', 'stack_pop_form', 'stack_truncate_form', 'stack_peek_checked', 'stack_peek_unchecked',
                      'stack_push_checked', 'stack_push_unchecked', 'stack_pop_checked', 'stack_pop_unchecked', 'stack_truncate_checked',
                      'stack_truncate_unchecked', 'stack_clear_tie', 'stack_peek_mut_is_peek']
THEOREM_MODULES.append("Yarel.Props.FnsTie.FiberSwitch")
REQUIRED_THEOREMS += ['load_effect', 'load_designators_agree', 'unload_effect', 'unload_designators_agree']


def stack_fill_program(per_level, innermost, depth=62):
    """Fills the value stack of the main fiber almost to its end: `depth`+1 nested calls, each holding `per_level` pending operands
    (`1 + (1 + ( … f(n - 1))))`), the innermost `innermost` ones.  With 262 / 11 the 16384 slots are used exactly (the last free slot is
    written); every build must run it the same way."""
    def nest(k, core):
        return "1 + (" * k + core + ")" * k
    return "fn f(n) {\n  if n == 0 {\n    return %s;\n  }\n  return %s;\n}\nprint(f(%d));\nprint(\"done\");\n" % (
        nest(innermost, "0"), nest(per_level, "f(n - 1)"), depth)


def shallow_call_programs():
    """Every method name of the built-in classes called on a receiver of every kind with 0..3 arguments as a BARE STATEMENT OF MODULE-LEVEL
    CODE: below the receiver the value stack holds the script's own slot and nothing else, so a built-in that looks at an operand slot it
    was not given (before checking how many it got) reaches below the stack - the checked stack refuses, the unchecked one reads on."""
    from props import c02 as _c02
    recv = [("str", '"ab\u00e9"'), ("vec", "[1, 2]"), ("tuple", "(1, 2)"), ("map", "{1: 2}"), ("range", "(0..3)"), ("num", "1.5"), ("bool", "true"), ("nil", "nil"),
            ("class", "Box"), ("instance", "Box.new()"), ("fn", "|a| a"), ("fiber", "Fiber.new(|| 1)"), ("iter", "[1, 2].iter()"), ("bound", "[1].len"),
            ("String", "String"), ("Fiber", "Fiber"), ("error", "Error.new(1)")]
    out = []
    for rn, rexpr in recv:
        lines = ["#[constructor(new)] class Box { }", "var g = %s;" % rexpr]
        for m in _c02.METHODS:
            for argc in range(4):
                args = ", ".join(["0", "\"a\"", "g"][:argc])
                lines.append("try { g.%s(%s); print(\"ok\"); } catch e { print(type(e)); }" % (m, args))
        lines.append("print(\"done\");")
        out.append(("shallow:%s" % rn, "\n".join(lines) + "\n", {}))
    return out


def configs(thorough):
    cfgs = [("dev", ()), ("release", ()), ("release", tuple(FEATURES))]
    if thorough:
        cfgs += [("release", (f,)) for f in FEATURES] + [("dev", tuple(FEATURES))]
    return cfgs


def correspondence(ctx, model_ok=True):
    rng = ctx.rng.fork("c10")
    failures = []
    broken = []
    n_gen = 2400 if ctx.thorough else 360
    gen = progs.generated(rng, PROFILES, n_gen)
    scripts = progs.corpus_scripts()
    # plus every constructed-oracle scenario of the other checks and the collector probes: the programs in which stack discipline,
    # fiber switching and the moment of collection matter most
    import probes_gc
    from props import c06, c07, c08, c09, c18
    extra = [("c06:%d" % i, "\n".join(b) + "\n", {}) for i, (b, _) in enumerate(c06.BODIES)]
    extra += [("c07:" + n, s_, {}) for n, s_, _ in c07.SCENARIOS] + [("c08:" + n, s_, {}) for n, s_, _, _ in c08.SCENARIOS]
    extra += [("c09:" + n, s_, {}) for n, s_, _, _ in c09.SCENARIOS] + [("c18:" + n, s_, {}) for n, s_, _ in c18.SCENARIOS]
    extra += probes_gc.all_probes()
    extra += [("stackfill:262:%d" % k, stack_fill_program(262, k), {}) for k in (9, 10, 11)]
    extra += shallow_call_programs()
    asrc, amods = c08.aftermath_program()
    extra += [("c08:aftermath", asrc, amods)]
    extra += [("c08:aftermath:%d" % k, "%s try { %s } catch e { print(type(e)); } %s\n" % t, amods) for k, t in enumerate(c08.AFTERMATH)]
    allp = progs.corpus_dir("C10") + extra + [(n, s, m) for n, s, m, _ in gen] + scripts
    results = {}
    for profile, feats in configs(ctx.thorough):
        try:
            exe = ctx.build_runner(profile, feats)
        except Exception as e:
            broken.append("harness build failed for %s %s: %s" % (profile, ",".join(feats), str(e)[-300:]))
            continue
        res, _ = progs.run_programs(exe, allp, {"gc": "default", "events": 1}, steps_budget=3000000, tag="x")
        results[(profile, feats)] = res
    keys = list(results)
    differing = 0
    nontrivial = set()
    disagree_ptr = 0
    if keys:
        ref = keys[0]
        for i, (name, src, mods) in enumerate(allp):
            base = progs.canon_step(results[ref][i])
            if base[0] in ("ok", "err"):
                nontrivial.add(src)
            for k in keys:
                r = results[k][i]
                if isinstance(r, dict):
                    if any("agree=0" in e for e in r.get("events", [])) or (r.get("residue") and r["residue"][5] is False):
                        disagree_ptr += 1
                        failures.append({"what": "the borrow-checked and the raw designation of the active fiber differ", "program": src,
                                         "build": "%s %s" % (k[0], ",".join(k[1])), "modules": {a: b for a, b in mods.items() if a in src},
                                         "signature": "fiber designators disagree", "failing_input": True})
                c = progs.canon_step(r)
                if c != base:
                    differing += 1
                    failures.append({"what": "two build configurations behave differently on one program", "program": src, "name": name,
                                     "build_a": "%s %s" % (ref[0], ",".join(ref[1])), "trace_a": base,
                                     "build_b": "%s %s" % (k[0], ",".join(k[1])), "trace_b": c,
                                     "modules": {a: b for a, b in mods.items() if a in src},
                                     "signature": "builds differ: " + (c[0] if c[0] != base[0] else "output"), "failing_input": True})
    # the boundary inputs of the built-in operations (every index/slice/string-function request of C13: all small strings x every
    # integer around the length, the special numbers, malformed byte sequences, surrogate and out-of-range code points, escapes):
    # where an unchecked operation replaces a checked one, the builds part ways exactly on such inputs
    from props import c13
    reqs = c13.gen_requests(rng.fork("c13"), False)
    nstmts = [r["stmt"] for r in reqs] + [s_ for s_, _ in c13.EXTRAS] + [s_ for s_, _ in c13.fresh_result_cases()] + [s_ for s_, _ in c13.escape_cases()]
    if not ctx.thorough:
        nstmts = nstmts[::2] + [r["stmt"] for r in reqs if r["op"] == "sfn"]
    nres = {}
    for profile, feats in configs(ctx.thorough):
        try:
            exe = ctx.build_runner(profile, feats)
            nres[(profile, feats)] = [progs.canon_step(st) for st in c13.run_statements(exe, nstmts)]
        except Exception as e:
            broken.append("native-boundary statements in %s %s: %s" % (profile, ",".join(feats), str(e)[-300:]))
    nkeys = list(nres)
    for i, st in enumerate(nstmts):
        outs = [nres[k][i] for k in nkeys]
        for k, o in zip(nkeys[1:], outs[1:]):
            if o != outs[0]:
                differing += 1
                failures.append({"what": "two build configurations answer one built-in operation differently", "program": c13.program_of(st), "statement": st,
                                 "build_a": "%s %s" % (nkeys[0][0], ",".join(nkeys[0][1])), "trace_a": outs[0],
                                 "build_b": "%s %s" % (k[0], ",".join(k[1])), "trace_b": o, "modules": {},
                                 "signature": "builds differ on a built-in: " + st.split("(")[1].split(")")[0][:30] if "(" in st else "builds differ on a built-in", "failing_input": True})
                break
    cov = {
        "native_boundary_statements": len(nstmts),
        "evaluations": len(allp) * len(keys) + len(nstmts) * len(nkeys),
        "distinct_nontrivial": len(nontrivial),
        "rule": "every program (generated profiles %s + repository scripts) run in build configurations %s; non-trivial = distinct "
                "program that compiled and ran; traces (printed lines, outcome, error kind and messages) must be identical" % (
                    ",".join(PROFILES), "; ".join("%s[%s]" % (p, ",".join(f)) for p, f in keys)),
        "samples": [gen[0][1][:400]],
        "programs": len(allp),
        "configurations": len(keys),
        "differing_runs": differing,
        "traces_validated_against_impl": len(allp) * len(keys),
    }
    return {"failures": dedupe(failures), "coverage": cov, "broken": broken}


def dedupe(failures):
    out = {}
    for f in failures:
        key = (f["signature"], f.get("program"))
        out.setdefault(key, f)
    return list(out.values())[:50]


def replay(ctx, payload):
    if "program" not in payload:
        return False, "nothing to replay"
    p = [("replay", payload["program"], payload.get("modules", {}))]
    outs = []
    for profile, feats in configs(False):
        exe = ctx.build_runner(profile, feats)
        r, _ = progs.run_programs(exe, p, {"gc": "default"})
        outs.append(progs.canon_step(r[0]))
    return all(o == outs[0] for o in outs), "\n".join(str(o) for o in outs)
