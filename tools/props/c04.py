"""C04 — accepted programs compile to code the interpreter can run blindly.

Theorems: Yarel.Props.C04 (verify_sound / checkAnnot_sound: if the Lean bytecode verifier accepts a function then on EVERY
execution of the frame machine the pc is an instruction boundary inside the code, the operand-stack height and handler stack
at each instruction are the statically assigned ones, and every local/constant/upvalue access is in range; verify_progress;
jump-limit lemmas).  Obl(G): the verifier's opcode table equals the opcode table regenerated from chunk.rs.
Correspondence = translation validation: every function the real compiler produces for every program (generated profiles,
repository scripts, limit programs) is sent through the verifier; for every executed instruction of real runs the observed
frame-relative height and handler depth must equal the verifier's annotation (ties the model's opcode effects to vm.rs).
"""
import json
import os

import vlib
import progs
from gen import stmts

THEOREM_MODULES = ["Yarel.Props.C04", "Yarel.Props.OpcodeTable", "Yarel.Props.ModelLimits"]
REQUIRED_THEOREMS = ["verify_sound", "checkAnnot_sound", "verify_unique_height", "verify_progress", "opcode_table_agrees"]
# the state the models abstract is all the state there is: the fields of the run-time structures, regenerated on every run, are the ones
# the models were written against (Props/StateInventory)
THEOREM_MODULES.append("Yarel.Props.StateInventory.state_of_compiler")
REQUIRED_THEOREMS += ['state_of_compiler']
USES_GEN = True
LEVEL = "proof"
ASSUMPTIONS = [
    "frame machine Yarel/Model/FrameMachine.lean abstracts vm.rs per frame (calls atomic, values nondeterministic); tie = per-instruction "
    "height/handler-depth comparison on real runs",
    "callees are assumed to return with the handler stack and pending-return state as they found them (established for verified callees)",
    "the exception-in-flight flag is not modelled: EndFinally nondeterministically re-raises, returns or falls through",
]
PROFILES = ["control", "closures", "classes", "exceptions", "fibers", "iteration", "expr", "data"]
OPNAMES = None


# ties between the function bodies translated from the Rust source on every run (Gen/Fns.lean) and the hand-written models
THEOREM_MODULES.append("Yarel.Props.FnsTie.VmSteps")
REQUIRED_THEOREMS += ["vm_get_local_effect", "vm_get_local_panics", "vm_set_local_effect", "vm_jump_effect", "vm_jump_if_false_effect", "vm_loop_effect",
                      "vm_equal_effect", "vm_binary_op_numbers", "vm_binary_op_type_error", "jump_roundtrip", "loop_roundtrip",
                      "inline_arms_match_the_bytecode_table", "vm_arm_constant_effect", "vm_arm_constant_panics", "vm_arm_pop_effect", "vm_arm_pop_empty",
                      "vm_arm_copy_top_effect", "vm_arm_nil_effect"]
THEOREM_MODULES.append("Yarel.Props.FnsTie.ScopeEnd")
REQUIRED_THEOREMS += ["emit_scope_end_spec", "captured_slots_are_closed"]
THEOREM_MODULES.append("Yarel.Props.FnsTie.Compiler")
REQUIRED_THEOREMS += ['patch_jump_tie', 'emit_loop_tie', 'patch_offset_at_tie']


# call_closure / return_impl translated from vm.rs on every run (Props/FnsTie/CallReturn): wrong arity and exhausted call depth are handed to the
# exception machinery and push no frame; a call saves the resume point and pushes a frame at the callee; Return cuts the stack to the frame's base,
# puts the result there and resumes the caller ("calls are atomic"); the last Return of a called fiber hands the result to the caller
THEOREM_MODULES.append("Yarel.Props.FnsTie.CallReturn")
REQUIRED_THEOREMS += ['call_effect', 'return_to_caller', 'call_return_roundtrip']

# what the try / return / throw statement compilers emit, proved of their bodies as translated on every run (Props/FnsTie/Statements)
THEOREM_MODULES.append("Yarel.Props.FnsTie.Statements")
REQUIRED_THEOREMS += ["emit_return_skeleton", "return_statement_skeleton", "try_statement_skeleton", "break_statement_skeleton",
                      "break_discards_before_jumping", "continue_statement_skeleton", "while_statement_skeleton", "if_statement_skeleton",
                      "condition_value_popped_on_both_sides", "for_statement_skeleton", "and_skeleton", "or_skeleton"]


def opnames():
    global OPNAMES
    if OPNAMES is None:
        p = os.path.join(vlib.LEAN_DIR, "Yarel", "Gen", "facts.json")
        OPNAMES = {}
        if os.path.exists(p):
            for o in json.load(open(p)).get("opcodes", {}).get("opcodes", []):
                OPNAMES[o.get("value", o.get("byte"))] = o["name"]
    return OPNAMES


def const_field(c, fns):
    k = c[0]
    if k == "f":
        f = fns[c[1]]
        return "f:%d:%d" % (f["arity"], f["upvalues"])
    return {"s": "s", "n": "n", "b": "b", "nil": "nil"}.get(k, "o")


def fn_line(fn, fns):
    cs = [const_field(c, fns) for c in fn["constants"]]
    return "fn %d %d %s %d %s" % (fn["arity"], fn["upvalues"], fn["code"] or "-", len(cs), " ".join(cs))


def limit_programs():
    """Programs sized to sit on the encoding limits (each must compile+verify or be rejected with a compile error)."""
    out = []
    def body(n):  # n bytes of straight-line code: `x = 1;` inside a block compiles to a fixed size; calibrated below
        return "x = 1;\n" * n
    # byte-exact sweep across the 16-bit offset limit: `x = 1;` is 7 bytes, `nil;` is 2 bytes, so 7a+2b reaches every distance
    for a7 in (9358, 9359, 9360, 9361, 9362):
        for b2 in range(0, 7):
            pad = body(a7) + "nil;\n" * b2
            tag = "%d+%d" % (a7, b2)
            out.append(("limit:jump:" + tag, "var x = 0;\nif x == 1 {\nprint(\"inside\");\n%s}\nprint(\"done\");\n" % pad, {}))
            out.append(("limit:loop:" + tag, "var x = 0;\nvar n = 0;\nwhile n < 2 {\nn = n + 1;\n%s}\nprint(n);\nprint(\"done\");\n" % pad, {}))
            out.append(("limit:try:" + tag, "var x = 0;\ntry {\n%sthrow \"t\";\n} catch e { print(\"caught\"); }\nprint(\"done\");\n" % pad, {}))
    for n in (254, 255, 256, 257):
        args = ", ".join("1" for _ in range(n))
        out.append(("limit:args:%d" % n, "fn f() { return 0; }\ntry { f(%s); } catch e { print(e.context); }\nprint(\"done\");\n" % args, {}))
        out.append(("limit:vec:%d" % n, "var v = [%s];\nprint(v.len());\n" % args, {}))
        out.append(("limit:tuple:%d" % n, "var v = (%s,);\nprint(v.len());\n" % args, {}))
        out.append(("limit:map:%d" % n, "var v = {%s};\nprint(v.len());\n" % ", ".join("%d: 1" % i for i in range(n)), {}))
        out.append(("limit:params:%d" % n, "fn f(%s) { return 0; }\nprint(\"done\");\n" % ", ".join("p%d" % i for i in range(n)), {}))
        out.append(("limit:locals:%d" % n, "{\n%s\nprint(\"done\");\n}\n" % "\n".join("var l%d = %d;" % (i, i) for i in range(n)), {}))
        # the hidden locals of `for` (loop variable + iterator) and of a class with a superclass (`super`) count against the limit too
        for m in (n - 3, n - 2, n - 1):
            decls = "\n".join("var l%d = %d;" % (i, i) for i in range(m))
            out.append(("limit:localsfor:%d:%d" % (m, m - 1), "fn f() {\n%s\nvar s = 0;\nfor x in [1, 2] { s = s + x; }\nvar z = 5;\nprint(s);\nprint(z);\nprint(l%d);\n}\nf();\n" % (decls, m - 1), {}))
            out.append(("limit:localsclass:%d:%d" % (m, m - 1), "class Base { fn hi(self) { return \"hi\"; } }\nfn f() {\n%s\n#[derive(Base), constructor(new)]\nclass Sub { fn hi(self) { return super.hi() + \"!\"; } }\n"
                        "var z = 5;\nprint(Sub.new().hi());\nprint(z);\nprint(l%d);\n}\nf();\n" % (decls, m - 1), {}))
        out.append(("limit:upvalues:%d" % n, "fn outer() {\n%s\nfn inner() { return %s; }\nreturn inner();\n}\nprint(\"done\");\n" % (
            "\n".join("var l%d = %d;" % (i, i) for i in range(min(n, 250))), " + ".join("l%d" % i for i in range(min(n, 250)))), {}))
        # n captured variables in ONE function: 200 come from two levels up, the rest from the enclosing function; the last one is
        # written through the closure and read back outside, the first one must not be disturbed
        k = n - 200
        out.append(("limit:upvalues2:%d:%d" % (n, sum(range(200)) + sum(1000 + i for i in range(k))),
                    "fn outer() {\n%s\nfn mid() {\n%s\nfn inner() { b%d = b%d + 0; return %s; }\nvar r = inner();\nb%d = \"written\";\nreturn [r, a0, b%d];\n}\nreturn mid();\n}\n"
                    "var res = outer();\nprint(res[0]);\nprint(res[1]);\nprint(res[2]);\n" % (
                        "\n".join("var a%d = %d;" % (i, i) for i in range(200)), "\n".join("var b%d = %d;" % (i, 1000 + i) for i in range(k)),
                        k - 1, k - 1, " + ".join(["a%d" % i for i in range(200)] + ["b%d" % i for i in range(k)]), k - 1, k - 1), {}))
        out.append(("limit:interp:%d" % n, "var a = 1;\nprint(\"%s\".len());\n" % "".join("${a}" for _ in range(n)), {}))
        # exactly n parts in three more shapes: literal/interpolation alternating, ending in a literal or in an interpolation, starting with either
        for shape in ("li", "il", "lil"):
            parts = []
            k = 0
            while len(parts) < n:
                want_lit = (shape[0] == "l") == (k % 2 == 0)
                parts.append("x" if want_lit else "${a}")
                k += 1
            if shape == "lil" and parts[-1] != "x":
                parts[-1] = "x" if parts[-2] != "x" else "${a}"
            text = "".join(parts)
            value = text.replace("${a}", "1")
            out.append(("limit:interpshape:%s:%d:%s" % (shape, n, value), "var a = 1;\nvar i = 0;\nvar s = \"\";\nwhile i < 70 { s = \"%s\"; i = i + 1; }\nprint(s);\n" % text, {}))
    for n in (65534, 65535, 65536, 65537):
        # constants: distinct number literals in one function
        out.append(("limit:constants:%d" % n, "var s = 0;\n" + "".join("s = %d.5;\n" % i for i in range(n - 3)) + "print(\"done\");\n", {}))
    for n in range(65532, 65541):
        # n distinct literals inside ONE function (locals only, so nothing else enters its constant table): either rejected, or the first
        # and the last literal still denote themselves
        out.append(("limit:constvalues:%d:%d" % (n, n - 1), "fn f() {\nvar first = 0.25;\nvar s = 0;\n" + "".join("s = %d.5;\n" % i for i in range(n - 1)) +
                    "return [first, s];\n}\nvar r = f();\nprint(r[0]);\nprint(r[1]);\n", {}))
    # the LAST byte of a function body takes every value 0..255 (the element count of a vector literal in the final statement is an
    # operand byte, e.g. 57 = the number of the Return opcode): whatever the body ends in, the function must still end by returning
    for b in range(256):
        out.append(("limit:tail:%d" % b, "fn f() {\n  var t = [%s];\n}\nprint(f());\nprint(\"done\");\n" % ", ".join("0" for _ in range(b)), {}))
        TAIL_EXPECT["limit:tail:%d" % b] = ["nil", "done"]
    # bodies whose last statement returns on some paths only
    tails = [("else-returns", "fn g(x) {\n  if x { var y = 1; } else { return 2; }\n}\nprint(g(true));\nprint(g(false));\nprint(\"done\");\n", ["nil", "2", "done"]),
             ("then-returns", "fn g(x) {\n  if x { return 1; }\n}\nprint(g(true));\nprint(g(false));\nprint(\"done\");\n", ["1", "nil", "done"]),
             ("loop-returns", "fn g(n) {\n  while n > 0 { return n; }\n}\nprint(g(3));\nprint(g(0));\nprint(\"done\");\n", ["3", "nil", "done"]),
             ("for-returns", "fn g(v) {\n  for x in v { return x; }\n}\nprint(g([7]));\nprint(g([]));\nprint(\"done\");\n", ["7", "nil", "done"]),
             ("try-returns", "fn g(x) {\n  try { if x { return 1; } } catch e { return 2; }\n}\nprint(g(true));\nprint(g(false));\nprint(\"done\");\n", ["1", "nil", "done"]),
             ("method-else-returns", "#[constructor(new)]\nclass K {\n  fn m(self, x) {\n    if x { self.v = 1; } else { return 2; }\n  }\n}\nprint(K.new().m(true));\nprint(K.new().m(false));\nprint(\"done\");\n", ["nil", "2", "done"]),
             ("lambda-block-else-returns", "var h = |x| { if x { var y = 1; } else { return 2; } };\nprint(h(true));\nprint(h(false));\nprint(\"done\");\n", ["nil", "2", "done"])]
    # a try statement whose try block and catch block each fit the 16-bit operand of PushExcHandler while their SUM does not: the
    # interpreter derives the finally address from both (`x = 1;` on a global is 7 bytes)
    for a, b in ((4900, 4900), (2900, 7000), (7000, 2900), (9300, 100), (100, 9300)):
        for early in (True, False):
            exits = "    if k == 0 { return \"ret\"; }\n    if k == 1 { throw \"t\"; }\n"
            pad_a, pad_b = "x = 1;\n" * a, "x = 2;\n" * b
            src = ("var x = 0;\nfn g(k) {\n  try {\n%s  } catch e {\n%s    print(\"caught \" + e);\n  } finally {\n"
                   "    print(\"fin\");\n  }\n  return \"end\";\n}\nprint(g(0));\nprint(g(1));\nprint(g(2));\nprint(x);\nprint(\"done\");\n") % (
                       (exits + pad_a) if early else (pad_a + exits), pad_b)
            tails.append(("handler-sum:%d:%d:%s" % (a, b, "early" if early else "late"), src,
                          ["fin", "ret", "caught t", "fin", "end", "fin", "end", "1", "done"]))
    # blocks nested deeper than any 8-bit counter: a local of the innermost block is gone when the blocks have closed, inside and
    # outside a loop body (the scope depth of a local is not bounded by the number of locals)
    for k in (254, 255, 256, 257, 300, 513):
        src = ("var x = \"global x\";\nfn f() {\n" + "{\n" * k + "var x = \"inner x\"; var y = x;\n" + "}\n" * k + "return x;\n}\nprint(f());\nfn g() {\n  var seen = [];\n  for i in 0..3 {\n"
               + "{\n" * k + "var leak = \"leaked \" + String.from(i); seen.push(leak);\n" + "}\n" * k + "  }\n  var after = \"after\";\n  return after;\n}\nprint(g());\nprint(\"done\");\n")
        tails.append(("nesting:%d" % k, src, ["global x", "after", "done"]))
    for tag, src, exp in tails:
        out.append(("limit:tail:" + tag, src, {}))
        TAIL_EXPECT["limit:tail:" + tag] = exp
    return out


TAIL_EXPECT = {}


def limit_readback_programs():
    """A function that holds m locals (m around the 256-locals limit), each with its own value, followed by one construct that declares
    locals of its own AND WRITES THEM (visible ones and the hidden ones of `for` and of a class with a superclass); afterwards the sum of
    all m locals is printed: either the program is rejected with a compile error, or no local was touched (a new local that aliases an
    old slot changes the sum) and the construct computed what it should."""
    constructs = [
        ("var", "var x = 1000; x = x + 1; s = x;", "1001"),
        ("for", "for x in [1, 2] { s = s + x; }", "3"),
        ("for-body", "for x in [1, 2] { var y = x * 10; var w = y + 1; s = s + w; }", "32"),
        ("for-nested", "for x in [1, 2] { for y in [10, 20] { var q = x + y; s = s + q; } }", "66"),
        ("while-body", "while s < 3 { var y = 1; var w = y + 1; s = s + w; }", "4"),
        ("catch", "try { throw 7; } catch e { s = e; }", "7"),
        ("catch-body", "try { throw 7; } catch e { var y = e + 1; var w = y + 1; s = w; }", "9"),
        ("block", "{ var y = 5; { var w = y + 1; s = w; } }", "6"),
        ("if-body", "if s == 0 { var y = 4; var w = y * 2; s = w; } else { var q = 1; s = q; }", "8"),
        ("fn", "fn g(a) { var b = a + 1; return b; } s = g(1);", "2"),
        ("lambda-capture", "var g = |p| p + l0 + l1; s = g(1);", "2"),
        ("class-derived", "#[derive(Base), constructor(new)] class C { fn hi(self) { return super.hi() + 1; } } s = C.new().hi();", "2"),
        ("import-as", "import \"lim_mod\" as mm; s = mm.v;", "42"),
    ]
    out = []
    for m in (250, 251, 252, 253, 254, 255, 256):
        decls = "\n".join("var l%d = %d;" % (i, i) for i in range(m))
        total = " + ".join("l%d" % i for i in range(m))
        for cname, c, want in constructs:
            src = ("class Base { fn hi(self) { return 1; } }\nfn f() {\nvar s = 0;\n%s\n%s\nprint(s);\nprint(%s);\n}\nf();\n" % (decls, c, total))
            out.append(("limit:readback:%s:%d:%s:%d" % (cname, m, want, m * (m - 1) // 2), src, {"lim_mod": "var v = 42;\n"}))
    return out


def correspondence(ctx, model_ok=True):
    rng = ctx.rng.fork("c04")
    failures = []
    broken = []
    n_gen = 9000 if ctx.thorough else 720
    gen = progs.generated(rng, PROFILES, n_gen)
    scripts = progs.corpus_scripts()
    corpus = progs.corpus_dir("C04")
    limits = limit_programs()
    if not ctx.thorough:
        limits = [p for p in limits if ":constants:" not in p[0]]
    limits += limit_readback_programs()
    # every statement form of the catalogue (every instruction family x the kinds of value it dispatches on), at module level, in a
    # function and in a for loop: each executed instruction is compared with the verifier's annotation below
    allp = corpus + limits + [stmts.once_program(stmts.forms_without_finally())] + stmts.loop_programs(2, stmts.forms_without_finally()) + [(n, s, m) for n, s, m, _ in gen] + scripts
    res, _ = progs.run_programs(ctx.runner, allp, {"bytecode": 1, "itrace": 200000, "gc": "default"}, steps_budget=5000000, tag="v")
    requests = []
    owners = []
    for pi, ((name, src, mods), r) in enumerate(zip(allp, res)):
        if not isinstance(r, dict):
            continue
        fns = r.get("functions")
        if r.get("status") == "panic":
            failures.append({"what": "the interpreter panicked", "program": src if len(src) < 4000 else src[:4000], "name": name,
                             "message": r.get("message"), "signature": "panic " + str(r.get("message"))[:50], "failing_input": True})
        if not fns:
            continue
        for k, fn in enumerate(fns):
            requests.append(fn_line(fn, fns))
            owners.append((pi, k))
            if "lines" in fn and len(fn["lines"]) * 2 != len(fn["code"] or ""):
                failures.append({"what": "a compiled function's line table is not parallel to its code (%d code bytes, %d line entries): the lines of error "
                                         "reports shift" % (len(fn["code"] or "") // 2, len(fn["lines"])), "program": src if len(src) < 4000 else src[:4000],
                                 "name": name, "function": fn["name"], "signature": "lines not parallel", "failing_input": True})
    n_fn = len(requests)
    accepted = 0
    compared = 0
    rejected = {}
    annots = {}
    if model_ok and requests:
        try:
            ans = vlib.run_model("verify", requests, timeout=1800)
        except Exception as e:
            broken.append("model driver verify: %s" % e)
            ans = []
        for (pi, k), a in zip(owners, ans):
            name, src, mods = allp[pi]
            fn = res[pi]["functions"][k]
            if a.startswith("ok"):
                accepted += 1
                table = {}
                body = a[3:].strip()
                if body:
                    for ent in body.split(","):
                        pc, h, d = ent.split(":")
                        table[int(pc)] = (int(h), int(d))
                annots[(pi, fn["chunk"])] = table
            else:
                parts = a.split()
                cls = parts[1] if len(parts) > 1 else a
                pc = int(parts[2]) if len(parts) > 2 and parts[2].isdigit() else -1
                code = bytes.fromhex(fn["code"]) if fn["code"] else b""
                op = opnames().get(code[pc], str(code[pc])) if 0 <= pc < len(code) else "?"
                sig = rejection_signature(cls, pc, op, code, fn, res[pi]["functions"])
                rejected[sig] = rejected.get(sig, 0) + 1
                failures.append({"what": "the bytecode verifier rejects a function the compiler produced: " + a[:200], "program": src if len(src) < 4000 else src[:4000] + "...",
                                 "name": name, "function": fn["name"], "verdict": a[:300], "modules": {x: y for x, y in mods.items() if x in src},
                                 "signature": sig, "failing_input": True})
        # executed instructions vs annotation
        for pi, r in enumerate(res):
            if not isinstance(r, dict) or not r.get("itrace"):
                continue
            base_frames = {}
            for (chunk, off, opc, height, hdepth, frames) in r["itrace"]:
                table = annots.get((pi, chunk))
                if table is None:
                    continue
                compared += 1
                exp = table.get(off)
                if exp is None or exp[0] != height:
                    name, src, mods = allp[pi]
                    failures.append({"what": "an executed instruction has a stack height other than the verifier's annotation",
                                     "program": src if len(src) < 4000 else src[:4000], "name": name, "offset": off, "opcode": opnames().get(opc, opc),
                                     "observed_height": height, "annotated": exp, "signature": "model-vs-real height at %s" % opnames().get(opc, opc),
                                     "failing_input": False})
                    break
    # which variable an access reaches: scoping scenarios in every wrapper and the resolution grid, expectations built from the rule
    from props import c06 as _c06
    ident = _c06.fixed_expectation_programs()
    ires, _ = progs.run_programs(ctx.runner, [(n, src, {}) for n, src, _ in ident], {"gc": "default"}, tag="i")
    for (name, src, exp), r in zip(ident, ires):
        o = progs.canon_step(r)
        if not _c06.meets(o, exp):
            failures.append({"what": "a variable access does not reach the variable the source names (%s): expected %s, observed %s" % (name, str(exp)[:200], str(o)[:200]),
                             "program": src, "name": name, "signature": "variable access " + name.split(":")[0].split("/")[0], "failing_input": True})
    # ... and the implicit names `self`, `super`, `Self`: which slot / captured variable / class they compile to, in methods, static methods,
    # constructors, and functions, lambdas and classes nested in them (the class scenarios with their expected output)
    from props import c07 as _c07
    cres, _ = progs.run_programs(ctx.runner, [(n, src, {}) for n, src, _ in _c07.SCENARIOS], {"gc": "default"}, tag="j")
    for (name, src, exp), r in zip(_c07.SCENARIOS, cres):
        o = progs.canon_step(r)
        if o[0] != "ok" or list(o[2]) != list(exp):
            k = next((i for i, (x, y) in enumerate(zip(list(o[2]) if len(o) > 2 else [], exp)) if x != y), min(len(o[2]) if len(o) > 2 else 0, len(exp)))
            failures.append({"what": "an implicit receiver / class name compiles to the wrong variable (class scenario %s, line %d: %s, expected %s; %s %s)" % (
                name, k, list(o[2])[k:k + 1] if len(o) > 2 else o, list(exp)[k:k + 1], o[0], list(o[3])[:1] if len(o) > 3 else ""),
                "program": src, "name": name, "expected": list(exp), "signature": "implicit receiver " + name, "failing_input": True})
    # limit programs: must be a compile error or run to "done"
    for (name, src, mods), r in zip(allp, res):
        if not name.startswith("limit:") or not isinstance(r, dict):
            continue
        kind = name.split(":")[1]
        expect = {"jump": ["done"], "loop": ["2", "done"], "try": ["caught", "done"]}.get(kind)
        if r.get("status") == "err" and r.get("kind") == "CompileError" and kind != "tail":
            ok = True
        elif r.get("status") == "ok" and kind == "constvalues":
            ok = r.get("printed") == ["0.25", "%s.5" % (int(name.split(":")[3]) - 1)]
        elif r.get("status") == "ok" and kind == "readback":
            ok = r.get("printed") == [name.split(":")[4], name.split(":")[5]]
        elif r.get("status") == "ok" and kind == "localsfor":
            ok = r.get("printed") == ["3", "5", name.split(":")[3]]
        elif r.get("status") == "ok" and kind == "localsclass":
            ok = r.get("printed") == ["hi!", "5", name.split(":")[3]]
        elif r.get("status") == "ok" and kind == "upvalues2":
            ok = r.get("printed") == [name.split(":")[3], "0", "written"]
        elif kind == "tail":
            ok = r.get("status") == "ok" and r.get("printed") == TAIL_EXPECT[name]
        elif r.get("status") == "ok" and kind == "interpshape":
            ok = r.get("printed") == [name.split(":")[4]]
        elif r.get("status") == "ok":
            ok = (r.get("printed") == expect) if expect else True
        else:
            ok = kind == "args" and r.get("status") == "ok"
        if not ok:
            failures.append({"what": "a program sitting on an encoding limit neither compiles-and-runs nor is rejected with a compile error",
                             "name": name, "program": src[:300] + "...", "observed": progs.canon_step(r),
                             "signature": "limit " + name.split(":")[1], "failing_input": True})
    tags = {}
    for _, _, _, tg in gen:
        for t in tg:
            tags[t] = tags.get(t, 0) + 1
    cov = {
        "evaluations": n_fn + len(ident), "variable_access_programs": len(ident),
        "distinct_nontrivial": len(set(requests)),
        "rule": "every function compiled from generated programs (profiles %s), repository scripts, corpus and limit programs is verified; "
                "distinct = distinct (arity, upvalues, code, constant kinds); executed instructions of accepted functions compared with the annotation" % ",".join(PROFILES),
        "samples": requests[:2],
        "programs": len(allp),
        "functions_verified": n_fn, "functions_accepted": accepted, "rejections_by_class": rejected,
        "executed_instructions_compared": compared,
        "disagreements_checked": compared,
        "traces_validated_against_impl": len([1 for r in res if isinstance(r, dict) and r.get("itrace")]),
        "generator_distribution": dict(sorted(tags.items(), key=lambda kv: -kv[1])[:30]),
    }
    return {"failures": dedupe(failures), "coverage": cov, "broken": broken}


def finally_regions(code, fn=None, fns=None):
    """[(finally_pc, end_finally_pc)] from the PushExcHandler operands found by a linear scan of the code."""
    names = opnames()
    sizes = {}
    p = os.path.join(vlib.LEAN_DIR, "Yarel", "Gen", "facts.json")
    for o in json.load(open(p)).get("opcodes", {}).get("opcodes", []):
        sizes[o.get("value", o.get("byte"))] = sum(o.get("arg_sizes", o.get("operands", [])))
    regions = []
    end_finally = [k for k, v in names.items() if v == "EndFinally"]
    push = [k for k, v in names.items() if v == "PushExcHandler"]
    pop = [k for k, v in names.items() if v == "PopExcHandler"]
    closure = [k for k, v in names.items() if v == "Closure"]
    if not end_finally or not push:
        return regions
    i = 0
    ends = []
    pushes = []
    while i < len(code):
        b = code[i]
        if b == push[0] and i + 4 < len(code):
            t = code[i + 1] | (code[i + 2] << 8)
            c = code[i + 3] | (code[i + 4] << 8)
            pushes.append(i + 5 + t + c)
        if b == end_finally[0]:
            ends.append(i)
        n = 0 if (pop and b == pop[0]) else sizes.get(b, 0)
        if closure and b == closure[0]:
            try:
                ci = code[i + 1] | (code[i + 2] << 8)
                n += 2 * fns[fn["constants"][ci][1]]["upvalues"]
            except Exception:
                break
        i += 1 + n
    for f in pushes:
        e = [x for x in ends if x >= f]
        if e:
            regions.append((f, e[0]))
    return regions


def rejection_signature(cls, pc, op, code, fn=None, fns=None):
    if cls == "HeightMismatch":
        try:
            if any(a <= pc <= b for a, b in finally_regions(code, fn, fns)):
                return "verifier rejects: HeightMismatch inside a finally block (normal path h, exception path h+1)"
        except Exception:
            pass
        return "verifier rejects: HeightMismatch at %s" % op
    if cls == "HandlerMismatch":
        return "verifier rejects: HandlerMismatch at %s" % ("Return" if op == "Return" else "a join after leaving a try block by a jump")
    if cls == "PendingReturnLeak" and op != "Return":
        try:
            if any(a <= pc <= b for a, b in finally_regions(code, fn, fns)):
                # the shape of ledger entry F25: if this instruction raises while the finally block runs for a `return`, nothing clears the
                # pending return address (the verifier cannot know that e.g. the global `print` is always defined)
                return "verifier rejects: PendingReturnLeak at an instruction that can raise inside a finally block running for a return, outside every handler"
        except Exception:
            pass
    return "verifier rejects: %s at %s" % (cls, op)


def dedupe(failures):
    out = {}
    for f in failures:
        key = f["signature"] + ("|" + f["name"] if str(f.get("name", "")).startswith("corpus:") else "")
        if key not in out:
            out[key] = f
            f["occurrences"] = 0
        out[key]["occurrences"] += 1
    return list(out.values())


def replay(ctx, payload):
    if "program" not in payload:
        return False, "nothing to replay"
    p = [("replay", payload["program"], payload.get("modules", {}))]
    res, _ = progs.run_programs(ctx.runner, p, {"bytecode": 1, "gc": "default"})
    fns = res[0].get("functions") or []
    ans = vlib.run_model("verify", [fn_line(f, fns) for f in fns]) if fns else []
    bad = [a for a in ans if not a.startswith("ok")]
    return not bad, "\n".join(a[:200] for a in ans)
