"""C03 — compilation is total: any text yields a function or a compile error.

Theorems: the scanner of the Lean reference implementation is total and makes progress (Yarel.Props.C03: scan_total, scan_all_terminates),
the Pratt table obligations regenerated from the source (infix_defined: parse_precedence's infix unwrap cannot fail; binary_prec_succ_ok:
Precedence::from(p+1) cannot hit its panic arm), and the panic-site inventory of scanner.rs/compiler.rs/chunk.rs (sites_accounted).
Correspondence (fuzzing in support of the theorems, labelled as such): every prefix of every repository script, token-level and
character-level mutations, random token sequences over the full vocabulary, deep nesting, arbitrary Unicode: the compiler must return,
with Ok xor a non-empty list of located messages, never panic; every accepted program must pass the C04 bytecode verifier; the real
token stream must equal the reference scanner's.
"""
import json
import os
import re

import vlib
import progs
import specdiff

THEOREM_MODULES = []
REQUIRED_THEOREMS = []
for _m, _t in (("C05Tables", ["infix_defined", "binary_prec_succ_ok"]), ("SitesInventory", ["sites_accounted_compile_time"]), ("C03", ["scan_total"]),
               ("SpecBase", ["scanAll_ends_with_eof", "scanAll_fuel_enough", "scanAll_lines_monotone", "scanAll_lines_bounded", "scanToken_progress",
                             "compileWith_total", "compileWith_ok_iff", "compileWith_messages_located", "getRule_rules_total"]),
               ("SpecTables", ["spec_rules_are_the_sources", "spec_token_kinds_are_the_sources"])):
    if os.path.exists(os.path.join(vlib.LEAN_DIR, "Yarel", "Props", _m + ".lean")):
        THEOREM_MODULES.append("Yarel.Props." + _m)
        REQUIRED_THEOREMS += _t
USES_GEN = True
LEVEL = "proof"
ASSUMPTIONS = [
    "parser termination and emitter-state panics are covered by the panic-site inventory plus fuzzing, not by a proof about compiler.rs",
    "a compile that takes longer than the per-batch wall-clock budget counts as a hang",
]
LOCATED = re.compile(r'^\[module "[^"]*", line \d+\] Error')
VOCAB = ["(", ")", "{", "}", "[", "]", ",", ".", "..", "-", "-=", "+", "+=", ":", ";", "/", "/=", "*", "*=", "!", "!=", "=", "==", ">", ">=", "<",
         "<=", "&", "&=", "|", "|=", "^", "^=", "%", "%=", "~", "<<", "<<=", ">>", ">>=", "&&", "||", "#", "x", "foo", "\"s\"", "\"a${", "}b\"", "1", "2.5",
         "as", "break", "catch", "class", "continue", "else", "false", "finally", "fn", "for", "if", "import", "in", "nil", "return", "self", "Self",
         "super", "throw", "true", "try", "var", "while", "static", "constructor", "derive", "\n", "// c\n", "\"unterminated", "\"\\q\"", "\"\\x4\"",
         "\"\\u{110000}\"", "é", "😀", "\t", "@", "$", "`"]


# ties between the function bodies translated from the Rust source on every run (Gen/Fns.lean) and the hand-written models
THEOREM_MODULES.append("Yarel.Props.FnsTie.Compiler")
REQUIRED_THEOREMS += ['precedence_from_discr', 'precedence_from_panics_iff']
# declarations as compiled (Props/FnsTie/Declare, Resolver; bodies as read on this run): a declaration always pushes its local (or reports the
# limit), so the `mark_last_initialised` that follows stamps the local just declared - also in error recovery, where the "name" is whatever
# token came before
THEOREM_MODULES += ["Yarel.Props.FnsTie.Declare", "Yarel.Props.FnsTie.Resolver"]
REQUIRED_THEOREMS += ['declare_variable_spec', 'add_local_spec', 'mark_last_initialised_spec', 'declared_then_initialised_is_found']


def mutate(rng, src):
    k = rng.below(6)
    if not src:
        return src
    i = rng.below(len(src))
    if k == 0:
        return src[:i] + src[i + 1:]
    if k == 1:
        return src[:i] + rng.choice(VOCAB) + src[i:]
    if k == 2:
        j = rng.below(len(src))
        a, b = min(i, j), max(i, j)
        return src[:a] + src[b:a:-1] + src[b:] if b > a else src
    if k == 3:
        return src[:i] + src[i:i + 20] * 2 + src[i + 20:]
    if k == 4:
        close = rng.choice(["}", ")", "]", ";", "\""])
        j = src.find(close, i)
        return src if j < 0 else src[:j] + src[j + 1:]
    return src[:i] + rng.choice(["\u00e9", "\u20ac", "\U0001F600", "\u0000", "\u2028", "\ufeff", "\\"]) + src[i:]


def attribute_cases():
    """Every attribute name (the three the compiler knows, an unknown one) x every argument-list form (none, empty, one, two, a
    non-identifier, unclosed) x every declaration it can precede (class, method, top-level function, statement), alone and in pairs."""
    names = ["constructor", "derive", "static", "frobnicate"]
    forms = ["", "()", "(a)", "(a, b)", "(1)", "(\"s\")", "(a", "(,)", "(a,)"]
    targets = [("class", "%s class X {}"), ("class-with-base", "class B0 {} %s class X { fn m(self) { return 1; } }"),
               ("method", "class X { %s fn m(self) { return 1; } }"), ("function", "%s fn f() { return 1; }"),
               ("statement", "%s var v = 1;"), ("eof", "%s")]
    out = []
    for tn, t in targets:
        for n in names:
            for f in forms:
                out.append(("attr:%s:%s%s" % (tn, n, f), t % ("#[%s%s]" % (n, f)) + "\nprint(1);\n"))
        for n1 in names:
            for n2 in names:
                for f1, f2 in (("", "(a)"), ("(a)", ""), ("", ""), ("(a)", "(b)")):
                    out.append(("attr2:%s:%s%s,%s%s" % (tn, n1, f1, n2, f2), t % ("#[%s%s, %s%s]" % (n1, f1, n2, f2)) + "\nprint(1);\n"))
    for extra in ("#[]", "#[", "#", "#[a b]", "#[a]#[b] class X {}", "#[derive(B0)] #[constructor(new)] class X {}", "# [ derive ( B0 ) ] class X {}"):
        out.append(("attr:odd:" + extra, extra + "\n"))
    return out


def limit_declaration_cases():
    """A function (and a block of the script) that already holds m locals, m around the 256-locals limit, followed by every construct that
    declares locals of its own (visible or hidden): each must compile or be rejected with located messages, never crash the compiler."""
    constructs = [
        ("var", "var x = 0;"), ("var2", "var x = 0; var y = 1;"), ("for", "for x in [1, 2] { s = s + x; }"), ("for-body", "for x in [1] { var y = x; var w = y; }"),
        ("for-nested", "for x in [1] { for y in [2] { s = x + y; } }"), ("catch", "try { throw 1; } catch e { s = e; }"),
        ("catch-body", "try { throw 1; } catch e { var y = e; var w = y; }"), ("finally", "try { s = 1; } finally { var y = 2; }"),
        ("fn", "fn g() { return 1; }"), ("fn-capture", "fn g() { return s; }"), ("lambda", "var g = |p, q| p + q + s;"),
        ("class", "class C { fn m(self) { return 1; } }"), ("class-derived", "#[derive(Base), constructor(new)] class C { fn m(self) { return super.hi(); } }"),
        ("import", "import \"modules/foo\";"), ("import-as", "import \"modules/foo\" as mm;"), ("block", "{ var y = 1; { var w = 2; } }"),
        ("while-body", "while s < 1 { var y = 1; s = s + y; }"), ("if-body", "if s == 0 { var y = 1; } else { var w = 2; }"),
    ]
    out = []
    for m in (252, 253, 254, 255, 256):
        decls = "\n".join("var l%d = %d;" % (i, i) for i in range(m))
        for cname, c in constructs:
            out.append(("limitdecl:fn:%s:%d" % (cname, m), "class Base { fn hi(self) { return 1; } }\nfn f() {\nvar s = 0;\n%s\n%s\nreturn s;\n}\nf();\n" % (decls, c)))
            out.append(("limitdecl:block:%s:%d" % (cname, m), "class Base { fn hi(self) { return 1; } }\n{\nvar s = 0;\n%s\n%s\n}\n" % (decls, c)))
    # parameters count as locals too
    for m in (253, 254, 255, 256):
        params = ", ".join("p%d" % i for i in range(m))
        for cname, c in constructs[:8]:
            out.append(("limitdecl:params:%s:%d" % (cname, m), "fn f(%s) {\nvar s = 0;\n%s\nreturn s;\n}\n" % (params, c)))
    return out


RECOVERY_FAULTS = [
    "var = 1;", "var ;", "fn () { }", "fn (a) { return a; }", "class { }", "class X { fn (self) { } }", "var 1 = 2;", "for in [1] { }", "for x [1] { }",
    "import ;", "import 5;", "fn f( { }", "fn f(a, ) { }", "var x = ;", "x = ;", "if { }", "while { }", "try { } catch { }", "try { }", "return ;;", "break;",
    "var l = || ;", "var v = [1, ;", "var m = { : 1};", "#[derive] class Y {}", "class Z { #[static] }", "print(;", "var t = 1 +;", "var s = \"${\";",
    "fn g(a, a) { }", "var d = 1; var d = 2;", "class Q { fn m() { self; } }", "super.x;", "self;",
]
RECOVERY_CONTEXTS = [
    ("top", "%s"), ("block", "{ %s }"), ("first-in-fn", "fn w%d() { %s }"), ("after-local-in-fn", "fn w%d() { var ok = 1; %s }"),
    ("method", "class C%d { fn m(self) { %s } }"), ("nested-block-in-fn", "fn w%d() { { %s } }"), ("loop", "while true { %s break; }"),
    ("lambda", "var l%d = || { %s };"), ("if", "if true { %s } else { %s }"), ("try", "try { %s } finally { var z = 1; }"),
    ("ctor", "class D%d { #[constructor] fn new(self) { %s } }"), ("for", "for q in [1] { %s }"),
]


def recovery_pair_cases(thorough):
    """Recovery after one syntax error must not turn later code into a crash: every ORDERED PAIR of faulty statements (declarations
    without a name, missing operands, missing delimiters, misplaced keywords ...), each in one of twelve contexts (top level, first or
    later statement of a block / function / method / constructor / lambda / loop / branch / try), side by side at top level and inside
    one enclosing function.  The compiler must answer each with located messages."""
    out = []
    nf, nc = len(RECOVERY_FAULTS), len(RECOVERY_CONTEXTS)
    k = 0
    for i, f1 in enumerate(RECOVERY_FAULTS):
        for j, f2 in enumerate(RECOVERY_FAULTS):
            combos = [(a, b) for a in range(nc) for b in range(nc)] if thorough else [((i + j) % nc, (i * 5 + j * 3 + 1) % nc), ((i * 7 + j) % nc, (j + 2) % nc), (2, 2), (1, 5)]
            for a, b in combos:
                k += 1
                def wrap(ci, f, uid):
                    name, tpl = RECOVERY_CONTEXTS[ci]
                    n_s = tpl.count("%s")
                    args = []
                    for part in tpl.replace("%d", "\0").replace("%s", "\1").split("\1")[:-1]:
                        pass
                    # fill %d with uid, %s with the fault (both occurrences for the if/else context)
                    t = tpl.replace("%d", str(uid))
                    return t.replace("%s", f)
                p1, p2 = wrap(a, f1, k * 2), wrap(b, f2, k * 2 + 1)
                out.append(("recover:%d:%d:%s:%s:flat" % (i, j, RECOVERY_CONTEXTS[a][0], RECOVERY_CONTEXTS[b][0]), p1 + "\n" + p2 + "\nprint(1);\n"))
                if (i + j + a + b) % 2 == 0 or thorough:
                    out.append(("recover:%d:%d:%s:%s:in-fn" % (i, j, RECOVERY_CONTEXTS[a][0], RECOVERY_CONTEXTS[b][0]), "fn outer%d() {\n%s\n%s\nreturn 1;\n}\nprint(outer%d());\n" % (k, p1, p2, k)))
    return out


def nesting(depth, kind):
    if kind == "paren":
        return "var x = " + "(" * depth + "1" + ")" * depth + ";\n"
    if kind == "block":
        return "{" * depth + "var a = 1;" + "}" * depth + "\n"
    if kind == "vec":
        return "var x = " + "[" * depth + "]" * depth + ";\n"
    if kind == "fn":
        return "".join("fn f%d() {\n" % i for i in range(depth)) + "}\n" * depth
    if kind == "interp":
        s = "1"
        for _ in range(depth):
            s = '"a${%s}b"' % s
        return "print(%s);\n" % s
    if kind == "unary":
        return "var x = " + "-" * depth + "1;\n"
    if kind == "if":
        return "".join("if true {\n" for _ in range(depth)) + "}\n" * depth
    return "var x = " + "1 + " * depth + "1;\n"


def correspondence(ctx, model_ok=True):
    rng = ctx.rng.fork("c03")
    failures = []
    broken = []
    scripts = progs.corpus_scripts()
    cases = []
    stride = 1 if ctx.thorough else 13
    for si, (name, src, _) in enumerate(scripts):
        if not ctx.thorough and si % 3:
            continue
        for i in range(0, len(src) + 1, stride):
            cases.append(("prefix:%s:%d" % (name, i), src[:i]))
    n_mut = 20000 if ctx.thorough else 2500
    for i in range(n_mut):
        r2 = rng.fork("m%d" % i)
        name, src, _ = scripts[r2.below(len(scripts))]
        m = src
        for _ in range(1 + r2.below(3)):
            m = mutate(r2, m)
        cases.append(("mut:%s:%d" % (name, i), m))
    n_tok = 8000 if ctx.thorough else 1200
    for i in range(n_tok):
        r2 = rng.fork("t%d" % i)
        cases.append(("tokens:%d" % i, " ".join(r2.choice(VOCAB) for _ in range(1 + r2.below(40)))))
    for kind in ("paren", "block", "vec", "fn", "interp", "unary", "if", "binop"):
        for depth in ((1, 7, 8, 9, 50, 200, 255, 256, 257, 1000) if ctx.thorough else (8, 9, 200, 256, 257)):
            cases.append(("nest:%s:%d" % (kind, depth), nesting(depth, kind)))
    # the same constructs left OPEN (cut in the middle) and cut right after the innermost token: deep malformed input
    for kind in ("paren", "block", "vec", "fn", "interp", "unary", "if", "binop"):
        for depth in ((8, 60, 70, 200, 257, 1000) if ctx.thorough else (60, 70, 257)):
            full = nesting(depth, kind)
            cases.append(("open:%s:%d" % (kind, depth), full[:len(full) // 2]))
            cases.append(("open3:%s:%d" % (kind, depth), full[:len(full) // 3]))
    for ch in ("[", "(", "{", "-", "!", "[(", "{[", "fn f(", "f(", "a[", "\"${", "|| ", "#[", "x.y(", "1 + (", "try { ", "class A { fn m(self) { "):
        for depth in (70, 300):
            cases.append(("opench:%s:%d" % (ch, depth), ch * depth))
    # CRLF and bare-CR line ends (token lines are compared with the reference scanner; compile-error lines with the reference parser)
    for si, (name, src, _) in enumerate(scripts):
        if si % (5 if ctx.thorough else 40) == 0:
            cases.append(("crlf:" + name, src.replace("\n", "\r\n")))
            cases.append(("crlf-cut:" + name, src.replace("\n", "\r\n")[:max(1, len(src) * 2 // 3)]))
            cases.append(("cr-mixed:" + name, src.replace("\n", "\r\n", 3).replace(";", ";\r", 2)))
    cases += attribute_cases()
    # programs sitting on the encoding limits: every construct that declares locals at 252..256 locals, and the limit programs of C04
    # (jump distances, operand counts, constants, captured variables): the compiler must answer, with a function or located messages
    cases += limit_declaration_cases()
    cases += recovery_pair_cases(ctx.thorough)
    # VOLUME of errors: N faulty statements (N around the widths of small counters) in one source - every one is reported, the result is an
    # error whatever N is; and long uninterrupted RUNS of characters no token starts with (every one is an error token; skipping them
    # must not nest), with and without line ends between them, in one-byte and multi-byte spelling
    for n in (1, 2, 127, 128, 255, 256, 257, 511, 512, 1024) + ((4096, 65535, 65536, 65537) if ctx.thorough else ()):
        cases.append(("manyerrors:var:%d" % n, "".join("var %d;\n" % k for k in range(n)) + "print(\"after\");\n"))
        cases.append(("manyerrors:mixed:%d" % n, "".join(("var ok%d = 1;\n" % k) if k % 2 else ("print(;\n") for k in range(2 * n)) + "print(\"after\");\n"))
        cases.append(("manyerrors:chars:%d" % n, "var a = 1;\n" + "@ " * n + "\nprint(a);\n"))
    for ch in ("@", "\u00e9", "`"):
        for n in (1000, 20000, 120000, 1000000) + ((4000000,) if ctx.thorough else ()):   # (a frame per error token overflows an 8 MB stack somewhere between 10^5 and 10^6)
            cases.append(("errorrun:%s:%d" % (ch.encode("unicode_escape").decode(), n), "// junk follows\n" + ch * n + "\nprint(1);\n"))
            cases.append(("errorrun-lines:%s:%d" % (ch.encode("unicode_escape").decode(), n), "// junk follows\n" + (ch * 100 + "\n") * (n // 100) + "print(1);\n"))
    from props import c04 as _c04
    cases += [("limit:" + n, src) for n, src, _ in _c04.limit_programs() if ctx.thorough or ":constants:" not in n and ":constvalues:" not in n]
    lines = [vlib.case_line("c%d" % i, ["C:" + vlib.hx(src)], bytecode=1) for i, (_, src) in enumerate(cases)]
    res = vlib.run_real(ctx.runner, lines, timeout_per_batch=90, batch=400)
    ok_count = err_count = 0
    not_run = 0
    verify_reqs, verify_owner = [], []
    distinct = set()
    from props import c04
    for (name, src), r in zip(cases, res):
        st = (r.get("steps") or [{}])[0] if isinstance(r, dict) and "steps" in r else None
        bad = None
        if isinstance(r, dict) and str(r.get("crash", "")).startswith("not-run"):
            not_run += 1
            continue
        if st is None:
            bad = "the compiler did not return (process died or hung): %s" % str(r)[:120]
        elif st.get("status") == "panic":
            bad = "the compiler panicked: %s" % st.get("message")
        elif st.get("status") == "ok":
            ok_count += 1
            for fn in st.get("functions") or []:
                verify_reqs.append(c04.fn_line(fn, st["functions"]))
                verify_owner.append((name, src))
        elif st.get("status") == "err":
            err_count += 1
            msgs = st.get("messages") or []
            if st.get("kind") != "CompileError":
                bad = "compile failed with kind %s" % st.get("kind")
            elif not msgs:
                bad = "compile error without any message"
            elif not all(LOCATED.match(m) for m in msgs if not m.startswith("    ")):
                bad = "compile error message without location: %r" % [m for m in msgs if not LOCATED.match(m)][:1]
        else:
            bad = "unexpected status %r" % st.get("status")
        distinct.add(src)
        if bad:
            failures.append({"what": bad, "name": name, "program": src if len(src) < 3000 else src[:3000], "signature": "compile: " + bad.split(":")[0][:60],
                             "failing_input": True})
    if model_ok and verify_reqs:
        try:
            ans = vlib.run_model("verify", verify_reqs, timeout=1800)
            known = {k.get("signature") for k in vlib.known_findings("C04")}
            for a, (name, src) in zip(ans, verify_owner):
                if not a.startswith("ok"):
                    cls = a.split()[1] if len(a.split()) > 1 else a
                    # shapes of the C04 ledger (break out of try, finally heights, nested return, raising inside a finally that runs for a return) are C04's findings, not C03's
                    if cls in ("HandlerMismatch", "HeightMismatch", "PendingReturnLeak"):
                        continue
                    failures.append({"what": "an ACCEPTED program compiles to code the verifier rejects: " + a[:160], "name": name, "program": src[:3000],
                                     "signature": "accepted-but-unverifiable " + cls, "failing_input": True})
        except Exception as e:
            broken.append("model driver verify: %s" % e)
    sd = {"failures": [], "scan_compared": 0, "compile_compared": 0}
    if model_ok:
        sample = [c for c in cases if not c[0].startswith("prefix:")] + [c for i, c in enumerate(cases) if c[0].startswith("prefix:") and i % (1 if ctx.thorough else 7) == 0]
        sample = [c for c in sample if len(c[1]) < 20000]
        sd = specdiff.compile_and_scan_diff(ctx, sample, broken)
        failures += sd["failures"]
    cov = {
        "token_streams_compared_with_reference_scanner": sd["scan_compared"], "compile_results_compared_with_reference_parser": sd["compile_compared"],
        "evaluations": len(cases),
        "distinct_nontrivial": len(distinct),
        "rule": "prefixes of repository scripts (stride %d), 1-3 character/token-level mutations of scripts, random sequences over a %d-item token vocabulary, "
                "nesting of 8 construct kinds up to depth 1000; distinct = distinct source text; oracle: returns, Ok xor located messages, accepted code verifies" % (stride, len(VOCAB)),
        "samples": [cases[len(cases) // 2][1][:200], cases[-1][1][:120]],
        "not_run_after_hangs": not_run, "accepted": ok_count, "rejected_with_located_errors": err_count, "functions_of_accepted_programs_verified": len(verify_reqs),
        "programs": len(cases),
        "explanation": "the generated part of this check is fuzzing in support of the table/scanner theorems, not a proof about compiler.rs",
    }
    return {"failures": dedupe(failures), "coverage": cov, "broken": broken}


def dedupe(failures):
    out = {}
    for f in failures:
        out.setdefault(f["signature"], f)
    return list(out.values())


def replay(ctx, payload):
    if payload.get("kind") in ("scan", "compile") and "program" in payload:
        out = specdiff.compile_and_scan_diff(ctx, [("replay", payload["program"])], [])
        return not out["failures"], json.dumps(out["failures"][:1])[:1500]
    if "program" not in payload:
        return False, "nothing to replay"
    r = vlib.run_real(ctx.runner, [vlib.case_line("r", ["C:" + vlib.hx(payload["program"])])])[0]
    st = (r.get("steps") or [{}])[0] if "steps" in r else {}
    ok = st.get("status") == "ok" or (st.get("status") == "err" and st.get("kind") == "CompileError" and st.get("messages"))
    return bool(ok), json.dumps(st)[:800]
