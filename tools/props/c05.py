"""C05 — expressions and control flow evaluate as the language defines.

Theorems: Yarel.Props.C05Tables over the Pratt table REGENERATED from compiler.rs (rules_order: the precedence ladder; every operator token at its
level; binary operators recurse one level tighter = left-associative; and/or at their own level; range at Unary; infix_defined;
binary_prec_succ_ok; prefix_table), the arithmetic of the number model (Yarel.Props.C19 where present) and the reference interpreter (S).
Correspondence: random expression ASTs over every operator with operands of every kind are PRINTED with only the parentheses the
reference grammar requires and evaluated by an independent reference evaluator (tools/gen/ref.py: operator definitions, left-to-right
single evaluation via tracing calls, short-circuit, error kinds and messages, Rust-style number text); the implementation must parse
the text back to the same tree and produce the same trace, value or error.  Control flow: random structured programs (if/else-if/else,
while, for over ranges, break, continue, nested blocks, early return) interpreted by the same reference.  Compound assignments.
"""
import json
import math
import os

import vlib
import progs
import specdiff
from gen import ref

THEOREM_MODULES = []
REQUIRED_THEOREMS = []
if os.path.exists(os.path.join(vlib.LEAN_DIR, "Yarel", "Props", "C05Tables.lean")):
    THEOREM_MODULES.append("Yarel.Props.C05Tables")
    REQUIRED_THEOREMS += ["rules_order", "infix_defined", "binary_prec_succ_ok"]
if os.path.exists(os.path.join(vlib.LEAN_DIR, "Yarel", "Props", "SpecBase.lean")):
    THEOREM_MODULES.append("Yarel.Props.SpecBase")
    REQUIRED_THEOREMS += ["run_fuel_mono", "runSnippet_fuel_mono", "step_printed", "run_printed_prefix", "prec_ladder", "infix_rules_sane"]
if os.path.exists(os.path.join(vlib.LEAN_DIR, "Yarel", "Props", "SpecTables.lean")):
    THEOREM_MODULES.append("Yarel.Props.SpecTables")
    REQUIRED_THEOREMS += ["spec_rules_are_the_sources", "spec_token_kinds_are_the_sources", "spec_precedences_are_the_sources", "spec_limits_are_the_sources", "spec_natives_are_the_sources"]
USES_GEN = True
LEVEL = "proof"
ASSUMPTIONS = [
    "the reference evaluator tools/gen/ref.py is written from the operator definitions (IEEE double arithmetic by the host's floats, C fmod, "
    "saturating casts for the bitwise operators), not derived from vm.rs",
    "`a <= b` / `a >= b` are defined as IEEE comparisons; the implementation compiles them as !(a > b) / !(a < b), which differs for NaN "
    "operands: known finding F30",
    "code generation of the real compiler is tied to the definition by these differential runs, not proved",
]
NUMS = [0.0, -0.0, 1.0, 2.0, 3.0, 7.0, 10.0, 255.0, 0.5, 1.5, -1.0, -2.5, 100.0, 1e6, 4294967296.0, 9007199254740993.0, 1e308, 63.0, 64.0, 65.0,
        math.inf, -math.inf, math.nan, 9223372036854775807.0, -9223372036854775808.0, 0.1, 123456.789]
STRS = ["", "a", "ab", "héllo", "12", "x y"]
BIN = ["+", "-", "*", "/", "%", "&", "|", "^", "<<", ">>", "<", "<=", ">", ">=", "==", "!=", "&&", "||", ".."]


# ties between the function bodies translated from the Rust source on every run (Gen/Fns.lean) and the hand-written models
THEOREM_MODULES.append("Yarel.Props.SpecExpressions")
REQUIRED_THEOREMS += ["binary_evaluates_left_first", "operand_value_schedules_next", "last_operand_applies_operator", "and_short_circuits", "or_short_circuits"]
THEOREM_MODULES.append("Yarel.Props.FnsTie.VmSteps")
REQUIRED_THEOREMS += ["vm_binary_op_numbers", "vm_binary_op_type_error", "vm_equal_effect", "vm_logical_not_effect", "vm_negate_number",
                      "vm_bitwise_not_number", "vm_negate_type_error", "vm_jump_if_false_effect"]
THEOREM_MODULES.append("Yarel.Props.FnsTie.Ops")
REQUIRED_THEOREMS += ["op_greater_tie", "op_less_tie", "op_subtract_tie", "op_multiply_tie", "op_divide_tie", "op_modulo_tie", "op_bitwise_and_tie",
                      "op_bitwise_or_tie", "op_bitwise_xor_tie", "op_shift_left_tie", "op_shift_right_tie", "dispatch_covers_every_opcode",
                      "dispatch_is_the_pinned_table"]
THEOREM_MODULES.append("Yarel.Props.FnsTie.Compiler")
REQUIRED_THEOREMS += ['precedence_from_discr', 'precedence_from_panics_iff', 'precedence_names_are_the_table']
# the expression compilers translated from compiler.rs on every run (Props/FnsTie/Statements): every binary operator parses its right operand
# one level tighter than its own level in RULES (as read on this run) and emits the reference table's instruction(s); prefix operators,
# and / or (short-circuit jump skeleton), `..`; if / while test skeletons (the condition value is popped on both sides)
THEOREM_MODULES.append("Yarel.Props.FnsTie.Statements")
REQUIRED_THEOREMS += ["binary_operator_table", "binary_other_tokens_emit_nothing", "binary_table_is_the_reference_table", "unary_operator_table",
                      "and_skeleton", "or_skeleton", "dotdot_skeleton", "if_statement_skeleton", "while_statement_skeleton",
                      "expression_statement_skeleton", "condition_value_popped_on_both_sides"]


def gen_leaf(r, env, numeric):
    k = r.below(10)
    if env and k < 3:
        names = [n for n in env if not numeric or env[n][0] == "num"]
        if names:
            return ("var", r.choice(names))
    if numeric or k < 6:
        return ("lit", ref.num(r.choice(NUMS[:14]) if numeric and r.chance(3, 4) else r.choice(NUMS)))
    if k < 8:
        return ("lit", ("str", r.choice(STRS)))
    return ("lit", r.choice([ref.TRUE, ref.FALSE, ref.NIL, ("vec", [ref.num(1), ref.num(2)]), ("vec", [])]))


def gen_expr(r, env, depth, numeric=False, trace=False, counter=None):
    if depth <= 0 or r.chance(1, 5):
        leaf = gen_leaf(r, env, numeric)
        if trace and counter is not None:
            counter[0] += 1
            return ("trace", "t%d" % counter[0], leaf)
        return leaf
    k = r.below(8)
    if k == 0:
        return ("un", r.choice(["-", "!", "~"]) if not numeric else r.choice(["-", "~"]), gen_expr(r, env, depth - 1, numeric, trace, counter))
    ops = BIN if not numeric else ["+", "-", "*", "/", "%", "&", "|", "^", "<<", ">>"]
    op = r.choice(ops)
    return ("bin", op, gen_expr(r, env, depth - 1, numeric, trace, counter), gen_expr(r, env, depth - 1, numeric, trace, counter))


def has_nan_cmp(e, env):
    """True if evaluating e compares a NaN with <= or >= (known finding F30)."""
    found = [False]

    def ev(x):
        k = x[0]
        if k == "lit":
            return x[1]
        if k == "var":
            return env[x[1]]
        if k == "trace":
            return ev(x[2])
        if k == "un":
            return ref.unop(x[1], ev(x[2]))
        a = ev(x[2])
        if x[1] == "&&":
            return ev(x[3]) if ref.truthy(a) else a
        if x[1] == "||":
            return a if ref.truthy(a) else ev(x[3])
        b = ev(x[3])
        if x[1] in ("<=", ">=") and a[0] == "num" and b[0] == "num" and (a[1] != a[1] or b[1] != b[1]):
            found[0] = True
        return ref.binop(x[1], a, b)
    try:
        ev(e)
    except ref.YErr:
        pass
    return found[0]


def expr_case(r, avoid_f30=True):
    env = {"a": ref.num(r.choice(NUMS[:12])), "b": ref.num(r.choice(NUMS[:12])), "s": ("str", r.choice(STRS)), "t": ref.TRUE, "n": ref.NIL}
    lines = ["fn tr(tag, v) { print(tag); return v; }"]
    for n, v in env.items():
        lines.append("var %s = %s;" % (n, ref.lit_src(v)[0]))
    expected = []
    tags = set()
    for _ in range(5 + r.below(6)):
        mode = r.below(4)
        counter = [0]
        e = gen_expr(r, env, 2 + r.below(3), numeric=(mode == 0), trace=(mode == 1), counter=counter)
        if avoid_f30 and has_nan_cmp(e, env):
            continue
        src, _ = ref.to_src(e)
        out = []
        try:
            v = ref.evaluate(e, env, out)
            expected += out + [ref.display(v)]
        except ref.YErr as err:
            expected += out + ["ERR %s %s" % (err.kind, err.msg)]
        lines.append('try { print(%s); } catch e { print("ERR " + String.from(type(e))[7..-1] + " " + e.context); }' % src)
        tags.add("mode%d" % mode)
    # compound assignments on a and b (right-hand sides without nested low-precedence parentheses: known finding F24)
    for _ in range(r.below(3)):
        op = r.choice(["+", "-", "*", "/", "%", "&", "|", "^", "<<", ">>"])
        rhs = gen_expr(r, env, 1, numeric=True)
        target = r.choice(["a", "b"])
        src, lvl = ref.to_src(rhs)
        if "(" in src:
            continue
        try:
            v = ref.binop(op, env[target], ref.evaluate(rhs, env, []))
            env[target] = v
            expected.append(ref.display(v))
        except ref.YErr as err:
            expected.append("ERR %s %s" % (err.kind, err.msg))
        lines.append('try { %s %s= %s; print(%s); } catch e { print("ERR " + String.from(type(e))[7..-1] + " " + e.context); }' % (target, op, src, target))
        tags.add("compound")
    return "\n".join(lines) + "\n", expected, tags


# ------------------------------------------------------------------ control flow
class Brk(Exception):
    pass


class Cnt(Exception):
    pass


class Ret(Exception):
    def __init__(self, v):
        self.v = v


def gen_block(r, depth, in_loop, in_fn, uid):
    stmts = []
    for _ in range(1 + r.below(3)):
        k = r.below(9)
        if depth <= 0 or k < 2:
            stmts.append(("out", ("bin", r.choice(["+", "*", "-"]), ("var", "x"), ("lit", ref.num(r.below(5))))))
        elif k < 4:
            c = ("bin", r.choice(["<", ">", "==", "<=", ">=", "!="]), ("var", "x"), ("lit", ref.num(r.below(6))))
            els = None
            if r.chance(1, 2):
                els = gen_block(r, depth - 1, in_loop, in_fn, uid)
                if r.chance(1, 3):
                    c2 = ("bin", "<", ("var", "x"), ("lit", ref.num(r.below(8))))
                    els = [("if", c2, gen_block(r, depth - 1, in_loop, in_fn, uid), els)]
            stmts.append(("if", c, gen_block(r, depth - 1, in_loop, in_fn, uid), els))
        elif k == 4:
            uid[0] += 1
            stmts.append(("while", "c%d" % uid[0], 1 + r.below(4), gen_block(r, depth - 1, True, in_fn, uid)))
        elif k == 5:
            uid[0] += 1
            a, b = r.below(4), r.below(4)
            stmts.append(("for", "i%d" % uid[0], a, b, gen_block(r, depth - 1, True, in_fn, uid)))
        elif k == 6 and in_loop:
            c = ("bin", r.choice(["<", ">", "=="]), ("var", "x"), ("lit", ref.num(r.below(6))))
            stmts.append(("if", c, [(r.choice(["break", "continue"]),)], None))
        elif k == 7:
            stmts.append(("set", ("bin", "+", ("var", "x"), ("lit", ref.num(1 + r.below(3))))))
        elif k == 8 and in_fn:
            c = ("bin", ">", ("var", "x"), ("lit", ref.num(3 + r.below(8))))
            stmts.append(("if", c, [("return", ("var", "x"))], None))
        else:
            uid[0] += 1
            stmts.append(("block", "l%d" % uid[0], gen_block(r, depth - 1, in_loop, in_fn, uid)))
    return stmts


def block_src(stmts, ind):
    pad = "    " * ind
    L = []
    for s in stmts:
        k = s[0]
        if k == "out":
            L.append(pad + "out.push(%s);" % ref.to_src(s[1])[0])
        elif k == "set":
            L.append(pad + "x = %s;" % ref.to_src(s[1])[0])
        elif k == "if":
            L.append(pad + "if %s {" % ref.to_src(s[1])[0])
            L += block_src(s[2], ind + 1)
            if s[3] is not None:
                if len(s[3]) == 1 and s[3][0][0] == "if":
                    inner = block_src(s[3], ind)
                    L.append(pad + "} else " + inner[0].strip())
                    L += inner[1:]
                    continue
                L.append(pad + "} else {")
                L += block_src(s[3], ind + 1)
            L.append(pad + "}")
        elif k == "while":
            L.append(pad + "{")
            L.append(pad + "    var %s = 0;" % s[1])
            L.append(pad + "    while %s < %d {" % (s[1], s[2]))
            L.append(pad + "        %s = %s + 1;" % (s[1], s[1]))
            L += block_src(s[3], ind + 2)
            L.append(pad + "    }")
            L.append(pad + "}")
        elif k == "for":
            L.append(pad + "for %s in %d..%d {" % (s[1], s[2], s[3]))
            L.append(pad + "    x = x + %s;" % s[1])
            L += block_src(s[4], ind + 1)
            L.append(pad + "}")
        elif k == "block":
            L.append(pad + "{")
            L.append(pad + "    var %s = x * 2;" % s[1])
            L += block_src(s[2], ind + 1)
            L.append(pad + "    out.push(%s);" % s[1])
            L.append(pad + "}")
        elif k in ("break", "continue"):
            L.append(pad + k + ";")
        elif k == "return":
            L.append(pad + "return %s;" % ref.to_src(s[1])[0])
    return L


def run_block(stmts, st):
    for s in stmts:
        k = s[0]
        env = {"x": ref.num(st["x"])}
        if k == "out":
            st["out"].append(ref.evaluate(s[1], env, [])[1])
        elif k == "set":
            st["x"] = ref.evaluate(s[1], env, [])[1]
        elif k == "if":
            if ref.truthy(ref.evaluate(s[1], env, [])):
                run_block(s[2], st)
            elif s[3] is not None:
                run_block(s[3], st)
        elif k == "while":
            c = 0
            while c < s[2]:
                c += 1
                try:
                    run_block(s[3], st)
                except Brk:
                    break
                except Cnt:
                    continue
        elif k == "for":
            a, b = s[2], s[3]
            rng = range(a, b) if a < b else range(a, b, -1)
            for i in rng:
                st["x"] = st["x"] + i
                try:
                    run_block(s[4], st)
                except Brk:
                    break
                except Cnt:
                    continue
        elif k == "block":
            l = st["x"] * 2
            run_block(s[2], st)
            st["out"].append(l)
        elif k == "break":
            raise Brk()
        elif k == "continue":
            raise Cnt()
        elif k == "return":
            raise Ret(ref.evaluate(s[1], env, [])[1])


def control_case(r):
    uid = [0]
    in_fn = r.chance(1, 2)
    body = gen_block(r, 3, False, in_fn, uid)
    x0 = r.below(4)
    st = {"x": float(x0), "out": []}
    ret = None
    try:
        run_block(body, st)
    except Ret as e:
        ret = e.v
    expected_out = "[" + ", ".join(ref.fmt_num(v) for v in st["out"]) + "]"
    if in_fn:
        src = ["var out = [];", "fn f() {", "    var x = %d;" % x0] + block_src(body, 1) + ["    return \"end\";", "}", "print(f());", "print(out);"]
        expected = [ref.fmt_num(ret) if ret is not None else "end", expected_out]
    else:
        src = ["var out = [];", "var x = %d;" % x0] + block_src(body, 0) + ["print(out);", "print(x);"]
        expected = [expected_out, ref.fmt_num(st["x"])]
    return "\n".join(src) + "\n", expected


KNOWN = [
    ("F30-nan-compares", 'var nan = 0/0; print(nan <= 1); print(nan >= 1); print(1 <= nan);', ["false", "false", "false"]),
    ("F24-compound-rhs-parenthesised", 'fn f(v) { return 1; } var a = 1; a += f(1 == 1); print(a); a += (1 < 2) || 3; print(a);', None),
]


# evaluate-once / left-to-right where the operands have side effects on shared mutable state (expected output by construction)
DIRECTED = [
    ("interpolation-parts-are-rendered-as-they-are-evaluated",
     'var n = 0; fn next() { n = n + 1; return n; }\nprint("${next()}-${next()}-${n}-${next()}");\nvar v = [1]; print("${v} then ${v.push(2)} then ${v}");\n'
     'var m = {"k": 0}; fn bump() { m.insert("k", m.get("k") + 1); return 1; } print("m=${m} bump=${bump()} m=${m}");\nprint("${"a${next()}"}${next()}|${n}");',
     ["1-2-2-3", "[1] then [1, 2] then [1, 2]", "m={k: 0} bump=1 m={k: 1}", "a45|5"]),
    ("operands-left-to-right-once",
     'var log = []; fn t(x) { log.push(x); return x; }\nvar r = t(1) + t(2) * t(3) - t(4); print(r); print(log); log = [];\nvar v = [t(10), t(20), t(30)]; var tu = (t(1), t(2)); var mp = {t("a"): t(1), t("b"): t(2)}; print(log); log = [];\n'
     'fn f(a, b, c) { return a + b + c; } print(f(t(1), t(2), t(3))); print(log); log = [];\nvar w = [0, 0, 0]; w[t(1)] = t(7); print(w); print(log); log = [];\n'
     'print(t(false) && t(1)); print(t(true) || t(2)); print(t(nil) || t(3)); print(log); log = [];\nprint((t(1)..t(4))); print(log); log = [];\nprint([5, 6, 7][t(0)..t(2)]); print(log);',
     ["3", "[1, 2, 3, 4]", "[10, 20, 30, 1, 2, a, 1, b, 2]", "6", "[1, 2, 3]", "[0, 7, 0]", "[1, 7]", "false", "true", "3", "[false, true, nil, 3]",
      "Range(1, 4)", "[1, 4]", "[5, 6]", "[0, 2]"]),
    ("compound-assignment-evaluates-its-target-once",
     'var log = []; fn t(x) { log.push(x); return x; }\nvar a = 1; a += t(2); a *= t(3); a -= t(1); print(a); print(log); log = [];\n'
     '#[constructor(new)] class K { } var o = K.new(); o.f = 1; fn get() { log.push("get"); return o; } get().f = t(5); print(o.f); print(log); log = [];\n'
     'var s = "x"; s += "y" + "z"; print(s); var sh = 256; sh >>= 64; print(sh); sh = 1; sh <<= 3; print(sh);',
     ["8", "[2, 3, 1]", "5", "[get, 5]", "xyz", "0", "8"]),
]


DIRECTED += [
    # a `for` statement asks its iterable for `iter()` and the iterator for `next()` the way any call `x.iter()` / `it.next()` does:
    # a field holding a closure comes before a method of the class, a method defined by a subclass before the inherited one
    ("for-loops-call-iter-and-next-like-any-other-call",
     '#[constructor(new)] class Plain { }\n'
     'fn counter(n) { var it = Plain.new(); var i = 0; it.next = || { if i >= n { return StopIter.new(); } i = i + 1; return i * 10; }; it.iter = || it; return it; }\n'
     'var src = Plain.new(); src.iter = || counter(3); for x in src { print(x); }\n'
     '#[derive(Iter)] class Up { #[constructor] fn new(self) { self.i = 0; } fn iter(self) { return self; } fn next(self) { self.i = self.i + 1; if self.i > 2 { return StopIter.new(); } return self.i; } }\n'
     'for x in Up.new() { print(x); }\n'
     'var shadow = Up.new(); var k = 0; shadow.next = || { k = k + 1; if k > 2 { return StopIter.new(); } return "field ${k}"; }; for x in shadow { print(x); } print(shadow.i);\n'
     'var sh2 = Up.new(); sh2.iter = || [7, 8].iter(); for x in sh2 { print(x); }\n'
     '#[derive(Up)] class Down { #[constructor] fn new(self) { super.new(); } fn next(self) { self.i = self.i + 1; if self.i > 2 { return StopIter.new(); } return -self.i; } }\n'
     'for x in Down.new() { print(x); }\n'
     'var total = 0; for a in counter(2) { for b in counter(2) { total = total + a + b; } } print(total);',
     ["10", "20", "30", "1", "2", "field 1", "field 2", "0", "7", "8", "-1", "-2", "120"]),
    # an index expression with a range yields a NEW vector: the slice and the vector sliced never share storage, whichever part is taken
    ("slices-are-new-vectors",
     'var v = [1, 2, 3];\n'
     'for r in [0..3, 0..2, 1..3, -3..3, -3..-1, 0..0, 1..1] { var c = v[r]; c.push(99); print(v); }\n'
     'var w = [1, 2, 3]; var whole = w[0..w.len()]; w.push(4); print(whole); whole[0] = "x"; print(w); print(whole == w); print(w[0..4] == w);\n'
     'var neg = w[-4..4]; neg.pop(); print(w.len()); var e = []; print(e == e); var t = (1, 2); print(t[0..2] == t); var s = "abc"; print(s[0..3] == s);\n'
     'var nested = [[1], [2]]; var cp = nested[0..2]; cp[0].push(5); cp.push([3]); print(nested);',
     ["[1, 2, 3]"] * 7 + ["[1, 2, 3]", "[1, 2, 3, 4]", "false", "true", "4", "true", "true", "true", "[[1, 5], [2]]"]),
]



# operand VALUES of every depth: element-wise equal vectors / tuples / mixed, nested 1 .. 400 deep (built by loops; a grammar of bounded depth
# never builds them), compared with ==, != and in a condition; and the same with one leaf changed at the very bottom
def deep_operand_scenario():
    depths = [1, 2, 3, 15, 16, 17, 31, 32, 33, 47, 48, 49, 50, 63, 64, 65, 100, 127, 128, 129, 255, 256, 257, 400]
    src = ('fn vecs(n, leaf) { var t = [leaf]; for i in 0..n { t = [i, t]; } return t; }\n'
           'fn tups(n, leaf) { var t = (leaf,); for i in 0..n { t = (i, t); } return t; }\n'
           'fn mixed(n, leaf) { var t = [leaf]; for i in 0..n { if i %% 2 == 0 { t = (t, i); } else { t = [t, "s"]; } } return t; }\n'
           'fn row(n, mk) { var a = mk(n, 0); var b = mk(n, 0); var c = mk(n, 1); var verdict = "different"; if a == b { verdict = "equal"; }\n'
           '  return [n, a == b, a != b, b == a, a == c, a != c, verdict]; }\n'
           'for n in [%s] { print(row(n, vecs)); print(row(n, tups)); print(row(n, mixed)); }\n' % ", ".join(str(d) for d in depths))
    exp = []
    for d in depths:
        exp += ["[%d, true, false, true, false, true, equal]" % d] * 3
    return ("operand-values-of-every-depth", src, exp)


# one number has ONE text wherever an expression turns it into text: print, interpolation, String.from, as an element of a printed
# container, as a part of a longer interpolation - for the special values, whole numbers on both sides of 2^53 and 2^63, and fractions
def number_text_positions_scenario():
    vals = [("0", 0.0), ("0 * -1", -0.0), ("1", 1.0), ("-1", -1.0), ("0.5", 0.5), ("1 / 3", 1 / 3), ("p2(53)", 2.0 ** 53), ("p2(53) + 2", 2.0 ** 53 + 2), ("p2(62)", 2.0 ** 62),
            ("p2(63)", 2.0 ** 63), ("0 - p2(63)", -(2.0 ** 63)), ("p2(63) - 1024", 2.0 ** 63 - 1024), ("p2(64)", 2.0 ** 64), ("p2(70)", 2.0 ** 70), ("p10(15)", 1e15), ("p10(21)", 1e21), ("p10(22)", 1e22),
            ("p10(15) + 0.5", 1e15 + 0.5), ("1 / p10(7)", 1e-7), ("1 / 0", float("inf")), ("-1 / 0", float("-inf")), ("123456789.125", 123456789.125), ("4294967296", 4294967296.0), ("p2(31) * -1", -(2.0 ** 31))]
    src = ('fn p2(k) { var r = 1; for i in 0..k { r = r * 2; } return r; }\nfn p10(k) { var r = 1; for i in 0..k { r = r * 10; } return r; }\n'
           'fn show(x) { print(x); print("${x}"); print(String.from(x)); print("<${x}|${x}>"); print([x]); print("${[x]}"); print("${x}" == String.from(x)); }\n')
    exp = []
    for e, v in vals:
        src += "show(%s);\n" % e
        t = ref.display(ref.num(v))
        exp += [t, t, t, "<%s|%s>" % (t, t), "[%s]" % t, "[%s]" % t, "true"]
    return ("one-number-one-text-in-every-position", src, exp)


DIRECTED += [deep_operand_scenario(), number_text_positions_scenario()]

ASSIGN_OPS = {"=": "3", "+=": "11", "-=": "5", "*=": "24", "/=": "2.6666666666666665", "%=": "2", "&=": "0", "|=": "11", "^=": "11", "<<=": "64", ">>=": "1"}
ASSIGN_TARGETS = {"local": "loc", "global": "glob", "property": "c.n", "index": "v[0]", "self-field": None, "nested-index": "w[0][0]", "chained": "c.inner.n"}
# an assignment may not stand where an operand of a tighter-binding operator is expected ...
ASSIGN_BAD_CTX = {"mul": "2 * @", "neg": "-@", "not": "!@", "cmp": "10 > @", "and": "true && @", "or": "false || @", "eq": "1 == @", "add": "1 + @",
                  "range": "0..@", "bitor": "1 | @", "shift": "1 << @", "call-arg-mul": "id(2 * @)"}
# ... and may stand wherever a whole expression is expected; its value is the value assigned
ASSIGN_OK_CTX = {"plain": "@", "paren": "(@)", "call-arg": "id(@)", "paren-in-mul": "1 * (@)", "vec-element": "[@][0]", "index-of": "[0, @][1]"}


def assignment_grid():
    """Every assignment operator x every kind of target x every position: (a) positions where the grammar allows no assignment (operand of
    a tighter-binding operator) must be rejected at compile time - for every kind of target alike; (b) positions that take a whole
    expression must accept it, assign exactly once and yield the assigned value (8 <op> 3 computed here)."""
    out = []
    for tk, t in ASSIGN_TARGETS.items():
        for op, val in ASSIGN_OPS.items():
            for good, table in ((False, ASSIGN_BAD_CTX), (True, ASSIGN_OK_CTX)):
                for ck, ctx in table.items():
                    lines = ["fn id(x) { return x; }", "#[constructor(new)]", "class Inner { }", "#[constructor(new)]",
                             "class C { fn bump(self) { var r = CTX; return r; } }", "var glob = 8;", "fn run() {", "    var loc = 8;",
                             "    var c = C.new(); c.n = 8; c.inner = Inner.new(); c.inner.n = 8;", "    var v = [8]; var w = [[8]];"]
                    if tk == "self-field":
                        lines[4] = lines[4].replace("CTX", ctx.replace("@", "self.n %s 3" % op))
                        lines += ["    var r = c.bump();", "    print(r); print(c.n);"]
                    else:
                        lines[4] = lines[4].replace("CTX", "1")
                        lines += ["    var r = %s;" % ctx.replace("@", "%s %s 3" % (t, op)), "    print(r); print(%s);" % t]
                    lines += ["}", "run();", 'print("done");']
                    exp = [val, val, "done"] if good else None
                    if tk in ("index", "nested-index"):
                        # the language has no compound assignment to an element (a syntax error everywhere), and `v[i] = x` used as a
                        # value is nil (SetItem leaves nil; documented quirk Q-C05-1)
                        exp = ["nil", "3", "done"] if (good and op == "=") else None
                        if good and ck == "paren-in-mul":
                            continue
                    out.append(("assign:%s/%s/%s" % (tk, op, ck), "\n".join(lines) + "\n", exp))
    return out


def same_value_text(a, b):
    """Two printed lines denote the same value: equal text, or both are number texts of the same double (the reference evaluator prints
    with Python's repr, which differs from Rust's shortest digits where two shortest candidates are equally near - number TEXT is C19's
    subject, the VALUE is this property's)."""
    if a == b:
        return True
    try:
        x, y = float(a), float(b)
    except ValueError:
        return False
    if any(c.isalpha() for c in a + b) and not (a.lower() in ("nan", "inf", "-inf") and b.lower() in ("nan", "inf", "-inf")):
        return False
    return (x != x and y != y) or (x == y and math.copysign(1, x) == math.copysign(1, y))


TABLE_POOL = [("num", x) for x in NUMS] + [("str", t) for t in ("", "a", "ab", "12")] + [ref.TRUE, ref.FALSE, ref.NIL, ("vec", [ref.num(1), ref.num(2)]), ("vec", [])]
# tuples that differ only in the order or the repetition of their elements (equality is element by element, whatever a hash says), nested
TABLE_POOL += [("tuple", [ref.num(1), ref.num(2)]), ("tuple", [ref.num(2), ref.num(1)]), ("tuple", [ref.num(1), ref.num(1)]), ("tuple", [ref.num(2), ref.num(2)]),
               ("tuple", [("tuple", [ref.num(1), ref.num(2)]), ref.num(3)]), ("tuple", [("tuple", [ref.num(2), ref.num(1)]), ref.num(3)]), ("tuple", []),
               ("tuple", [ref.num(1)]), ("tuple", [("str", "a"), ref.NIL]), ("tuple", [ref.NIL, ("str", "a")])]


def operator_table_cases():
    """Every binary operator x every ordered pair of a pool of operand values of every kind (the 27 numbers with both zeros, NaN, the
    infinities and the integer boundaries; strings; booleans; nil; vectors) and every unary operator x the pool; operands are held in
    variables (so -0 and NaN are computed values, not literals); one program per operator; expectation from the reference evaluator.
    `<=`/`>=` with a NaN operand are left out (ledger F30); `&&`/`||` take the short-circuit value."""
    names = ["p%d" % i for i in range(len(TABLE_POOL))]
    decls = ["var %s = %s;" % (n, ref.lit_src(v)[0]) for n, v in zip(names, TABLE_POOL)]
    out = []
    for op in BIN:
        lines = list(decls)
        expected = []
        for na, a in zip(names, TABLE_POOL):
            for nb, b in zip(names, TABLE_POOL):
                if op in ("<=", ">=") and a[0] == "num" and b[0] == "num" and (a[1] != a[1] or b[1] != b[1]):
                    continue
                try:
                    if op == "&&":
                        v = b if ref.truthy(a) else a
                    elif op == "||":
                        v = a if ref.truthy(a) else b
                    else:
                        v = ref.binop(op, a, b)
                    expected.append(ref.display(v))
                except ref.YErr as err:
                    expected.append("ERR %s %s" % (err.kind, err.msg))
                lines.append('try { print(%s %s %s); } catch e { print("ERR " + String.from(type(e))[7..-1] + " " + e.context); }' % (na, op, nb))
        out.append(("optable:%s" % op, "\n".join(lines) + "\n", expected))
    for op in ("-", "!", "~"):
        lines = list(decls)
        expected = []
        for na, a in zip(names, TABLE_POOL):
            try:
                expected.append(ref.display(ref.unop(op, a)))
            except ref.YErr as err:
                expected.append("ERR %s %s" % (err.kind, err.msg))
            lines.append('try { print(%s%s); } catch e { print("ERR " + String.from(type(e))[7..-1] + " " + e.context); }' % (op, na))
        out.append(("optable:unary%s" % op, "\n".join(lines) + "\n", expected))
    return out


SHAPE_LEAVES = [("lit", ref.num(3.0)), ("lit", ref.num(0.0)), ("var", "a"), ("var", "z"), ("var", "f"), ("var", "s")]
SHAPE_ENV = {"a": ref.num(5.0), "z": ref.NIL, "f": ref.FALSE, "s": ("str", "s")}


def expression_shape_cases(thorough):
    """EVERY expression of two operators over a small set of operands (two number literals - one of them the result of nothing, 0 -, a
    number variable, a nil, a false and a string variable): `(x op2 y) op1 w` and `w op1 (x op2 y)` for all 19 x 19 pairs of binary operators,
    and the three unary operators under and over every binary one; printed with only the parentheses the grammar needs.  A compiler
    that treats one syntactic shape specially (a peephole, a fold, a fused jump) gets every such shape here, with operands on which the
    shape's value differs from its neighbours'."""
    out = []
    un = ["-", "!", "~"]
    leaves = SHAPE_LEAVES
    step = 1 if thorough else 1
    for op1 in BIN:
        for side in ("L", "R"):
            lines = ["var a = 5; var z = nil; var f = false; var s = \"s\";"]
            expected = []
            inner = []
            for op2 in BIN:
                for x in leaves:
                    for y in leaves:
                        inner.append(("bin", op2, x, y))
            for u in un:
                for x in leaves:
                    inner.append(("un", u, x))
            for sub in inner:
                for w in leaves:
                    e = ("bin", op1, sub, w) if side == "L" else ("bin", op1, w, sub)
                    try:
                        if has_nan_cmp(e, SHAPE_ENV):
                            continue
                        v = ref.evaluate(e, SHAPE_ENV, [])
                        expected.append(ref.display(v))
                    except ref.YErr as err:
                        expected.append("ERR %s %s" % (err.kind, err.msg))
                    lines.append('try { print(%s); } catch e { print("ERR " + String.from(type(e))[7..-1] + " " + e.context); }' % ref.to_src(e)[0])
            out.append(("shape:%s:%s" % (op1, side), "\n".join(lines) + "\n", expected))
    # a unary operator over every binary expression
    for u in un:
        lines = ["var a = 5; var z = nil; var f = false; var s = \"s\";"]
        expected = []
        for op2 in BIN:
            for x in leaves:
                for y in leaves:
                    e = ("un", u, ("bin", op2, x, y))
                    try:
                        if has_nan_cmp(e, SHAPE_ENV):
                            continue
                        expected.append(ref.display(ref.evaluate(e, SHAPE_ENV, [])))
                    except ref.YErr as err:
                        expected.append("ERR %s %s" % (err.kind, err.msg))
                    lines.append('try { print(%s); } catch e { print("ERR " + String.from(type(e))[7..-1] + " " + e.context); }' % ref.to_src(e)[0])
        out.append(("shape:unary%s" % u, "\n".join(lines) + "\n", expected))
    return out


def correspondence(ctx, model_ok=True):
    rng = ctx.rng.fork("c05")
    failures = []
    broken = []
    table = operator_table_cases() + expression_shape_cases(ctx.thorough)
    tres, _ = progs.run_programs(ctx.runner, [(n, s, {}) for n, s, _ in table], {"gc": "default"}, steps_budget=50000000, tag="o")
    for (name, src, exp), r in zip(table, tres):
        c = progs.canon_step(r)
        printed = list(c[2]) if len(c) > 2 else []
        if c[0] != "ok" or len(printed) != len(exp) or not all(same_value_text(x, y) for x, y in zip(printed, exp)):
            k = next((i for i in range(min(len(printed), len(exp))) if not same_value_text(printed[i], exp[i])), min(len(printed), len(exp)))
            stmts_ = [l for l in src.split("\n") if l.startswith("try")]
            failures.append({"what": "%s: `%s` prints %r, the operator's definition gives %r (status %s %s)" % (
                name, stmts_[k][6:stmts_[k].index(");") + 2] if k < len(stmts_) else "?", printed[k:k + 1], exp[k:k + 1], c[0], list(c[3])[:1] if len(c) > 3 else ""),
                "program": src if len(src) < 6000 else "\n".join([l for l in src.split("\n") if l.startswith("var")] + (stmts_[k:k + 1] if k < len(stmts_) else [])) + "\n",
                "expected_at": exp[k:k + 1], "printed_at": printed[k:k + 1], "signature": ("operator table " if name.startswith("optable") else "expression shape ") + name.split(":")[1], "failing_input": True})
    n_e = 15000 if ctx.thorough else 1200
    n_c = 15000 if ctx.thorough else 1200
    cases = []
    tags = {}
    for i in range(n_e):
        src, exp, tg = expr_case(rng.fork("e%d" % i))
        cases.append(("expr%d" % i, src, exp))
        for t in tg:
            tags[t] = tags.get(t, 0) + 1
    for i in range(n_c):
        src, exp = control_case(rng.fork("c%d" % i))
        cases.append(("ctl%d" % i, src, exp))
    ops_seen = {}
    for _, src, _ in cases:
        for op in BIN:
            if " %s " % op in src:
                ops_seen[op] = ops_seen.get(op, 0) + 1
    for mode in ({"gc": "default"},) + (({"gc": "always", "quarantine": 1},) if ctx.thorough else ()):
        res, _ = progs.run_programs(ctx.runner, [(n, s, {}) for n, s, _ in cases], mode, tag="x")
        for (name, src, exp), r in zip(cases, res):
            c = progs.canon_step(r)
            printed = list(c[2]) if len(c) > 2 else []
            if c[0] != "ok" or len(printed) != len(exp) or not all(same_value_text(x, y) for x, y in zip(printed, exp)):
                k = next((i for i in range(min(len(printed), len(exp))) if not same_value_text(printed[i], exp[i])), min(len(printed), len(exp)))
                failures.append({"what": "program prints something other than the reference evaluation (line %d: got %r, expected %r; status %s %s)" % (
                    k, printed[k:k + 1], exp[k:k + 1], c[0], list(c[3])[:1] if len(c) > 3 else ""),
                    "program": src, "expected": exp, "printed": printed,
                    "signature": ("control flow" if name.startswith("ctl") else "expression") + " differs from reference", "failing_input": True})
    kres, _ = progs.run_programs(ctx.runner, [(n, s, {}) for n, s, _ in KNOWN], {"gc": "default"}, tag="k")
    for (name, src, exp), r in zip(KNOWN, kres):
        c = progs.canon_step(r)
        if (exp is not None and (c[0] != "ok" or list(c[2]) != exp)) or (exp is None and c[0] != "ok"):
            failures.append({"what": "known scenario %s: %s" % (name, c), "program": src, "expected": exp, "signature": "known " + name.split("-")[0], "failing_input": True})
    dres, _ = progs.run_programs(ctx.runner, [(n, s, {}) for n, s, _ in DIRECTED], {"gc": "default"}, tag="d")
    for (name, src, exp), r in zip(DIRECTED, dres):
        c = progs.canon_step(r)
        if c[0] != "ok" or list(c[2]) != exp:
            failures.append({"what": "directed scenario '%s' prints %s (%s %s), expected %s" % (name, list(c[2]) if len(c) > 2 else c, c[0], list(c[3])[:1] if len(c) > 3 else "", exp),
                             "program": src, "expected": exp, "signature": "scenario " + name, "failing_input": True})
    grid = assignment_grid()
    ares, _ = progs.run_programs(ctx.runner, [(n, s, {}) for n, s, _ in grid], {"gc": "default"}, tag="a")
    for (name, src, exp), r in zip(grid, ares):
        c = progs.canon_step(r)
        if exp is None:
            good = c[0] == "err" and c[1] == "CompileError" and not c[2]
        else:
            good = c[0] == "ok" and list(c[2]) == exp
        if not good:
            failures.append({"what": "%s: %s, observed %s" % (name, "an assignment written as the operand of a tighter-binding operator must be rejected at compile time"
                                                            if exp is None else "expected %s" % exp, str(c)[:200]),
                             "program": src, "expected": exp, "must_not_compile": exp is None,
                             "signature": "assignment position " + name.split("/")[0].split(":")[1] + ("/rejected" if exp is None else "/accepted"), "failing_input": True})
    gen = progs.generated(rng, ["expr", "control", "typed", "typed-try"], 8000 if ctx.thorough else 600)
    sd = specdiff.diff(ctx, [(n, s, m) for n, s, m, _ in gen] + [("scenario:" + n, s, {}) for n, s, _ in DIRECTED], "C05", broken) if model_ok else {"failures": [], "compared": 0}
    failures += sd["failures"]
    cov = {
        "evaluations": len(cases) + sd["compared"] + sum(len(e) for _, _, e in table), "operator_table_evaluations": sum(len(e) for _, _, e in table),
        "distinct_nontrivial": len(set(s for _, s, _ in cases)),
        "rule": "random expression ASTs (depth 2-4) over all 19 binary and 3 unary operators with number (27 boundary values), string, boolean, nil and vector "
                "operands, printed with minimal parentheses and evaluated by tools/gen/ref.py, incl. tracing calls for evaluation order and compound assignments; "
                "random structured control-flow programs (if/else-if/else, while, for, break, continue, blocks, return) interpreted by the same reference; distinct = distinct program",
        "samples": [cases[0][1][:600], cases[-1][1][:600]],
        "operator_occurrences": ops_seen, "expression_modes": tags,
        "programs_compared_with_reference_interpreter": sd["compared"], "assignment_position_programs": len(grid),
        "programs": len(cases),
    }
    from props.c08 import dedupe
    return {"failures": dedupe(failures), "coverage": cov, "broken": broken}


def replay(ctx, payload):
    if "program" not in payload:
        return False, "nothing to replay"
    r, _ = progs.run_programs(ctx.runner, [("r", payload["program"], {})], {"gc": "default"})
    c = progs.canon_step(r[0])
    if payload.get("must_not_compile"):
        return c[0] == "err" and c[1] == "CompileError", str(c)[:1000]
    if payload.get("expected") is not None:
        return c[0] == "ok" and list(c[2]) == payload["expected"], str(c)[:1000]
    return c[0] == "ok", str(c)[:1000]
