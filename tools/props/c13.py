"""C13 — indexing, range-slicing and the string functions agree with a reference model over UTF-8 bytes.

Theorems: Yarel.Props.C13 (index_spec, range_spec, no_fault, all_ops_valid, boundary_iff_prefix, find_spec,
iter_concat, ...) on the model Yarel/Model/Str.lean.
Correspondence: an exhaustively enumerated small scope (all strings of <= 2 (quick) / <= 3 (thorough) characters over
{a, é, €, 😀} x every integer index in [-len-2, len+2] (len in bytes) plus the special numbers; vec and tuple of the
same lengths; all range pairs; vec index assignment; every String native over that string set x an argument pool,
wrong arities included; the static constructors over byte/code-point vectors including every malformed-UTF-8
class) is sent to
  * the Lean model driver (`yarel_model str`, protocol in Yarel/Drv/Str.lean), and
  * the real implementation, one Yarel statement per request (`out(<expr>);`, one `S:` step each, many steps per
    case); a sample is also run through an in-language try/catch so the catchable error class/message is compared,
and to a small pure-Python reference on bytes that arbitrates which side is wrong when they disagree.
Independent oracle (needs no model): no panic, only IndexError/ValueError/TypeError, every produced string (also
inside vecs) decodes as strict UTF-8, and the text of a produced string equals its `to_bytes()`.

Error comparison: the error KIND must be equal; the message is mapped to the template id (+ parameters) of the
driver header.  A message that matches no known template (reworded) is counted, not failed.
"""
import concurrent.futures
import json
import math
import os
import re
import struct
import subprocess

import vlib

THEOREM_MODULES = ["Yarel.Props.C13", "Yarel.Props.ModelLimits"]
REQUIRED_THEOREMS = ["index_spec", "range_spec", "no_fault", "all_ops_valid", "boundary_iff_prefix", "find_spec",
                     "iter_concat"]
# the state the models abstract is all the state there is: the fields of the run-time structures, regenerated on every run, are the ones
# the models were written against (Props/StateInventory)
THEOREM_MODULES.append("Yarel.Props.StateInventory.state_of_sequences_and_iterators")
REQUIRED_THEOREMS += ['state_of_sequences_and_iterators']
LEVEL = "proof"
ASSUMPTIONS = [
    "model Yarel/Model/Str.lean transcribes vm.rs get_item_impl/string_get_item/slice_get_item/set_item_impl/"
    "build_range_impl, value.rs try_as_bounded_index, object.rs make_bounded_range/validate_char_boundary, "
    "utils.rs validate_integer and the String natives of core.rs; tie = exhaustive small-scope correspondence",
    "Rust std str/String (is_char_boundary, from_utf8, replace, split, starts_with, chars, char::from_u32, "
    "`f64 as isize` saturation) behaves as documented; rustc is trusted",
    "to_num / String.from(number) are outside this model (number text: C19); they are run for the panic/kind/UTF-8 "
    "oracle only",
]
TRUSTED = ["the Yarel-side printer `show` (prelude of every case) uses to_bytes, for-in over Vec/Tuple, + and "
           "String.from(vec of numbers); the text of every top-level string result is cross-checked against it"]

ALLOWED_KINDS = ("IndexError", "ValueError", "TypeError")
ALPHA = ["a", "é", "€", "😀"]
INF = float("inf")
NAN = float("nan")
I63 = 2 ** 63
MAX_FAIL_PER_SIGNATURE = 3

PRELUDE = """fn show(v) {
  var t = type(v);
  if t == String { return "s" + String.from(v.to_bytes()); }
  if t == Num { return "n" + String.from(v); }
  if t == Nil { return "N"; }
  if t == Bool { if v { return "B1"; } return "B0"; }
  if t == Vec { var r = "v("; for x in v { r = r + show(x) + ";"; } return r + ")"; }
  if t == Tuple { var r = "t("; for x in v { r = r + show(x) + ";"; } return r + ")"; }
  if t == Range { return "r" + String.from(v); }
  if String.from(t) == "<class StringIter>" { var r = "i("; var c = v.next(); while type(c) != StopIter { r = r + show(c) + ";"; c = v.next(); } return r + ")"; }
  if t == StopIter { return "S"; }
  return "x";
}
fn out(v) { print(show(v)); if type(v) == String { print(v); } }
fn upto(n) { var v = []; var i = 0; while i < n { v.push(i); i = i + 1; } return v; }
"""


# ----------------------------------------------------------------------------------------------
# numbers and arguments

# ties between the function bodies translated from the Rust source on every run (Gen/Fns.lean) and the hand-written models
THEOREM_MODULES.append("Yarel.Props.FnsTie.Index")
REQUIRED_THEOREMS += ['validate_integer_tie', 'try_as_bounded_index_tie', 'make_bounded_range_tie']


def bits(x):
    return "%016x" % struct.unpack(">Q", struct.pack(">d", float(x)))[0]


def unbits(b):
    return struct.unpack(">d", struct.pack(">Q", int(b, 16)))[0]


def is_neg_zero(x):
    return x == 0 and math.copysign(1.0, x) < 0


def yl_num(x):
    """Yarel source text of the number x (always parenthesised when not a plain non-negative literal)."""
    x = float(x)
    if x != x:
        return "(0/0)"
    if x == INF:
        return "(1/0)"
    if x == -INF:
        return "(-1/0)"
    if is_neg_zero(x):
        return "(-0)"
    if x == math.trunc(x):
        t = str(int(x))                       # exact decimal digits of the double
    else:
        t = repr(abs(x)) if x < 0 else repr(x)
        if "e" in t or "E" in t:
            raise ValueError("no literal for %r" % x)
        if x < 0:
            t = "-" + t
    return "(%s)" % t if t.startswith("-") else t


def yl_str(b):
    s = b.decode("utf-8") if isinstance(b, bytes) else b
    out = []
    for ch in s:
        if ch in "\\\"$":
            out.append("\\" + ch)
        elif ch == "\n":
            out.append("\\n")
        elif ch == "\t":
            out.append("\\t")
        elif ch == "\r":
            out.append("\\r")
        elif ord(ch) < 0x20 or ord(ch) == 0x7F:
            raise ValueError("no literal for control character")
        else:
            out.append(ch)
    return '"' + "".join(out) + '"'


# argument values: ("n", float) ("s", bytes) ("nil",) ("b", bool) ("x",) ("v", [items])
def N(x):
    return ("n", float(x))


def S(s):
    return ("s", s.encode("utf-8") if isinstance(s, str) else bytes(s))


NIL = ("nil",)
TRUE = ("b", True)
FALSE = ("b", False)
X = ("x",)


def V(items):
    return ("v", [N(i) if isinstance(i, (int, float)) and not isinstance(i, bool) else i for i in items])


def arg_model(a, item=False):
    k = a[0]
    if k == "n":
        return bits(a[1]) if item else "n:" + bits(a[1])
    if k == "s":
        return "s:" + vlib.hx(a[1])
    if k == "nil":
        return "nil"
    if k == "b":
        return "b:true" if a[1] else "b:false"
    if k == "x":
        return "x"
    if k == "v":
        if item:
            raise ValueError("the driver has no nested vec")
        return "v:" + ",".join(arg_model(i, True) for i in a[1])
    raise ValueError(a)


def arg_yl(a):
    k = a[0]
    if k == "n":
        return yl_num(a[1])
    if k == "s":
        return yl_str(a[1])
    if k == "nil":
        return "nil"
    if k == "b":
        return "true" if a[1] else "false"
    if k == "x":
        return "{1: 2}"
    if k == "v":
        return "[" + ", ".join(arg_yl(i) for i in a[1]) + "]"
    raise ValueError(a)


def seq_yl(kind, n):
    """Source of the vec/tuple 0..n-1 (literals hold at most 255 elements; a longer vec is built by a call)."""
    if kind == "vec":
        if n > 255:
            return "upto(%d)" % n
        return "[" + ", ".join(str(i) for i in range(n)) + "]"
    if n > 255:
        raise ValueError("no tuple literal of %d elements" % n)
    if n == 1:
        return "(0,)"
    return "(" + ", ".join(str(i) for i in range(n)) + ")"


# ----------------------------------------------------------------------------------------------
# canonical answers
#   ("ok", val) | ("err", Kind, id|None, params) | ("panic", text) | ("unsupported", why) | ("fault", site) | ("bad", text)
#   val = ("s", bytes) ("n", bits16) ("b", bool) ("nil",) ("v", (val..)) ("t", (val..)) ("iter", bytes left) ("stop",)
#         ("x",) ("r", begin, end)

def parse_model_val(t):
    if t.startswith("v:") or t.startswith("t:"):
        body = t[2:]
        items = tuple(parse_model_val(i) for i in body.split(",")) if body else ()
        return ("v" if t[0] == "v" else "t", items)
    if t.startswith("s:"):
        return ("s", vlib.unhx(t[2:]))
    if t.startswith("n:"):
        return ("n", t[2:])
    if t == "b:true":
        return ("b", True)
    if t == "b:false":
        return ("b", False)
    if t == "nil":
        return ("nil",)
    if t == "stop":
        return ("stop",)
    if t == "x":
        return ("x",)
    if t.startswith("iter:"):
        _, h, pos = t.split(":")
        return ("iter", vlib.unhx(h)[int(pos):])
    if t.startswith("r:"):
        _, b, e = t.split(":")
        return ("r", int(b), int(e))
    raise ValueError("model value %r" % t)


def parse_model_answer(line):
    parts = line.split(" ")
    if parts[0] == "ok" and len(parts) == 2:
        return ("ok", parse_model_val(parts[1]))
    if parts[0] == "err" and len(parts) >= 3:
        return ("err", parts[1], parts[2], tuple(parts[3:]))
    if parts[0] in ("unsupported", "fault", "bad"):
        return (parts[0], " ".join(parts[1:]))
    raise ValueError("model answer %r" % line)


class ShowParser:
    def __init__(self, text):
        self.t = text
        self.i = 0

    def fail(self, why):
        raise ValueError("show text %r at %d: %s" % (self.t, self.i, why))

    def items(self):
        out = []
        while self.i < len(self.t) and self.t[self.i] != ")":
            out.append(self.value())
            if self.t[self.i:self.i + 1] != ";":
                self.fail("expected ';'")
            self.i += 1
        if self.t[self.i:self.i + 1] != ")":
            self.fail("expected ')'")
        self.i += 1
        return tuple(out)

    def value(self):
        t = self.t
        c = t[self.i:self.i + 1]
        if c == "N":
            self.i += 1
            return ("nil",)
        if c == "S":
            self.i += 1
            return ("stop",)
        if c == "x":
            self.i += 1
            return ("x",)
        if c == "B":
            v = t[self.i + 1:self.i + 2]
            if v not in ("0", "1"):
                self.fail("bool")
            self.i += 2
            return ("b", v == "1")
        if c == "n":
            m = re.compile(r"[^;)]+").match(t, self.i + 1)
            if not m:
                self.fail("number")
            self.i = m.end()
            return ("n", bits(float(m.group(0))))
        if c == "s":
            m = re.compile(r"\[((?:\d+(?:, \d+)*)?)\]").match(t, self.i + 1)
            if not m:
                self.fail("byte list")
            self.i = m.end()
            vals = [int(x) for x in m.group(1).split(", ")] if m.group(1) else []
            if any(v > 255 for v in vals):
                self.fail("byte > 255")
            return ("s", bytes(vals))
        if c == "r":
            m = re.compile(r"Range\((-?\d+), (-?\d+)\)").match(t, self.i + 1)
            if not m:
                self.fail("range")
            self.i = m.end()
            return ("r", int(m.group(1)), int(m.group(2)))
        if c in ("v", "t", "i") and t[self.i + 1:self.i + 2] == "(":
            self.i += 2
            items = self.items()
            if c == "i":
                if any(x[0] != "s" for x in items):
                    self.fail("iterator yielded a non-string")
                return ("iter", b"".join(x[1] for x in items))
            return (c, items)
        self.fail("unknown tag")


def parse_show(text):
    p = ShowParser(text)
    v = p.value()
    if p.i != len(text):
        p.fail("trailing text")
    return v


# message template id -> regex of the Rust format string (driver header of Yarel/Drv/Str.lean)
_Q = r"'(?:.*)'"
TEMPLATES = [
    ("expected_integer", r"Expected an integer value but found %s\." % _Q, None),
    ("index_out_of_bounds", r"(String|Vec|Tuple) index out of bounds\.", lambda m: (m.group(1),)),
    ("slice_start_out_of_range", r"(String|Vec|Tuple) slice start out of range\.", lambda m: (m.group(1),)),
    ("slice_end_out_of_range", r"(String|Vec|Tuple) slice end out of range\.", lambda m: (m.group(1),)),
    ("not_char_boundary", r"Provided (string index|string slice start|string slice end) is not on a character boundary\.",
     lambda m: (m.group(1).replace(" ", "_"),)),
    ("expected_int_or_range", r"Expected an integer or range\.", None),
    ("not_indexable", r"Value %s is not indexable\." % _Q, None),
    ("only_vec_assignable", r"Only Vec objects are index-assignable\.", None),
    ("num_args", r"Expected (\d+) parameter(s?) but found (\d+)\.", lambda m: (m.group(1), m.group(3))),
    ("expected_vec", r"Expected a Vec instance but found %s\." % _Q, None),
    ("expected_number", r"Expected a number but found %s\." % _Q, None),
    ("expected_byte", r"Expected a positive integer less than 256 but found %s\." % _Q, None),
    ("expected_u32", r"Expected a positive integer less than 4294967295 but found %s\." % _Q, None),
    ("invalid_code_point", r"Expected a valid Unicode code point but found '(\d+)'\.", lambda m: (m.group(1),)),
    ("unable_to_create", r"Unable to create a string from byte sequence\.", None),
    ("invalid_unicode", r"Invalid Unicode encountered at byte (\d+) with index (\d+)\.", lambda m: (m.group(1), m.group(2))),
    ("expected_string", r"Expected a string but found %s\." % _Q, None),
    ("cannot_find_empty", r"Cannot find empty string\.", None),
    ("cannot_replace_empty", r"Cannot replace empty string\.", None),
    ("cannot_split_empty", r"Cannot split using an empty string\.", None),
    ("char_index_out_of_range", r"Provided character index out of range\.", None),
    ("unable_to_parse", r"Unable to parse number from %s\." % _Q, None),
]
TEMPLATES = [(i, re.compile(r, re.S), f) for i, r, f in TEMPLATES]


def classify_message(msg):
    """-> (id, params) or (None, ()) when the text matches no known template."""
    for ident, rx, f in TEMPLATES:
        m = rx.fullmatch(msg)
        if m:
            if ident == "num_args" and (m.group(2) == "") != (m.group(1) == "1"):
                return None, ()
            return ident, tuple(f(m)) if f else ()
    return None, ()


def canon_real_step(st, caught=False):
    """Canonical answer of one executed step + the list of oracle violations seen in it."""
    viol = []
    if st is None or "status" not in st:
        return ("panic", "runner died: %s" % (st,)), ["panic"]
    status = st["status"]
    printed = st.get("printed", [])
    if status == "panic":
        return ("panic", st.get("message", "")), ["panic"]
    if status == "err":
        kind = st.get("kind", "?")
        msgs = st.get("messages") or [""]
        head = msgs[0]
        pre = "Unhandled %s: " % kind
        msg = head[len(pre):] if head.startswith(pre) else head
        ident, params = classify_message(msg)
        if kind not in ALLOWED_KINDS:
            viol.append("kind")
        if printed:
            viol.append("output-before-error")
        return ("err", kind, ident, params, msg), viol
    # ok
    if caught and len(printed) == 1 and printed[0].startswith("E "):
        m = re.fullmatch(r"E <class (\w+)> (.*)", printed[0], re.S)
        if not m:
            return ("bad", "caught line %r" % printed[0]), ["unparsable"]
        kind, msg = m.group(1), m.group(2)
        ident, params = classify_message(msg)
        if kind not in ALLOWED_KINDS:
            viol.append("kind")
        return ("err", kind, ident, params, msg), viol
    if not printed:
        return ("bad", "nothing printed"), ["unparsable"]
    try:
        val = parse_show(printed[0])
    except ValueError as e:
        return ("bad", str(e)), ["unparsable"]
    if val[0] == "s":
        if len(printed) != 2:
            viol.append("unparsable")
        elif printed[1].encode("utf-8", "surrogateescape") != val[1]:
            viol.append("text-vs-bytes")
    elif len(printed) != 1:
        viol.append("unparsable")
    for b in strings_in(val):
        try:
            b.decode("utf-8", "strict")
        except UnicodeDecodeError:
            viol.append("invalid-utf8")
            break
    return ("ok", val), viol


def strings_in(val):
    if val[0] in ("s", "iter"):
        yield val[1]
    elif val[0] in ("v", "t"):
        for x in val[1]:
            for y in strings_in(x):
                yield y


def same_answer(real, expected, strict_id=True):
    """real = canonical real answer, expected = canonical model/reference answer."""
    if real[0] != expected[0]:
        return False
    if real[0] == "ok":
        return real[1] == expected[1]
    if real[0] == "err":
        if real[1] != expected[1]:
            return False
        if expected[2] is None or real[2] is None or not strict_id:
            return True                    # reference gives kinds only / message reworded beyond recognition
        return real[2] == expected[2] and tuple(real[3]) == tuple(expected[3])
    return False


def show_answer(a):
    if a is None:
        return None
    if a[0] == "ok":
        return "ok " + show_val(a[1])
    if a[0] == "err":
        s = "err %s %s" % (a[1], a[2] if a[2] else "?")
        if a[3]:
            s += " " + " ".join(a[3])
        if len(a) > 4 and a[2] is None:
            s += " (message %r)" % a[4]
        return s
    return " ".join(str(x) for x in a)


def show_val(v):
    k = v[0]
    if k == "s":
        return "s:" + vlib.hx(v[1])
    if k == "n":
        return "n:" + v[1]
    if k == "b":
        return "b:true" if v[1] else "b:false"
    if k in ("v", "t"):
        return k + ":" + ",".join(show_val(x) for x in v[1])
    if k == "iter":
        return "iter-rest:" + vlib.hx(v[1])
    if k == "r":
        return "r:%d:%d" % (v[1], v[2])
    return k


# ----------------------------------------------------------------------------------------------
# pure-Python reference on bytes (arbitrates; errors by kind only)

class RefErr(Exception):
    def __init__(self, kind):
        Exception.__init__(self, kind)
        self.kind = kind


def ref_integer(a):
    if a[0] != "n":
        raise RefErr("TypeError")
    x = a[1]
    if x != x:
        raise RefErr("ValueError")
    if x == INF:
        return I63 - 1
    if x == -INF:
        return -I63
    if x != math.trunc(x):
        raise RefErr("ValueError")
    return max(-I63, min(I63 - 1, int(x)))


def ref_bounded(i, bound):
    if i < 0:
        i += bound
    if i < 0 or i >= bound:
        raise RefErr("IndexError")
    return i


def is_boundary(b, i):
    if i == 0 or i == len(b):
        return True
    if i > len(b):
        return False
    return (b[i] & 0xC0) != 0x80


def ref_num(i):
    return ("n", bits(float(i)))


def ref_index(kind, recv, x):
    if kind == "str":
        i = ref_bounded(ref_integer(x), len(recv))
        if not is_boundary(recv, i):
            raise RefErr("IndexError")
        j = i + 1
        while not is_boundary(recv, j):
            j += 1
        return ("s", recv[i:j])
    i = ref_bounded(ref_integer(x), recv)
    return ref_num(i)


def ref_range(kind, recv, xb, xe):
    e = ref_integer(xe)
    b = ref_integer(xb)
    limit = len(recv) if kind == "str" else recv
    if b < 0:
        b += limit
    if b < 0 or b >= limit:
        raise RefErr("IndexError")
    if e < 0:
        e += limit
    if e < 0 or e > limit:
        raise RefErr("IndexError")
    e = max(e, b)
    if kind == "str":
        if not is_boundary(recv, b) or not is_boundary(recv, e):
            raise RefErr("IndexError")
        return ("s", recv[b:e])
    return ("v" if kind == "vec" else "t", tuple(ref_num(i) for i in range(b, e)))


def ref_set(n, x):
    i = ref_bounded(ref_integer(x), n)
    return ("v", tuple(("nil",) if k == i else ref_num(k) for k in range(n)))


STR_ARITY = {"iter": 0, "len": 0, "is_alpha": 0, "is_digit": 0, "is_hexdigit": 0, "count_chars": 0,
             "char_byte_index": 1, "find": 2, "replace": 2, "split": 1, "starts_with": 1, "ends_with": 1,
             "to_num": 0, "to_bytes": 0, "to_code_points": 0}
STATIC_FNS = ["from", "from_ascii", "from_utf8", "from_code_points"]


def ref_string_arg(a):
    if a[0] != "s":
        raise RefErr("TypeError")
    return a[1]


def ref_str(fn, recv, args):
    if len(args) != STR_ARITY[fn]:
        raise RefErr("TypeError")
    text = recv.decode("utf-8")
    if fn == "iter":
        return ("iter", recv)
    if fn == "len":
        return ref_num(len(recv))
    if fn in ("is_alpha", "is_digit", "is_hexdigit"):
        sets = {"is_alpha": "abcdefghijklmnopqrstuvwxyzABCDEFGHIJKLMNOPQRSTUVWXYZ", "is_digit": "0123456789",
                "is_hexdigit": "0123456789abcdefABCDEF"}
        return ("b", len(text) > 0 and all(c in sets[fn] for c in text))
    if fn == "count_chars":
        return ref_num(len(text))
    if fn == "char_byte_index":
        i = ref_bounded(ref_integer(args[0]), len(text))
        return ref_num(len(text[:i].encode("utf-8")))
    if fn == "find":
        sub = ref_string_arg(args[0])
        if not sub:
            raise RefErr("ValueError")
        start = ref_bounded(ref_integer(args[1]), len(recv))
        if not is_boundary(recv, start):
            raise RefErr("IndexError")
        k = recv.find(sub, start)
        return ("nil",) if k < 0 else ref_num(k)
    if fn == "replace":
        old = ref_string_arg(args[0])
        if not old:
            raise RefErr("ValueError")
        new = ref_string_arg(args[1])
        return ("s", recv.replace(old, new))
    if fn == "split":
        d = ref_string_arg(args[0])
        if not d:
            raise RefErr("ValueError")
        return ("v", tuple(("s", p) for p in recv.split(d)))
    if fn == "starts_with":
        return ("b", recv.startswith(ref_string_arg(args[0])))
    if fn == "ends_with":
        return ("b", recv.endswith(ref_string_arg(args[0])))
    if fn == "to_bytes":
        return ("v", tuple(ref_num(x) for x in recv))
    if fn == "to_code_points":
        return ("v", tuple(ref_num(ord(c)) for c in text))
    if fn == "to_num":
        # the grammar of Rust's f64::from_str: optional sign, then inf / infinity / nan (any case) or digits with an optional fraction and an
        # optional exponent (at least one digit before or after the point); nothing else - no blanks, no underscores, no hex.  The value is
        # the nearest double (Python's float() rounds correctly too), and a minus sign survives on zero.
        t = text
        m = re.fullmatch(r"[+-]?(?:(?:inf|infinity|nan)|(?:(?:[0-9]+\.?[0-9]*|\.[0-9]+)(?:[eE][+-]?[0-9]+)?))", t, re.I)
        if not m or not t.isascii():
            raise RefErr("ValueError")
        x = float(t)
        return ("n", "7ff8000000000000" if x != x else bits(x))      # one NaN (its sign and payload do not print)
    return None


def ref_sfn(fn, args):
    if len(args) != 1:
        raise RefErr("TypeError")
    a = args[0]
    if fn == "from":
        if a[0] == "s":
            return ("s", a[1])
        if a[0] == "nil":
            return ("s", b"nil")
        if a[0] == "b":
            return ("s", b"true" if a[1] else b"false")
        return None
    if a[0] != "v":
        raise RefErr("TypeError")
    nums = []
    limit = 4294967295.0 if fn == "from_code_points" else 255.0
    for it in a[1]:
        if it[0] != "n":
            raise RefErr("TypeError")
        x = it[1]
        if x != x or x < 0 or x > limit or x != math.trunc(x):
            raise RefErr("ValueError")
        if fn == "from_code_points":
            c = int(x)
            if c > 0x10FFFF or 0xD800 <= c <= 0xDFFF:
                raise RefErr("ValueError")
        nums.append(int(x))
    if fn == "from_code_points":
        return ("s", "".join(chr(c) for c in nums).encode("utf-8"))
    if fn == "from_utf8":
        b = bytes(nums)
        try:
            b.decode("utf-8", "strict")
        except UnicodeDecodeError:
            raise RefErr("ValueError")
        return ("s", b)
    if fn == "from_ascii":
        # as implemented (and as the repository's own test expects): bytes > 127 become 0xC3, byte & 0xBF, so
        # 128..191 and 192..255 both land on U+00C0..U+00FF
        out = bytearray()
        for c in nums:
            if c > 127:
                out += bytes([0xC3, c & 0xBF])
            else:
                out.append(c)
        return ("s", bytes(out))
    return None


def reference(req):
    """-> canonical answer (errors with id None) or None when the reference does not cover the request."""
    try:
        op = req["op"]
        if op == "idx":
            v = ref_index(req["kind"], req["recv"], req["args"][0])
        elif op == "rng":
            v = ref_range(req["kind"], req["recv"], req["args"][0], req["args"][1])
        elif op == "set":
            v = ref_set(req["recv"], req["args"][0])
        elif op == "str":
            v = ref_str(req["fn"], req["recv"], req["args"])
        elif op == "sfn":
            v = ref_sfn(req["fn"], req["args"])
        elif op == "iter":
            v = ("v", tuple(("s", c.encode("utf-8")) for c in req["recv"].decode("utf-8")))
        else:
            v = None
        return None if v is None else ("ok", v)
    except RefErr as e:
        return ("err", e.kind, None, ())


# ----------------------------------------------------------------------------------------------
# requests

def mk_idx(kind, recv, x):
    r = vlib.hx(recv) if kind == "str" else str(recv)
    lit = yl_str(recv) if kind == "str" else seq_yl(kind, recv)
    return {"op": "idx", "kind": kind, "recv": recv, "args": [N(x)], "cls": "index " + kind,
            "line": "idx %s %s %s" % (kind, r, bits(x)), "stmt": "out(%s[%s]);" % (lit, yl_num(x))}


def mk_rng(kind, recv, b, e):
    r = vlib.hx(recv) if kind == "str" else str(recv)
    lit = yl_str(recv) if kind == "str" else seq_yl(kind, recv)
    return {"op": "rng", "kind": kind, "recv": recv, "args": [N(b), N(e)], "cls": "range " + kind,
            "line": "rng %s %s %s %s" % (kind, r, bits(b), bits(e)),
            "stmt": "out(%s[%s..%s]);" % (lit, yl_paren(b), yl_paren(e))}


def yl_paren(x):
    t = yl_num(x)
    return t if t.startswith("(") else "(%s)" % t


def mk_set(n, x):
    return {"op": "set", "kind": "vec", "recv": n, "args": [N(x)], "cls": "set vec",
            "line": "set %d %s" % (n, bits(x)),
            "stmt": "{ var v = %s; v[%s] = nil; out(v); }" % (seq_yl("vec", n), yl_num(x))}


def mk_str(fn, recv, args):
    return {"op": "str", "fn": fn, "kind": "str", "recv": recv, "args": list(args), "cls": "native " + fn,
            "line": " ".join(["str", fn, vlib.hx(recv)] + [arg_model(a) for a in args]),
            "stmt": "out(%s.%s(%s));" % (yl_str(recv), fn, ", ".join(arg_yl(a) for a in args))}


def mk_sfn(fn, args):
    return {"op": "sfn", "fn": fn, "kind": "static", "recv": None, "args": list(args), "cls": "static " + fn,
            "line": " ".join(["sfn", fn] + [arg_model(a) for a in args]),
            "stmt": "out(String.%s(%s));" % (fn, ", ".join(arg_yl(a) for a in args))}


def mk_iter(recv):
    return {"op": "iter", "kind": "str", "recv": recv, "args": [], "cls": "iteration",
            "line": "iter " + vlib.hx(recv),
            "stmt": "{ var r = []; for c in %s { r.push(c); } out(r); }" % yl_str(recv)}


def strings_upto(k):
    out = [""]
    layer = [""]
    for _ in range(k):
        layer = [s + c for s in layer for c in ALPHA]
        out += layer
    return out


SPECIALS = [0.5, -0.0, NAN, INF, -INF, float(I63), -float(I63), float(2 ** 53 + 1), -1.5]


def int_args(length):
    return list(range(-length - 2, length + 3))


def special_pairs(length):
    out = []
    for s in SPECIALS:
        out += [(s, 0), (0, s), (s, length), (-length, s), (s, s)]
    out += [(INF, -INF), (-INF, INF), (float(I63), -float(I63)), (-float(I63), float(I63) ), (-0.0, length), (NAN, 0.5)]
    return out


def numeric_special(x):
    x = float(x)
    return x != x or x in (INF, -INF) or x != math.trunc(x) or abs(x) >= 2.0 ** 53 or is_neg_zero(x)


def nontrivial(req):
    """receiver (or constructor input) non-empty, or a numeric argument that is special or a boundary
    (0, +-len, +-(len+-1))."""
    recv = req["recv"]
    if req["op"] == "sfn":
        return any(a[0] == "v" and a[1] for a in req["args"]) or any(a[0] != "v" for a in req["args"]) or not req["args"]
    length = recv if isinstance(recv, int) else len(recv)
    if length > 0:
        return True
    for a in req["args"]:
        if a[0] == "n":
            if numeric_special(a[1]) or abs(a[1]) in (0, length, length + 1, abs(length - 1)):
                return True
        else:
            return True
    return False


CLASS_RECV = ["0", "9", "f", "F", "g", "G", "z", "Z", "A", "@", "[", "`", "{", "/", ":", " ", "a1", "1a", "12", "ab",
              "aZ", "fF09", "0x1f", "٣", "é1", "1é", "a€", "Ａ", "１", "a b", "-1", "1.5", "1e3", "inf", "NaN", "+1",
              " 1", "1 ", "0x10", "1_0", "€", ".5", "5."]
NONSTRING_ARGS = [NIL, TRUE, N(1), V([]), V([97]), X]
NONNUMBER_ARGS = [NIL, FALSE, S("1"), S(""), V([0]), X]


NUM_TEXTS = ["0", "-0", "+0", "-00", "-000", "00", "-0.0", "0.0", "-0.", "-.0", "0e0", "-0e0", "-0e5", "1", "-1", "+1", "007", "-007", "1.5", "-1.5", "1.", ".5", "-.5", "+.5",
             "1e3", "1E3", "1e+3", "1e-3", "-1e-3", "1.5e300", "1e308", "1e309", "-1e309", "1e-323", "1e-324", "4.9e-324", "2.4e-324", "2.5e-324", "1e-400", "-1e-400",
             "9007199254740992", "9007199254740993", "-9007199254740993", "9223372036854775807", "9223372036854775808", "-9223372036854775808", "-9223372036854775809",
             "18446744073709551616", "123456789012345678901234567890", "0.1", "0.30000000000000004", "1.7976931348623157e308", "1.7976931348623159e308",
             "inf", "-inf", "+inf", "Inf", "INF", "infinity", "-Infinity", "nan", "NaN", "-nan", "+NaN",
             "", " ", "-", "+", ".", "e", "e5", "1e", "1e+", "1e5.5", " 1", "1 ", "1_0", "0x10", "1.2.3", "--1", "+-1", "12a", "1,5", "١", "１", "infinit", "na", "in", "1f", "1d"]


def gen_requests(rng, thorough):
    K = 3 if thorough else 2
    strs = [s.encode("utf-8") for s in strings_upto(K)]
    small = [s.encode("utf-8") for s in strings_upto(2)]
    reqs = []

    # --- indexing / slicing / assignment
    seq_lengths = list(range(0, 4 * K + 1))
    for s in strs:
        L = len(s)
        for x in int_args(L) + SPECIALS:
            reqs.append(mk_idx("str", s, x))
        ints = int_args(L)
        for b in ints:
            for e in ints:
                reqs.append(mk_rng("str", s, b, e))
        for b, e in special_pairs(L):
            reqs.append(mk_rng("str", s, b, e))
    for kind in ("vec", "tuple"):
        for n in seq_lengths:
            for x in int_args(n) + SPECIALS:
                reqs.append(mk_idx(kind, n, x))
            ints = int_args(n)
            for b in ints:
                for e in ints:
                    reqs.append(mk_rng(kind, n, b, e))
            for b, e in special_pairs(n):
                reqs.append(mk_rng(kind, n, b, e))
    for n in seq_lengths:
        for x in int_args(n) + SPECIALS:
            reqs.append(mk_set(n, x))
    # a long vec/tuple: the far boundaries
    for kind, n in (("vec", 300), ("tuple", 255)):
        for x in [0, 1, n - 1, n, n + 1, -1, 1 - n, -n, -n - 1, 2 ** 31, -2 ** 31, 2 ** 32, 2 ** 63, -2 ** 63]:
            reqs.append(mk_idx(kind, n, x))
        for b, e in [(0, n), (0, n + 1), (n - 1, n), (n, n), (-n, -1), (-n - 1, 0), (n - 2, -1), (n - 10, 10), (-1, n)]:
            reqs.append(mk_rng(kind, n, b, e))
    reqs.append(mk_set(300, -300))
    reqs.append(mk_set(300, 300))

    # --- one character for EVERY valid UTF-8 lead byte (C2..DF, E0..EF, F0..F4) plus the extremes of each length class:
    # the 4-character alphabet above exercises only four lead bytes
    lead_chars = []
    for lead in range(0xC2, 0xE0):
        lead_chars.append(chr((lead - 0xC0) << 6))
    for lead in range(0xE0, 0xF0):
        cp = (lead - 0xE0) << 12
        if cp < 0x800:
            cp = 0x800
        if 0xD800 <= cp <= 0xDFFF:
            cp = 0xD7FF
        lead_chars.append(chr(cp))
    for lead in range(0xF0, 0xF5):
        cp = (lead - 0xF0) << 18
        lead_chars.append(chr(max(cp, 0x10000)))
    lead_chars += ["\u0080", "\u07ff", "\u0800", "\ud7ff", "\ue000", "\uffff", "\U00010000", "\U0010ffff"]
    step = 1 if thorough else 2
    for k, ch in enumerate(dict.fromkeys(lead_chars)):
        for text in (("a" + ch, ch + "b") if (k % step) else ("a" + ch + "b", ch + ch)):
            sb = text.encode("utf-8")
            L = len(sb)
            for x in int_args(L):
                reqs.append(mk_idx("str", sb, x))
            for b in range(0, L + 1):
                for e in range(b, L + 1):
                    reqs.append(mk_rng("str", sb, b, e))
            reqs.append(mk_iter(sb))
            for fn in ("len", "count_chars", "to_bytes", "to_code_points"):
                reqs.append(mk_str(fn, sb, []))
            for x in range(0, len(text) + 2):
                reqs.append(mk_str("char_byte_index", sb, [N(x)]))
            reqs.append(mk_str("find", sb, [("s", ch.encode("utf-8")), N(0)]))
            reqs.append(mk_str("split", sb, [("s", ch.encode("utf-8"))]))
            reqs.append(mk_str("replace", sb, [("s", ch.encode("utf-8")), S("x")]))
            reqs.append(mk_sfn("from_utf8", [V(list(sb))]))
            reqs.append(mk_sfn("from_code_points", [V([ord(c) for c in text])]))

    # --- natives
    extra = ["aaa", "aaaa", "aéa", "€a€", "😀😀a", "ééé", "aé€😀", "😀€éa", "a,b,,c", ",a,", "abab", "a😀a😀a"]
    r2 = rng.fork("extra-recv")
    for _ in range(24 if thorough else 8):
        extra.append("".join(r2.choice(ALPHA) for _ in range(3 + r2.below(3))))
    extra = [s.encode("utf-8") for s in dict.fromkeys(extra)]
    recvs = strs + [s for s in extra if s not in set(strs)]
    class_recv = [s.encode("utf-8") for s in CLASS_RECV]
    # texts of numbers for to_num: both zeros in integer and fraction spellings, signs, leading zeros, fractions without a digit on one side,
    # exponents, the special names in several cases, boundary magnitudes, and texts other parsers accept but this one must refuse
    for t in NUM_TEXTS:
        reqs.append(mk_str("to_num", t.encode("utf-8"), []))
    zero_fns = [f for f, a in STR_ARITY.items() if a == 0]
    for s in recvs + class_recv:
        for fn in zero_fns:
            reqs.append(mk_str(fn, s, []))
        reqs.append(mk_iter(s))
    for s in recvs:
        for fn in zero_fns:
            reqs.append(mk_str(fn, s, [N(0)]))
            reqs.append(mk_str(fn, s, [NIL, S("a")]))
        nchars = len(s.decode("utf-8"))
        for x in int_args(nchars) + SPECIALS:
            reqs.append(mk_str("char_byte_index", s, [N(x)]))
        for a in NONNUMBER_ARGS:
            reqs.append(mk_str("char_byte_index", s, [a]))
        reqs.append(mk_str("char_byte_index", s, []))
        reqs.append(mk_str("char_byte_index", s, [N(0), N(0)]))
    # searching: EVERY text of up to 5 (thorough: 6) characters over a two-letter alphabet x every pattern of up to 3 (4) characters - patterns
    # with repeated prefixes against texts with one repetition more, overlapping occurrences, occurrences that begin inside a failed partial
    # match - in one-byte and in multi-byte spelling
    import itertools
    maxh, maxn = (6, 4) if thorough else (5, 3)
    for alpha in (("a", "b"), ("\u00e9", "\u20ac")):
        texts = ["".join(t) for n in range(1, maxh + 1) for t in itertools.product(alpha, repeat=n)]
        pats = ["".join(t) for n in range(1, maxn + 1) for t in itertools.product(alpha, repeat=n)]
        for tx in texts:
            tb = tx.encode("utf-8")
            for pt in pats:
                if len(pt) > len(tx):
                    continue
                pb = pt.encode("utf-8")
                reqs.append(mk_str("find", tb, [("s", pb), N(0)]))
                if len(pt) >= 2:
                    reqs.append(mk_str("find", tb, [("s", pb), N(len(alpha[0].encode("utf-8")))]))
                    reqs.append(mk_str("replace", tb, [("s", pb), ("s", b"X")]))
                    reqs.append(mk_str("split", tb, [("s", pb)]))
    sub_small = [x for x in small]
    r3 = rng.fork("subs")
    for s in recvs:
        L = len(s)
        text = s.decode("utf-8")
        subs = list(sub_small)
        if len(text) >= 3:
            own = {text[i:j] for i in range(len(text)) for j in range(i + 3, len(text) + 1)}
            subs += [o.encode("utf-8") for o in sorted(own)][:6]
            for _ in range(3):
                subs.append("".join(r3.choice(ALPHA) for _ in range(3)).encode("utf-8"))
        subs = list(dict.fromkeys(subs))
        for sub in subs:
            for x in int_args(L):
                reqs.append(mk_str("find", s, [("s", sub), N(x)]))
            for new in (b"", b"a", "€".encode(), "éa".encode(), sub + sub):
                reqs.append(mk_str("replace", s, [("s", sub), ("s", new)]))
            reqs.append(mk_str("split", s, [("s", sub)]))
            reqs.append(mk_str("starts_with", s, [("s", sub)]))
            reqs.append(mk_str("ends_with", s, [("s", sub)]))
        for sub in (b"a", "é".encode(), b""):
            for x in SPECIALS:
                reqs.append(mk_str("find", s, [("s", sub), N(x)]))
        for a in NONSTRING_ARGS:
            reqs.append(mk_str("find", s, [a, N(0)]))
            reqs.append(mk_str("find", s, [a, NIL]))
            reqs.append(mk_str("replace", s, [a, S("a")]))
            reqs.append(mk_str("replace", s, [S("a"), a]))
            reqs.append(mk_str("replace", s, [S(""), a]))
            reqs.append(mk_str("replace", s, [a, a]))
            reqs.append(mk_str("split", s, [a]))
            reqs.append(mk_str("starts_with", s, [a]))
            reqs.append(mk_str("ends_with", s, [a]))
        for a in NONNUMBER_ARGS:
            reqs.append(mk_str("find", s, [S("a"), a]))
            reqs.append(mk_str("find", s, [S(""), a]))
        for fn in ("find", "replace"):
            reqs.append(mk_str(fn, s, []))
            reqs.append(mk_str(fn, s, [S("a")]))
            reqs.append(mk_str(fn, s, [S("a"), N(0), N(0)]))
            reqs.append(mk_str(fn, s, [S(""), NIL, X]))
        for fn in ("split", "starts_with", "ends_with"):
            reqs.append(mk_str(fn, s, []))
            reqs.append(mk_str(fn, s, [S("a"), S("a")]))

    # --- static constructors
    vecs = []
    for s in small + extra:
        vecs.append(list(s))
    vecs += [[b] for b in range(256)]
    vecs += MALFORMED
    lead = [0x00, 0x7F, 0x80, 0xBF, 0xC0, 0xC1, 0xC2, 0xDF, 0xE0, 0xE1, 0xEC, 0xED, 0xEE, 0xEF, 0xF0, 0xF1, 0xF3, 0xF4, 0xF5,
            0xF7, 0xF8, 0xFB, 0xFC, 0xFE, 0xFF]
    second = [0x00, 0x7F, 0x80, 0x8F, 0x90, 0x9F, 0xA0, 0xBF, 0xC0, 0xFF]
    if thorough:
        vecs += [[a, b] for a in range(256) for b in range(256)]
    else:
        vecs += [[a, b] for a in lead for b in second]
    for a in (0xE0, 0xE1, 0xED, 0xEE, 0xEF, 0xF0, 0xF1, 0xF4):
        for b in ((0x7F, 0x80, 0x8F, 0x90, 0x9F, 0xA0, 0xBF, 0xC0) if not thorough else range(0x70, 0xD0)):
            for c in (0x7F, 0x80, 0xBF, 0xC0):
                vecs.append([a, b, c])
                if a >= 0xF0:
                    for d in (0x7F, 0x80, 0xBF, 0xC0):
                        vecs.append([a, b, c, d])
                        vecs.append([0x61, a, b, c, d, 0x61])
    seen = set()
    uvecs = []
    for v in vecs:
        t = tuple(v)
        if t not in seen:
            seen.add(t)
            uvecs.append(v)
    for v in uvecs:
        reqs.append(mk_sfn("from_utf8", [V(v)]))
        if len(v) <= 1 or len(reqs) % 3 == 0 or not thorough:
            reqs.append(mk_sfn("from_ascii", [V(v)]))
    cps = [0, 1, 0x7F, 0x80, 0x85, 0x2028, 0x2029, 0xFEFF, 0x7FF, 0x800, 0xFFF, 0x1000, 0xD7FF, 0xD800, 0xDBFF, 0xDC00, 0xDFFF, 0xE000, 0xFFFD, 0xFFFE,
           0xFFFF, 0x10000, 0x1F600, 0x10FFFF, 0x110000, 0x1FFFFF, 0x200000, 2 ** 31 - 1, 2 ** 31, 4294967294, 4294967295,
           4294967296, 2 ** 53, float(I63), 1e24]
    for c in cps:
        reqs.append(mk_sfn("from_code_points", [V([c])]))
        reqs.append(mk_sfn("from_code_points", [V([0x61, c, 0x20AC])]))
    for s in small + extra:
        reqs.append(mk_sfn("from_code_points", [V([ord(c) for c in s.decode("utf-8")])]))
    odd_items = [-1, -0.0, 0.5, 127.5, 255.5, 256, 257, 1000, -INF, INF, NAN, 1e24, -1e24, float(I63)]
    for fn in ("from_ascii", "from_utf8", "from_code_points"):
        for x in odd_items:
            reqs.append(mk_sfn(fn, [V([x])]))
            reqs.append(mk_sfn(fn, [V([0x61, x])]))
            reqs.append(mk_sfn(fn, [V([0xFF, x])]))          # invalid byte / code point first, bad item second
            reqs.append(mk_sfn(fn, [V([x, NIL])]))
        for it in (NIL, TRUE, S("a"), S(""), X):
            reqs.append(mk_sfn(fn, [("v", [it])]))
            reqs.append(mk_sfn(fn, [("v", [N(0x61), it])]))
            reqs.append(mk_sfn(fn, [("v", [N(256.5), it])]))
            reqs.append(mk_sfn(fn, [("v", [it, N(-1)])]))
        reqs.append(mk_sfn(fn, [V([])]))
        for a in (NIL, TRUE, N(65), S("a"), S(""), X):
            reqs.append(mk_sfn(fn, [a]))
        reqs.append(mk_sfn(fn, []))
        reqs.append(mk_sfn(fn, [V([65]), V([65])]))
        reqs.append(mk_sfn(fn, [NIL, NIL, NIL]))
    for s in small + extra + class_recv:
        reqs.append(mk_sfn("from", [("s", s)]))
    for a in (NIL, TRUE, FALSE, N(1), N(-0.0), N(0.5), N(NAN), N(INF), N(1e24), V([]), V([1, 2]), X):
        reqs.append(mk_sfn("from", [a]))
    reqs.append(mk_sfn("from", []))
    reqs.append(mk_sfn("from", [S("a"), S("b")]))

    # de-duplicate by model request line, keep order
    seen = set()
    out = []
    for r in reqs:
        if r["line"] not in seen:
            seen.add(r["line"])
            out.append(r)
    return out


MALFORMED = [
    [0x80], [0xBF], [0xC3], [0xC3, 0x28], [0xC3, 0xA9], [0xC2, 0x80], [0xDF, 0xBF], [0xE2, 0x82], [0xE2, 0x28, 0xA1],
    [0xE2, 0x82, 0x28], [0xE2, 0x82, 0xAC], [0xF0, 0x9F, 0x98], [0xF0, 0x9F], [0xF0], [0xF0, 0x28, 0x8C, 0xBC],
    [0xF0, 0x90, 0x28, 0xBC], [0xF0, 0x28, 0x8C, 0x28], [0xF0, 0x9F, 0x98, 0x80],
    [0xC0, 0x80], [0xC0, 0xAF], [0xC1, 0xBF], [0xE0, 0x80, 0x80], [0xE0, 0x80, 0xAF], [0xE0, 0x9F, 0xBF], [0xE0, 0xA0, 0x80],
    [0xF0, 0x80, 0x80, 0x80], [0xF0, 0x80, 0x80, 0xAF], [0xF0, 0x8F, 0xBF, 0xBF], [0xF0, 0x90, 0x80, 0x80],
    [0xED, 0x9F, 0xBF], [0xED, 0xA0, 0x80], [0xED, 0xAF, 0xBF], [0xED, 0xB0, 0x80], [0xED, 0xBF, 0xBF], [0xEE, 0x80, 0x80],
    [0xED, 0xA0, 0xBD, 0xED, 0xB8, 0x80],
    [0xEF, 0xBF, 0xBD], [0xEF, 0xBF, 0xBE], [0xEF, 0xBF, 0xBF], [0xEF, 0xBB, 0xBF],
    [0xF4, 0x8F, 0xBF, 0xBF], [0xF4, 0x90, 0x80, 0x80], [0xF5, 0x80, 0x80, 0x80], [0xF7, 0xBF, 0xBF, 0xBF],
    [0xF8, 0x88, 0x80, 0x80, 0x80], [0xFC, 0x84, 0x80, 0x80, 0x80, 0x80], [0xFE], [0xFF], [0xFE, 0xFF], [0xFF, 0xFE],
    [0x61, 0xE2, 0x82, 0xAC, 0x80], [0x61, 0x80, 0x61], [0xE2, 0x82, 0xAC, 0xE2, 0x82], [0x61, 0xC3], [0xC3, 0xA9, 0xA9],
    [0x80, 0x80], [0xE2, 0x82, 0xAC, 0xF0, 0x9F, 0x98, 0x80, 0xFF], [0x00], [0x00, 0x61, 0x00], [0x7F], [0x0A, 0x0D, 0x09],
    [0x24, 0x7B, 0x7D, 0x22, 0x5C],
    # line-separator-like characters (NEL, LS, PS, and C1 controls): valid UTF-8 that naive line splitting breaks on
    [0xC2, 0x85], [0xE2, 0x80, 0xA8], [0xE2, 0x80, 0xA9], [0xC2, 0x9C], [0x61, 0xC2, 0x85, 0x62, 0xE2, 0x80, 0xA8, 0x63],
]

# Operations the driver protocol has no request for: fixed expectations taken from vm.rs (kind, template id).
EXTRAS = [
    ('out("aé"[nil]);', ("err", "TypeError", "expected_int_or_range", ())),
    ('out("aé"["a"]);', ("err", "TypeError", "expected_int_or_range", ())),
    ('out("aé"[true]);', ("err", "TypeError", "expected_int_or_range", ())),
    ('out("aé"[[0]]);', ("err", "TypeError", "expected_int_or_range", ())),
    ('out("aé"[(0,)]);', ("err", "TypeError", "expected_int_or_range", ())),
    ('out([0, 1][nil]);', ("err", "TypeError", "expected_int_or_range", ())),
    ('out([0, 1]["0"]);', ("err", "TypeError", "expected_int_or_range", ())),
    ('out((0, 1)[true]);', ("err", "TypeError", "expected_int_or_range", ())),
    ('out((0, 1)[[0]]);', ("err", "TypeError", "expected_int_or_range", ())),
    ('out(nil[0]);', ("err", "TypeError", "not_indexable", ())),
    ('out(true[0]);', ("err", "TypeError", "not_indexable", ())),
    ('out((1)[0]);', ("err", "TypeError", "not_indexable", ())),
    ('out((0..3)[0]);', ("err", "TypeError", "not_indexable", ())),
    ('out({1: 2}[1]);', ("err", "TypeError", "not_indexable", ())),
    ('out(nil[0..1]);', ("err", "TypeError", "not_indexable", ())),
    ('{ var t = (0, 1); t[0] = 1; out(t); }', ("err", "TypeError", "only_vec_assignable", ())),
    ('{ var s = "ab"; s[0] = "c"; out(s); }', ("err", "TypeError", "only_vec_assignable", ())),
    ('{ var s = nil; s[0] = 1; out(s); }', ("err", "TypeError", "only_vec_assignable", ())),
    ('{ var v = [0, 1]; v[nil] = 1; out(v); }', ("err", "TypeError", "expected_integer", ())),
    ('{ var v = [0, 1]; v["0"] = 1; out(v); }', ("err", "TypeError", "expected_integer", ())),
    ('{ var v = [0, 1]; v[0..1] = 1; out(v); }', ("err", "TypeError", "expected_integer", ())),
    ('out("aé"[nil..1]);', ("err", "TypeError", "expected_integer", ())),
    ('out("aé"[0..nil]);', ("err", "TypeError", "expected_integer", ())),
    ('out("aé"["a".."b"]);', ("err", "TypeError", "expected_integer", ())),
    ('out([0, 1][0..true]);', ("err", "TypeError", "expected_integer", ())),
    ('{ var r = 1..3; out("aé€"[r]); }', ("ok", ("s", "é".encode("utf-8")))),
    ('{ var r = (-3)..6; out("aé€"[r]); }', ("ok", ("s", "€".encode("utf-8")))),
    ('{ var r = 1..3; out(["x", "é", "€", "😀"][r]); }', ("ok", ("v", (("s", "é".encode()), ("s", "€".encode()))))),
    ('{ var r = 1..3; out(("x", "é", "€", "😀")[r]); }', ("ok", ("t", (("s", "é".encode()), ("s", "€".encode()))))),
    ('out("a😀b"[1..5][0]);', ("ok", ("s", "😀".encode("utf-8")))),
    ('out(("a😀b" + "é")[5..8]);', ("ok", ("s", "bé".encode("utf-8")))),
    ('{ var v = [0, 1, 2]; var w = v[0..2]; w[0] = nil; out((v, w)); }',
     ("ok", ("t", (("v", (("n", bits(0)), ("n", bits(1)), ("n", bits(2)))), ("v", (("nil",), ("n", bits(1)))))))),
    # (a tuple holding a StopIter cannot be printed by `show`: for-in ends at it)
    ('{ var it = "é".iter(); var a = it.next(); var b = it.next(); var c = it.next(); out((a, show(b), show(c))); }',
     ("ok", ("t", (("s", "é".encode()), ("s", b"S"), ("s", b"S"))))),
    ('out("aé".iter().next(1));', ("err", "TypeError", "num_args", ("0", "1"))),
]


# ----------------------------------------------------------------------------------------------
# results are NEW objects; escape sequences of string literals

def fresh_result_cases():
    """A slice of a vector is a new vector, whatever the range: the slice and the receiver are changed independently afterwards and
    both are shown.  Every vector of 0..4 elements x every integer range that the reference accepts.  Likewise the vectors the
    string functions hand out (asked twice; the first answer is changed before the second is taken)."""
    out = []
    for n in range(0, 5):
        for b in range(-n - 1, n + 2):
            for e in range(-n - 1, n + 2):
                try:
                    sl = ref_range("vec", n, N(float(b)), N(float(e)))
                except RefErr:
                    continue
                items = list(sl[1])
                v_after = ("v", tuple(ref_num(i) for i in range(n)) + (("b", True),))
                w_after = ("v", tuple(items) + (("nil",),))
                out.append(("{ var v = %s; var w = v[%s..%s]; w.push(nil); v.push(true); out((v, w)); }" % (seq_yl("vec", n), yl_paren(float(b)), yl_paren(float(e))),
                            ("ok", ("t", (v_after, w_after)))))
                if items:
                    w2 = ("v", (("nil",),) + tuple(items[1:]))
                    out.append(("{ var v = %s; var w = v[%s..%s]; w[0] = nil; out((v, w)); }" % (seq_yl("vec", n), yl_paren(float(b)), yl_paren(float(e))),
                                ("ok", ("t", (("v", tuple(ref_num(i) for i in range(n))), w2)))))
                    v2 = ("v", tuple(("nil",) if k == (b % n if b < 0 else b) else ref_num(k) for k in range(n)))
                    out.append(("{ var v = %s; var w = v[%s..%s]; v[%s] = nil; out((v, w)); }" % (seq_yl("vec", n), yl_paren(float(b)), yl_paren(float(e)), yl_num(float(b))),
                                ("ok", ("t", (v2, ("v", tuple(items)))))))
    for recv, call, first in (("a,b", 'split(",")', ("v", (("s", b"a"), ("s", b"b")))), ("ab", "to_bytes()", ("v", (ref_num(97), ref_num(98)))),
                              ("ab", "to_code_points()", ("v", (ref_num(97), ref_num(98)))), ("", "to_bytes()", ("v", ())),
                              ("", 'split(",")', ("v", (("s", b""),)))):
        out.append(('{ var s = "%s"; var x = s.%s; x.push(nil); out(s.%s); }' % (recv, call, call), ("ok", first)))
    return out


U_PAIR_BYTES = [0x00, 0x28, 0x41, 0x7F, 0x80, 0xA9, 0xBF, 0xC0, 0xC1, 0xC2, 0xC3, 0xDF, 0xE0, 0xED, 0xEF, 0xF0, 0xF4, 0xFF]
U_QUADS = [[0xF0, 0x9F, 0x98, 0x80], [0xF0, 0x90, 0x80, 0x80], [0xF4, 0x8F, 0xBF, 0xBF], [0xF4, 0x90, 0x80, 0x80], [0xF0, 0x80, 0x80, 0x80],
           [0xF0, 0x8F, 0xBF, 0xBF], [0xE2, 0x82, 0xAC, 0x41], [0x41, 0xE2, 0x82, 0xAC], [0xC3, 0xA9, 0xC3, 0xA9], [0x41, 0x42, 0x43, 0x44],
           [0x00, 0x00, 0x00, 0x00], [0x7F, 0x7F, 0x7F, 0x7F], [0xED, 0xA0, 0x80, 0x41], [0xED, 0x9F, 0xBF, 0x41], [0xE2, 0x82, 0x41, 0x41],
           [0xFF, 0xFF, 0xFF, 0xFF], [0xC0, 0x80, 0xC0, 0x80], [0xC2, 0x80, 0xDF, 0xBF], [0x41, 0xC3, 0xA9, 0x42], [0x41, 0x42, 0xC3, 0xA9],
           [0x41, 0x42, 0x43, 0xC3], [0xF5, 0x80, 0x80, 0x80], [0xEF, 0xBF, 0xBF, 0x0A], [0xE0, 0xA0, 0x80, 0x22], [0xE0, 0x9F, 0xBF, 0x41],
           [0x24, 0x7B, 0x7D, 0x5C]]


def escape_cases():
    """String literals written with escapes, against the byte-exact reading of scanner.rs: backslash-x HH is the character U+00HH (one
    byte below 0x80, else the two bytes `C3, HH & BF`), backslash-u HHHH / backslash-U HHHHHHHH are two / four RAW bytes that must form
    valid UTF-8; anything else is a compile error.  All 256 x-escapes, 18x18 u-pairs over the boundary bytes, 26 U-quadruples; lower-
    and upper-case digits."""
    out = []

    def want(bs):
        try:
            bytes(bs).decode("utf-8", "strict")
        except UnicodeDecodeError:
            return ("compile-error",)
        return ("ok", ("v", tuple(ref_num(b) for b in bs)))
    for hh in range(256):
        bs = [hh] if hh < 0x80 else [0xC3, hh & 0xBF]
        for text in sorted({"%02x" % hh, "%02X" % hh}):
            out.append(('out("\\x%s".to_bytes());' % text, want(bs)))
        out.append(('out("a\\x%02xb".to_bytes());' % hh, want([0x61] + bs + [0x62])))
    for a in U_PAIR_BYTES:
        for b in U_PAIR_BYTES:
            out.append(('out("\\u%02x%02X".to_bytes());' % (a, b), want([a, b])))
    for q in U_QUADS:
        out.append(('out("\\U%02x%02x%02X%02X".to_bytes());' % tuple(q), want(q)))
    return out


def run_fixed(ctx, col, cases, cls):
    """Runs (statement, expectation) pairs whose expectation is computed from the reference rules; returns the number of evaluations."""
    real = run_statements(ctx.runner, [s for s, _ in cases])
    for (s, exp), st in zip(cases, real):
        if exp[0] == "compile-error":
            ok = isinstance(st, dict) and st.get("status") == "err" and st.get("kind") == "CompileError"
            shown = json.dumps(st)[:300]
        else:
            ans, viol = canon_real_step(st)
            hard = [v for v in viol if v != "output-before-error"]
            ok = not hard and ans[0] == "ok" and ans[1] == exp[1]
            shown = show_answer(ans)
        if not ok:
            col.add({"request": None, "program": program_of(s), "statement": s, "route": "step", "real": shown,
                     "expected": "compile error" if exp[0] == "compile-error" else show_answer(exp), "reference": None, "cls": cls,
                     "what": "%s: `%s` gives %s, the reference rules give %s" % (cls, s, shown, "a compile error" if exp[0] == "compile-error" else show_answer(exp)),
                     "signature": cls, "failing_input": True})
    return len(cases)


# ----------------------------------------------------------------------------------------------
# running

def run_cases(runner, case_lines, timeout=900):
    """Like vlib.run_real, but output lines are split at \\n only (str.splitlines also splits at U+0085/U+2028/U+2029,
    which strings under test contain) and undecodable output bytes are kept (surrogateescape) instead of raising:
    an invalid-UTF-8 string is exactly what this property must be able to report."""
    results = []
    i = 0
    while i < len(case_lines):
        chunk = case_lines[i:]
        data = ("\n".join(chunk) + "\n").encode("utf-8")
        try:
            p = subprocess.run([runner], input=data, stdout=subprocess.PIPE, stderr=subprocess.PIPE, timeout=timeout, env=vlib.ENV)
            raw, rc = p.stdout, p.returncode
        except subprocess.TimeoutExpired as e:
            raw, rc = e.stdout or b"", "timeout"
        parsed = []
        for l in raw.split(b"\n"):
            if not l:
                continue
            try:
                parsed.append(json.loads(l.decode("utf-8", "surrogateescape")))
            except Exception:
                break
        parsed = parsed[:len(chunk)]
        results.extend(parsed)
        if len(parsed) < len(chunk):
            bad = chunk[len(parsed)].split()
            results.append({"id": bad[1] if len(bad) > 1 else "?", "crash": str(rc)})
            i += len(parsed) + 1
        else:
            i += len(chunk)
    return results


def run_statements(runner, stmts, per_case=250, workers=None):
    """Every statement is one `S:` step after the prelude step; returns one step dict (or None) per statement.
    A panic ends its case: the panicking step is reported and the rest of the case is re-run in a new case."""
    results = [None] * len(stmts)
    pending = [list(range(i, min(i + per_case, len(stmts)))) for i in range(0, len(stmts), per_case)]
    prelude = "S:" + vlib.hx(PRELUDE)
    workers = workers or max(1, min(8, (os.cpu_count() or 2) // 2))
    rounds = 0
    while pending and rounds < 200:
        rounds += 1
        lines = [vlib.case_line("g%d" % k, [prelude] + ["S:" + vlib.hx(stmts[i]) for i in grp], steps=5000000)
                 for k, grp in enumerate(pending)]
        chunks = [list(range(i, min(i + 10, len(lines)))) for i in range(0, len(lines), 10)]

        def work(idx):
            return run_cases(runner, [lines[i] for i in idx])
        if workers > 1 and len(chunks) > 1:
            with concurrent.futures.ThreadPoolExecutor(workers) as ex:
                outs = list(ex.map(work, chunks))
        else:
            outs = [work(c) for c in chunks]
        res = [r for o in outs for r in o]
        nxt = []
        for grp, r in zip(pending, res):
            steps = r.get("steps") if isinstance(r, dict) else None
            if not steps:
                # the whole case died (abort / native crash): bisect
                if len(grp) == 1:
                    results[grp[0]] = {"status": "panic", "message": "runner process died: %s" % json.dumps(r)[:200], "printed": []}
                else:
                    h = len(grp) // 2
                    nxt += [grp[:h], grp[h:]]
                continue
            if steps[0].get("status") != "ok":
                raise RuntimeError("the prelude did not run: %s" % json.dumps(steps[0])[:500])
            body = steps[1:]
            for i, st in zip(grp, body):
                results[i] = st
            if len(body) < len(grp):
                rest = grp[len(body):]
                if not body or body[-1].get("status") != "panic":
                    # a step went missing without a reported panic: blame the first missing one
                    results[rest[0]] = {"status": "panic", "message": "step result missing", "printed": []}
                    rest = rest[1:]
                if rest:
                    nxt.append(rest)
        pending = nxt
    return results


def caught_stmt(stmt):
    return 'try { %s } catch e { print("E " + String.from(type(e)) + " " + e.context); }' % stmt


def program_of(stmt):
    return PRELUDE + stmt + "\n"


class Collector:
    def __init__(self):
        self.failures = []
        self.by_sig = {}

    def add(self, f):
        sig = f["signature"]
        self.by_sig[sig] = self.by_sig.get(sig, 0) + 1
        if self.by_sig[sig] <= MAX_FAIL_PER_SIGNATURE:
            self.failures.append(f)


ORACLE_TEXT = {
    "panic": "the interpreter panicked",
    "kind": "an error kind other than IndexError/ValueError/TypeError",
    "invalid-utf8": "a produced string is not valid UTF-8",
    "text-vs-bytes": "the text of the produced string differs from its to_bytes()",
    "output-before-error": "output was printed before the error",
    "unparsable": "the printed result could not be read back",
}


def judge(col, req, stmt, real, viol, model, ref, how):
    """Compares one real answer with the model's and the reference's; appends failures."""
    base = {"request": req.get("line"), "program": program_of(stmt), "statement": stmt, "route": how,
            "real": show_answer(real), "expected": show_answer(model) if model else None,
            "reference": show_answer(ref) if ref else None, "cls": req["cls"]}
    hard = [v for v in viol if v in ("panic", "kind", "invalid-utf8", "text-vs-bytes", "unparsable")]
    for v in hard:
        f = dict(base)
        f.update({"what": "%s: %s" % (req["cls"], ORACLE_TEXT[v]), "signature": "%s: %s" % (v, req["cls"]),
                  "failing_input": True})
        col.add(f)
    if hard:
        return False                      # reported under the oracle's own signature; no second failure for the mismatch
    ref_ok = ref is None or same_answer(real, ref)
    if model is not None and model[0] in ("ok", "err"):
        if not same_answer(real, model):
            f = dict(base)
            # the byte reference arbitrates; a fixed expectation (EXTRAS, taken from the documented behaviour) needs none
            wrong_real = (ref is not None and not ref_ok) or bool(req.get("fixed"))
            f.update({"what": "%s: implementation answers %s, model answers %s%s" % (
                req["cls"], show_answer(real), show_answer(model),
                "" if ref is None else " (byte reference: %s)" % show_answer(ref)),
                "signature": req["cls"] if wrong_real else "model-vs-real " + req["cls"],
                "failing_input": wrong_real})
            col.add(f)
            return False
        if not ref_ok:
            f = dict(base)
            f.update({"what": "%s: implementation and model agree on %s but the byte reference says %s" % (
                req["cls"], show_answer(real), show_answer(ref)),
                "signature": "reference-vs-both " + req["cls"], "failing_input": True})
            col.add(f)
            return False
        return True
    if model is not None and model[0] in ("fault", "bad"):
        f = dict(base)
        f.update({"what": "%s: model driver answered %s" % (req["cls"], show_answer(model)),
                  "signature": "model %s %s" % (model[0], req["cls"]), "failing_input": False})
        col.add(f)
        return False
    # unsupported by the model / no model: reference (when there is one) and the oracle only
    if not ref_ok:
        f = dict(base)
        f.update({"what": "%s: implementation answers %s, byte reference says %s" % (req["cls"], show_answer(real), show_answer(ref)),
                  "signature": req["cls"], "failing_input": True})
        col.add(f)
        return False
    return True


def correspondence(ctx, model_ok=True):
    rng = ctx.rng.fork("c13")
    broken = []
    col = Collector()
    reqs = gen_requests(rng, ctx.thorough)

    answers = None
    if model_ok:
        try:
            answers = vlib.run_model("str", [r["line"] for r in reqs])
        except Exception as e:
            broken.append("model driver str: %s" % e)
    stmts = [r["stmt"] for r in reqs]
    # the in-language route: a deterministic sample through try/catch
    stride = 4 if ctx.thorough else 3
    offset = rng.below(stride)
    caught_idx = [i for i in range(len(reqs)) if i % stride == offset]
    extras = list(EXTRAS)
    all_stmts = stmts + [caught_stmt(stmts[i]) for i in caught_idx] + [s for s, _ in extras] + [caught_stmt(s) for s, _ in extras]
    real = run_statements(ctx.runner, all_stmts)

    counts = {}
    err_vs_ok = {"ok": 0, "err": 0}
    unsupported = 0
    unrecognised = {}
    evaluations = 0
    nontriv = 0
    agree_samples = {}
    ref_covered = 0
    model_parsed = []
    for i, r in enumerate(reqs):
        m = None
        if answers is not None:
            try:
                m = parse_model_answer(answers[i])
            except ValueError as e:
                broken.append("model driver answer unreadable: %s" % e)
                answers = None
        model_parsed.append(m)
    if answers is None:
        model_parsed = [None] * len(reqs)

    def account(req, stmt, st, m, ref, how, caught):
        nonlocal evaluations
        ans, viol = canon_real_step(st, caught=caught)
        if ans[0] == "err" and ans[2] is None:
            unrecognised[ans[4]] = unrecognised.get(ans[4], 0) + 1
        ok = judge(col, req, stmt, ans, viol, m, ref, how)
        evaluations += 1
        return ans, ok

    for i, r in enumerate(reqs):
        m = model_parsed[i]
        ref = reference(r)
        if ref is not None:
            ref_covered += 1
        if m is not None and m[0] == "unsupported":
            unsupported += 1
        ans, ok = account(r, stmts[i], real[i], m, ref, "step", False)
        key = r["line"].split(" ")[0] + (" " + r["kind"] if r["op"] in ("idx", "rng") else "") + \
            (" " + r["fn"] if r["op"] in ("str", "sfn") else "")
        counts[key] = counts.get(key, 0) + 1
        if ans[0] in err_vs_ok:
            err_vs_ok[ans[0]] += 1
        if nontrivial(r):
            nontriv += 1
        if ok and m is not None and r["cls"] not in agree_samples and nontrivial(r) and (i * 7) % 5 == 0:
            agree_samples[r["cls"]] = {"request": r["line"], "statement": stmts[i], "model": answers[i] if answers else None,
                                       "real": show_answer(ans)}
    base = len(reqs)
    for k, i in enumerate(caught_idx):
        account(reqs[i], all_stmts[base + k], real[base + k], model_parsed[i], reference(reqs[i]), "try/catch", True)
    base += len(caught_idx)
    for k, (s, exp) in enumerate(extras):
        pseudo = {"cls": "extra " + ("index" if "[" in s else "iter"), "line": None, "fixed": True}
        expm = exp if exp[0] == "ok" else ("err", exp[1], exp[2], exp[3])
        account(pseudo, s, real[base + k], expm, None, "step", False)
        account(pseudo, all_stmts[base + len(extras) + k], real[base + len(extras) + k], expm, None, "try/catch", True)

    fresh = fresh_result_cases()
    escapes = escape_cases()
    evaluations += run_fixed(ctx, col, fresh, "fresh result")
    evaluations += run_fixed(ctx, col, escapes, "escape decoding")

    if unrecognised:
        ctx.notes.append("C13: %d error message text(s) match no known template (kind still compared): %s" % (
            len(unrecognised), sorted(unrecognised)[:3]))
    samples = [agree_samples[k] for k in sorted(agree_samples)][:8]
    cov = {
        "evaluations": evaluations,
        "distinct_nontrivial": nontriv,
        "rule": "enumerated: all strings of <= %d characters over {a,é,€,😀} x every integer in [-len-2,len+2] (len in bytes) "
                "and {0.5,-0,NaN,+-inf,+-2^63,2^53+1,-1.5} for index / all integer pairs + special pairs for ranges, vec and "
                "tuple of every length 0..%d (+300), vec assignment, every String native x (all strings of <= 2 characters + "
                "own substrings + seeded 3-character strings) x starts/arguments, wrong types and arities, static constructors "
                "over all single bytes, %s byte pairs and every malformed-UTF-8 class; every accepted slice of every vector of <= 4 elements is changed "
                "independently of its receiver (results are new objects); every x-escape and boundary u/U escapes of string "
                "literals against the byte-exact reading; non-trivial = distinct request whose "
                "receiver (or constructor input) is non-empty, or whose numeric argument is special or a boundary "
                "(0, +-len, +-(len+-1)); every request is also sent to a pure-Python byte reference where one exists"
                % (3 if ctx.thorough else 2, 12 if ctx.thorough else 8, "all 65536" if ctx.thorough else "boundary"),
        "exhaustive": True,
        "samples": samples,
        "distinct_requests": len(reqs),
        "requests_by_kind": dict(sorted(counts.items())),
        "real_answers": err_vs_ok,
        "unsupported": unsupported,
        "unsupported_note": "to_num and String.from(number/vec/other) need the number text model (C19); run for the oracle only",
        "through_try_catch": len(caught_idx) + len(extras),
        "fixed_expectation_extras": len(extras),
        "fresh_result_cases": len(fresh),
        "escape_cases": len(escapes),
        "reference_covered": ref_covered,
        "unrecognised_messages": len(unrecognised),
        "failures_by_signature": dict(sorted(col.by_sig.items())),
        "traces_validated_against_impl": evaluations,
    }
    return {"failures": col.failures, "coverage": cov, "broken": broken}


def search(ctx, broken):
    """Targeted search when a proof obligation broke: the thorough space against the oracle and the byte reference."""
    reqs = gen_requests(ctx.rng.fork("c13-search"), True)
    keep = [r for r in reqs if r["op"] in ("idx", "rng", "set", "iter") or (r["op"] == "str" and r["fn"] in ("find", "char_byte_index"))]
    real = run_statements(ctx.runner, [r["stmt"] for r in keep])
    col = Collector()
    for r, st in zip(keep, real):
        ans, viol = canon_real_step(st)
        judge(col, r, r["stmt"], ans, viol, None, reference(r), "step")
    return col.failures[:5]


def replay(ctx, payload):
    prog = payload.get("program")
    if not prog:
        return False, "nothing to replay: " + json.dumps(payload)[:400]
    r = run_cases(ctx.runner, [vlib.case_line("replay", ["S:" + vlib.hx(prog)], steps=5000000)])[0]
    st = (r.get("steps") or [None])[0] if isinstance(r, dict) else None
    ans, viol = canon_real_step(st, caught=payload.get("route") == "try/catch")
    text = ["statement: %s" % payload.get("statement"), "real now: %s" % show_answer(ans)]
    ok = True
    hard = [v for v in viol if v != "output-before-error"]
    if hard:
        ok = False
        text.append("oracle: " + "; ".join(ORACLE_TEXT[v] for v in hard))
    exp = payload.get("expected")
    if exp:
        text.append("model (stored): %s" % exp)
        try:
            m = parse_model_answer(exp)
            if m[0] in ("ok", "err") and not same_answer(ans, m):
                ok = False
                text.append("-> differs from the model's answer")
        except ValueError:
            text.append("(stored model answer unreadable)")
    ref = payload.get("reference")
    if ref:
        text.append("byte reference (stored): %s" % ref)
        try:
            rf = parse_model_answer(ref.replace(" ?", " -"))
            if rf[0] == "err":
                rf = ("err", rf[1], None, ())
            if not same_answer(ans, rf):
                ok = False
                text.append("-> differs from the byte reference")
        except ValueError:
            pass
    return ok, "\n".join(text)
