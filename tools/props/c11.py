"""C11 — strings are equal exactly when their contents are equal (intern table).

Theorems: Yarel.Props.C11 (intern_id_iff_bytes for an arbitrary hash function, invariant, fuel).
Correspondence:
  (a) op sequences with CHOSEN hashes against the real table (hook vm::verif::StringStore) and the model;
  (b) identity through the whole interpreter (real FNV hashes), growth through thousands of strings, fnv model
      vs the real cached hash;
  (c) in-language: one content built by many routes must be == and select the same map entry.
The property's own oracle (identity iff bytes) is independent of the Lean model; the model comparison ties the
model to the code.
"""
import json

import vlib

THEOREM_MODULES = ["Yarel.Props.C11", "Yarel.Props.ModelLimits"]
REQUIRED_THEOREMS = ["intern_id_iff_bytes", "inv_reachable", "find_fuel_enough"]
# the state the models abstract is all the state there is: the fields of the run-time structures, regenerated on every run, are the ones
# the models were written against (Props/StateInventory)
THEOREM_MODULES.append("Yarel.Props.StateInventory.state_of_strings_and_maps")
REQUIRED_THEOREMS += ['state_of_strings_and_maps']
LEVEL = "proof"
ASSUMPTIONS = [
    "model Yarel/Model/Intern.lean transcribes vm.rs string_store + new_gc_obj_string; tie = op-sequence correspondence",
    "Rust std (Vec, String compare) and rustc are trusted",
]
TRUSTED = ["hook vm::verif::StringStore::intern repeats the glue of Vm::new_gc_obj_string with a caller-chosen hash (the glue itself is pinned statement by statement: string_creation_is_lookup_then_insert)"]

ALPHA = ["a", "b", "c", "é", "€", "😀", "0", "_", " "]


# ties between the function bodies translated from the Rust source on every run (Gen/Fns.lean) and the hand-written models
THEOREM_MODULES.append("Yarel.Props.FnsTie.Hash")
REQUIRED_THEOREMS += ['fnv_write_tie']
# the probe loop of the intern table (find_index, ObjStringStore::get), translated from vm.rs on every run
THEOREM_MODULES.append("Yarel.Props.FnsTie.Intern")
REQUIRED_THEOREMS += ['store_find_index_tie', 'store_find_index_is_findIndex', 'store_get_tie']
# the writing half (ObjStringStore::insert, adjust_capacity), translated from vm.rs on every run
THEOREM_MODULES.append("Yarel.Props.FnsTie.InternStoreTie")
REQUIRED_THEOREMS += ['rehash_loop_tie', 'store_adjust_capacity_tie', 'grow_test_exact', 'store_insert_tie', 'store_insert_on_reachable', 'store_get_rel']
# who touches the intern table (inventory regenerated on every run): only new_gc_obj_string, by get and insert; no removal, no other method
THEOREM_MODULES.append("Yarel.Props.InternSites")
REQUIRED_THEOREMS += ['intern_table_is_only_looked_up_and_inserted_into', 'intern_table_methods_are_the_modelled_ones']
REQUIRED_THEOREMS += ['string_creation_is_lookup_then_insert', 'string_objects_are_built_only_there']
USES_GEN = True


def gen_text(rng, maxlen=4):
    n = rng.below(maxlen + 1)
    return "".join(rng.choice(ALPHA) for _ in range(n))


def gen_sequence(rng, profile, length):
    """Returns list of (hash, text) with hash a function of text (a random H of the given profile)."""
    H = {}
    pool_size = max(3, length // 2)
    pool = []
    seen = set()
    while len(pool) < pool_size:
        t = gen_text(rng, 5)
        if t not in seen:
            seen.add(t)
            pool.append(t)
    const = rng.next()

    def h(t):
        if t not in H:
            if profile == "full":          # identical full hashes
                H[t] = const if rng.chance(3, 4) else rng.next()
            elif profile == "lowbits":     # equal low 12 bits, different high bits
                H[t] = (rng.next() & ~0xFFF) | (const & 0xFFF)
            elif profile == "wrap":        # homes near the end of the array for every capacity
                H[t] = (rng.next() & ~0xFFFF) | (0xFFFF - rng.below(3))
            elif profile == "special":     # hash values with a special bit pattern: zero / all ones in the low or high half, single bits, 0 itself
                pats = [0, 1 << 32, 0xFFFFFFFF00000000, 0x00000000FFFFFFFF, 0xFFFFFFFFFFFFFFFF, 1 << 63, (rng.next() & 0xFFFFFFFF) << 32,
                        (rng.next() & 0xFFFF) << 48, rng.next() & 0xFFFFFFFF, (rng.next() | 1) << 32 & 0xFFFFFFFFFFFFFFFF]
                H[t] = rng.choice(pats) if rng.chance(2, 3) else rng.next()
            elif profile == "few":         # hashes from a tiny set
                H[t] = (const + rng.below(3)) & 0xFFFFFFFFFFFFFFFF
            else:
                H[t] = rng.next()
        return H[t]

    seq = []
    for _ in range(length):
        t = rng.choice(pool)
        seq.append((h(t), t))
    return seq


def check_sequence_real(seq, steps):
    """Property oracle on the real table: identity iff bytes, hit iff seen before."""
    first = {}
    addr_owner = {}
    for (hsh, text), st in zip(seq, steps):
        if st.get("status") != "intern":
            return "real step failed: %r" % st
        a = st["addr"]
        if text in first:
            if a != first[text]:
                return "same bytes %r got two identities" % text
            if not st["hit"]:
                return "second creation of %r was not found in the table" % text
        else:
            if a in addr_owner:
                return "different bytes %r and %r share one identity" % (text, addr_owner[a])
            if st["hit"]:
                return "first creation of %r reported as already present" % text
            first[text] = a
            addr_owner[a] = text
    return None


def correspondence(ctx, model_ok=True):
    rng = ctx.rng.fork("c11")
    failures = []
    broken = []
    n_cases = 1200 if ctx.thorough else 700
    profiles = ["full", "lowbits", "wrap", "few", "random", "special"]
    seqs = []
    for i in range(n_cases):
        prof = profiles[i % len(profiles)]
        length = [6, 14, 30, 70, 150][(i // len(profiles)) % 5]
        if ctx.thorough and i % 40 == 0:
            length = 1500
        seqs.append((prof, gen_sequence(rng.fork("seq%d" % i), prof, length)))

    # (a) chosen-hash sequences on the real table
    lines = []
    for i, (prof, seq) in enumerate(seqs):
        steps = ["I:%016x:%s" % (h, vlib.hx(t)) for h, t in seq] + ["IDUMP"]
        lines.append(vlib.case_line("a%d" % i, steps))
    real = vlib.run_real(ctx.runner, lines)
    # model
    mlines = []
    for prof, seq in seqs:
        mlines.append("reset")
        for h, t in seq:
            mlines.append("intern %016x %s" % (h, vlib.hx(t)))
        mlines.append("dump")
    model_out = None
    if model_ok:
        try:
            model_out = vlib.run_model("intern", mlines)
        except Exception as e:
            broken.append("model driver intern: %s" % e)
    pos = 0
    drift = 0
    nontrivial = set()
    ops = 0
    growths = 0
    chain_max = 0
    for i, (prof, seq) in enumerate(seqs):
        r = real[i]
        if "steps" not in r:
            failures.append({"what": "real table run died", "case": lines[i], "observed": r,
                             "signature": "crash intern sequence", "failing_input": True})
            pos += len(seq) + 2
            continue
        steps = r["steps"]
        err = check_sequence_real(seq, steps)
        if err:
            failures.append({"what": "intern table violates identity<->bytes: " + err, "profile": prof,
                             "ops": [["%016x" % h, t] for h, t in seq], "case": lines[i],
                             "signature": "intern identity: " + err.split(" %r")[0], "failing_input": True})
        ops += len(seq)
        dump = steps[-1]
        if dump.get("cap", 4) > 4:
            growths += 1
        if len(set(t for _, t in seq)) >= 3 and len(seq) > len(set(t for _, t in seq)):
            nontrivial.add(json.dumps([["%016x" % h, t] for h, t in seq]))
        if model_out is not None:
            assert model_out[pos] == "ok"
            ids = {}
            for k, ((h, t), st) in enumerate(zip(seq, steps)):
                ans = model_out[pos + 1 + k].split()
                if len(ans) != 2:
                    broken.append("model answered %r" % model_out[pos + 1 + k])
                    break
                mid, mhit = ans
                if st.get("status") != "intern":
                    break
                if (mhit == "hit") != st["hit"] or ids.setdefault(mid, st["addr"]) != st["addr"]:
                    failures.append({"what": "model and real intern table disagree at op %d" % k, "profile": prof,
                                     "ops": [["%016x" % hh, tt] for hh, tt in seq], "case": lines[i],
                                     "model": model_out[pos + 1 + k], "real": st,
                                     "signature": "model-vs-real intern", "failing_input": err is not None})
                    break
            md = model_out[pos + 1 + len(seq)]
            # layout drift (informational): cap/size/slot positions
            try:
                parts = dict(p.split("=") for p in md.split())
                mslots = [] if parts["slots"] == "-" else [tuple(x.split(":")) for x in parts["slots"].split(",")]
                same = (int(parts["cap"]) == dump["cap"] and int(parts["size"]) == dump["size"]
                        and [int(s) for s, _ in mslots] == [s for s, _ in dump["slots"]])
                if not same:
                    drift += 1
            except Exception:
                drift += 1
        pos += len(seq) + 2

    # (b) whole interpreter, real hashes
    n_b = 12 if ctx.thorough else 4
    b_lines = []
    b_texts = []
    for i in range(n_b):
        r2 = rng.fork("b%d" % i)
        count = [50, 400, 3000, 9000][i % 4] if ctx.thorough else [50, 400, 1500, 3000][i % 4]
        texts = [gen_text(r2, 6) + ("#%d" % r2.below(count // 2)) for _ in range(count)]
        b_texts.append(texts)
        b_lines.append(vlib.case_line("b%d" % i, ["ID:" + vlib.hx(t) for t in texts]))
    real_b = vlib.run_real(ctx.runner, b_lines)
    fnv_req = []
    for i, texts in enumerate(b_texts):
        r = real_b[i]
        if "steps" not in r:
            failures.append({"what": "interpreter died creating strings", "case": b_lines[i][:200], "observed": r,
                             "signature": "crash string creation", "failing_input": True})
            continue
        first = {}
        owner = {}
        for t, st in zip(texts, r["steps"]):
            a = st["addr"]
            bad = None
            if t in first and first[t] != a:
                bad = "same bytes got two identities"
            elif t not in first and a in owner:
                bad = "different bytes share one identity"
            if bad:
                failures.append({"what": "interpreter string identity: " + bad, "text": t, "texts_prefix": texts[:texts.index(t) + 1] if len(texts) < 200 else "(long)",
                                 "case": b_lines[i] if len(texts) < 500 else "b-case with %d strings, seed %d" % (len(texts), ctx.seed),
                                 "signature": "vm identity: " + bad, "failing_input": True})
                break
            first[t] = a
            owner[a] = t
        ops += len(texts)
        for t, st in list(zip(texts, r["steps"]))[:300]:
            fnv_req.append((t, st["hash"]))
    if model_ok and fnv_req:
        try:
            ans = vlib.run_model("intern", ["fnv " + vlib.hx(t) for t, _ in fnv_req])
            for (t, hreal), a in zip(fnv_req, ans):
                if a != hreal:
                    failures.append({"what": "model fnv differs from the real cached hash", "text": t, "model": a,
                                     "real": hreal, "signature": "model-vs-real fnv", "failing_input": False})
                    break
        except Exception as e:
            broken.append("model driver fnv: %s" % e)

    # (c) in-language routes
    progs = []
    n_c = 1800 if ctx.thorough else 1000
    for i in range(n_c):
        progs.append(route_program_chars(rng.fork("h%d" % i)) if i % 4 == 1 else (route_program(rng.fork("c%d" % i)) if i % 3 else route_program_values(rng.fork("v%d" % i))))
    c_lines = [vlib.case_line("c%d" % i, ["S:" + vlib.hx(p)], steps=2000000) for i, p in enumerate(progs)]
    for mode in (["default", "always"] if ctx.thorough else ["default"]):
        rl = [l.replace(" steps=", " gc=%s steps=" % mode) for l in c_lines]
        real_c = vlib.run_real(ctx.runner, rl)
        for i, r in enumerate(real_c):
            st = (r.get("steps") or [{}])[0]
            if st.get("status") != "ok" or st.get("printed") != ["ok"]:
                failures.append({"what": "one content built by different routes is not one string", "program": progs[i],
                                 "observed": st if st else r, "signature": "routes: " + str(st.get("printed", st.get("status")))[:80],
                                 "failing_input": True})
    # (d) volume: tens of thousands of distinct contents, each built by several routes while the table is under load and grows;
    # every pair of routes must give one string (==, map key).  A defect that needs a particular pair of slots (neighbouring homes,
    # an entry displaced over another one, a slot vacated in a probe chain) shows up in a fraction of the contents.
    n_d = 60000 if ctx.thorough else 20000
    vol = volume_programs(n_d)
    d_lines = [vlib.case_line("d%d" % i, ["S:" + vlib.hx(p)], steps=400000000) for i, p in enumerate(vol)]
    real_d = vlib.run_real(ctx.runner, d_lines)
    for i, r in enumerate(real_d):
        st = (r.get("steps") or [{}])[0]
        if st.get("status") != "ok" or st.get("printed") != ["0"]:
            failures.append({"what": "among %d contents each built by several routes, some are not one string (the program prints how many "
                                     "comparisons failed, then the first content that failed)" % n_d, "program": vol[i],
                             "observed": st if st else r, "signature": "volume routes: " + str(st.get("printed", st.get("status")))[:80],
                             "failing_input": True})
    # (d') the two dimensions the volume runs above leave at small values: the LENGTH of a content (every power of two +-1 up to 2^20 bytes,
    # each built by several routes) and the number of strings ALIVE at once (the table holds only live strings, so the runs above never
    # grow it far: here everything created is kept, and at each decade up to the top size fresh contents are built by several routes and
    # the kept ones are built again)
    lv = length_programs() + live_volume_programs(1000000 if ctx.thorough else 200000)
    lv_lines = [vlib.case_line("lv%d" % i, ["S:" + vlib.hx(p_)], steps=2000000000) for i, p_ in enumerate(lv)]
    for p_, r in zip(lv, vlib.run_real(ctx.runner, lv_lines)):
        st = (r.get("steps") or [{}])[0]
        if st.get("status") != "ok" or st.get("printed") != ["0"]:
            failures.append({"what": "contents of every length / contents built while many strings are alive: some content built by two routes "
                                     "is not one string (the program prints the number of failed comparisons, then the first length or count at which one failed)",
                             "program": p_, "observed": st if st else r,
                             "signature": "length/live routes: " + str(st.get("printed", st.get("status")))[:80], "failing_input": True})
    # (e) names whose real hashes collide in the low 32 / 24 / 16 / 8 bits, used back to back as methods, static methods, fields, globals,
    # map keys of one object: each use selects its own entry
    cps = collision_programs()
    if not colliding_names().get(32):
        broken.append("no pair of names colliding in the low 32 bits of the real hash was found")
    e_lines = [vlib.case_line("e%d" % i, ["S:" + vlib.hx(p)], steps=2000000) for i, (_, p, _) in enumerate(cps)]
    for (name, src, exp), r in zip(cps, vlib.run_real(ctx.runner, e_lines)):
        st = (r.get("steps") or [{}])[0]
        if st.get("status") != "ok" or st.get("printed") != exp:
            failures.append({"what": "two different names whose hashes agree in the low bits (%s) do not select their own method / field / global / map entry" % name,
                             "program": src, "expected": exp, "observed": st if st else r, "name": name,
                             "signature": "colliding names: " + name.split(":")[0], "failing_input": True})
    cov = {
        "colliding_name_pairs": {str(k): v for k, v in colliding_names().items()},
        "evaluations": len(seqs) + n_b + n_c + len(vol) + len(cps) + len(lv),
        "length_and_live_volume_programs": len(lv),
        "volume_contents": n_d * len(vol),
        "distinct_nontrivial": len(nontrivial),
        "rule": "op sequences over a random hash function H of 6 profiles (special bit patterns - zero/ones halves, single bits, 0 -, identical full hashes, equal low 12 bits, "
                "homes at the array end, 3 hash values, random) with repeated texts; non-trivial = >=3 distinct texts and "
                "at least one repeat; plus interpreter-level identity runs and route programs",
        "samples": [json.loads(s) for s in sorted(nontrivial)[:2]] + [progs[0]],
        "intern_ops": ops,
        "sequences_that_grew_the_table": growths,
        "traces_validated_against_impl": len(seqs),
        "model_drift": {"layout_differs_in_sequences": drift},
        "route_programs": n_c,
    }
    return {"failures": failures, "coverage": cov, "broken": broken}


_COLLIDING = None


def colliding_names():
    """Pairs of identifier-like names whose REAL hashes (FNV-1a over the bytes and a 0xff terminator, 64-bit) agree in the low 32, 24, 16
    and 8 bits and differ elsewhere - found by a birthday search over a fixed, seeded set of candidates, so the pairs are the same on every
    run.  Anything that recognises a name by part of its hash (a cache tag, a truncated key) confuses the two names of a pair."""
    global _COLLIDING
    if _COLLIDING is not None:
        return _COLLIDING
    from props import c12
    rng = vlib.SplitMix(20240911)
    letters = "abcdefghijklmnopqrstuvwxyz_"
    names = []
    seen = set()
    while len(names) < 260000:
        n = "m" + "".join(letters[rng.below(len(letters))] for _ in range(4 + rng.below(6)))
        if n not in seen:
            seen.add(n)
            names.append(n)
    hashes = [c12.fnv(n.encode()) for n in names]
    out = {}
    for bits, want in ((32, 6), (24, 4), (16, 4), (8, 3)):
        mask = (1 << bits) - 1
        first = {}
        pairs = []
        for n, h in zip(names, hashes):
            k = h & mask
            if k in first and first[k][1] != h:
                pairs.append((first[k][0], n))
                if len(pairs) >= want:
                    break
            else:
                first.setdefault(k, (n, h))
        out[bits] = pairs
    # the classic 32-bit FNV-1a pair is kept as a cross-check of the search (it collides in the low 32 bits of the real hash or not at all)
    _COLLIDING = out
    return out


def collision_programs():
    """For every pair (a, b) of colliding names: both are methods, static methods, fields, globals, map keys and module-style attributes
    of ONE object and are used back to back in every order; each use must select its own name's entry."""
    progs_ = []
    for bits, pairs in sorted(colliding_names().items()):
        for a, b in pairs:
            src = (
                "#[constructor(new)] class K { fn %(a)s(self) { return \"A\"; } fn %(b)s(self) { return \"B\"; } "
                "#[static] fn s%(a)s() { return \"a\"; } #[static] fn s%(b)s() { return \"b\"; } }\n"
                "#[derive(K), constructor(new)] class S { fn via_super(self) { return super.%(a)s() + super.%(b)s() + super.%(b)s() + super.%(a)s(); } "
                "fn bound_super(self) { var x = super.%(a)s; var y = super.%(b)s; return y() + x() + y(); } }\n"
                "var k = K.new(); var out = k.%(a)s() + k.%(b)s() + k.%(b)s() + k.%(a)s() + k.%(a)s() + k.%(b)s();\n"
                "var ba = k.%(a)s; var bb = k.%(b)s; out = out + ba() + bb() + bb() + ba();\n"
                "out = out + K.s%(a)s() + K.s%(b)s() + K.s%(b)s() + K.s%(a)s();\n"
                "var s = S.new(); out = out + s.via_super() + s.bound_super() + s.%(b)s() + s.%(a)s() + s.%(b)s();\n"
                "var o = K.new(); o.f%(a)s = 1; o.f%(b)s = 2; o.f%(a)s = o.f%(a)s + 10; out = out + String.from(o.f%(a)s) + String.from(o.f%(b)s) + String.from(o.f%(a)s);\n"
                "var %(a)s = \"ga\"; var %(b)s = \"gb\"; out = out + %(a)s + %(b)s + %(b)s + %(a)s; %(b)s = \"gB\"; out = out + %(a)s + %(b)s;\n"
                "var m = {\"%(a)s\": 1, \"%(b)s\": 2}; m.insert(\"%(a)s\", 3); out = out + String.from(m.get(\"%(a)s\")) + String.from(m.get(\"%(b)s\")) + String.from(m.len());\n"
                "print(\"%(a)s\" == \"%(b)s\"); print(out);\n") % {"a": a, "b": b}
            exp = ["false", "ABBAAB" + "ABBA" + "abba" + "ABBA" + "BAB" + "BAB" + "11211" + "gagbgbga" + "gagB" + "322"]
            progs_.append(("collide%d:%s/%s" % (bits, a, b), src, exp))
    return progs_


def yl_str(s):
    return '"' + s.replace("\\", "\\\\").replace('"', '\\"').replace("$", "\\$") + '"'


def volume_programs(n):
    """One program per template; i runs over 0..n-1; the content is built by interpolation first (the route that creates the most
    temporaries), then by routes that do not repeat its intermediate strings."""
    out = []
    for tmpl, alt in (('"${i}px"', 'String.from(i) + "px"'), ('"w${i}"', '"w" + String.from(i)'), ('"${i}"', 'String.from(i)'),
                      ('"${i}.${i + 1}"', 'String.from(i) + "." + String.from(i + 1)'), ('"${i * 0.5}"', 'String.from(i * 0.5)'),
                      ('"k${i}=${i % 7 == 0}"', '"k" + String.from(i) + "=" + String.from(i % 7 == 0)')):
        src = ["var bad = 0; var first = nil; var i = 0;",
               "while i < %d {" % n,
               "  var a = %s;" % tmpl,
               "  var n = a.len();",
               "  var az = a + \"z\";",
               "  var b1 = az[0..1] + az[1..n];",
               "  var b2 = az[0..(n - 1)] + az[(n - 1)..n];",
               "  var b3 = (a + \"#\").replace(\"#\", \"\");",
               "  var b4 = %s;" % alt,
               "  var m = {a: 1};",
               "  for b in [b1, b2, b3, b4] { if !(a == b) || !(b == a) || !m.has_key(b) { bad = bad + 1; if first == nil { first = a; } } }",
               "  i = i + 1;",
               "}",
               "print(bad); if first != nil { print(first); }"]
        out.append("\n".join(src))
    return out


def length_programs():
    """Contents of 1 .. 2^20 bytes (every power of two and its neighbours), ASCII and multi-byte, each built by doubling from two different
    seeds, by joining its halves, by interpolation and by replace: one string."""
    out = []
    for piece, plen in (("x", 1), ("\u00e9", 2), ("ab", 2)):
        lens = sorted(set(n for k in range(0, 21) for n in ((1 << k) - 1, 1 << k, (1 << k) + 1) if n > 0))
        if len(piece.encode()) > 1:
            lens = sorted(set(n - n % 2 for n in lens if n >= 2))   # slices of a multi-byte content end on character boundaries
        src = ["fn dbl(seed, n) { var s = seed; while s.len() < n { s = s + s; } return s[0..n]; }",
               "var bad = 0; var first = nil;",
               "for n in [%s] {" % ", ".join(str(n) for n in lens),
               "  var a = dbl(%s, n);" % yl_str(piece),
               "  var b = dbl(%s, n);" % yl_str(piece * 3),
               "  var h = n / 2; h = h - h %% %d;" % plen,
               "  var c = a[0..h] + a[h..n];",
               "  var d = \"${a}\";",
               "  var e = (a + \"#\").replace(\"#\", \"\");",
               "  var f = \"${a[0..h]}${b[h..n]}\";",
               "  var m = {a: n};",
               "  for t in [b, c, d, e, f] { if !(a == t) || !(t == a) || !m.has_key(t) || t.len() != n { bad = bad + 1; if first == nil { first = n; } } }",
               "}",
               "print(bad); if first != nil { print(first); }"]
        out.append("\n".join(src).replace("%%", "%"))
    return out


def live_volume_programs(top):
    """Everything created stays alive; at 1000, 3000, 10000, ... up to `top` live strings, fresh contents are built by three routes and a
    sample of the kept ones is built again."""
    marks = []
    m = 1000
    while m <= top:
        marks += [m, 3 * m]
        m *= 10
    marks = [x for x in marks if x <= top]
    src = ["var keep = []; var bad = 0; var first = nil;",
           "fn note(n) { bad = bad + 1; if first == nil { first = n; } }",
           "fn probe(n) {",
           "  var i = 0;",
           "  while i < 300 {",
           "    var a = \"fresh-${n}-${i}\"; var b = \"fresh-\" + String.from(n) + \"-\" + String.from(i); var c = (\"fresh-${n}#-${i}\").replace(\"#\", \"\");",
           "    var m = {a: 1};",
           "    if !(a == b) || !(b == c) || !(c == a) || !m.has_key(b) || !m.has_key(c) { note(n); }",
           "    i = i + 1;",
           "  }",
           "  i = 0; var step = n / 200; if step == 0 { step = 1; }",
           "  while i < n { if !(keep[i] == \"live-\" + String.from(i)) || !(keep[i] == \"live-${i}\") { note(n); } i = i + step; }",
           "}",
           "var i = 0;",
           "for mark in [%s] {" % ", ".join(str(x) for x in marks),
           "  while i < mark { keep.push(\"live-${i}\"); i = i + 1; }",
           "  probe(mark);",
           "}",
           "print(bad); if first != nil { print(first); }"]
    return ["\n".join(src)]


def route_program(rng):
    chars = ["a", "b", "z", "é", "€", "😀", "1", " ", "x"]
    n = 1 + rng.below(5)
    t = "".join(rng.choice(chars) for _ in range(n))
    k = rng.below(len(t) + 1)
    t1, t2 = t[:k], t[k:]
    other = t + "q"
    bytes_list = ", ".join(str(b) for b in t.encode("utf-8"))
    cps = ", ".join(str(ord(c)) for c in t)
    pre, post = "pp", "€s"
    a = len(pre.encode())
    b = a + len(t.encode())
    exprs = [
        yl_str(t),
        "%s + %s" % (yl_str(t1), yl_str(t2)),
        '"${%s}%s"' % (yl_str(t1), t2.replace('"', '\\"')),
        "(%s + %s + %s)[%d..%d]" % (yl_str(pre), yl_str(t), yl_str(post), a, b),
        "(%s + \",\" + \"zz\").split(\",\")[0]" % yl_str(t),
        "(%s + \"#\").replace(\"#\", \"\")" % yl_str(t),
        "joined(%s)" % yl_str(t),
        "String.from_utf8([%s])" % bytes_list,
        "String.from_code_points([%s])" % cps,
        "host_id(%s)" % yl_str(t),
        "String.from(%s)" % yl_str(t),
        '"${%s}"' % yl_str(t),
        '"${sv}"',
        '"${sv}" + ""',
    ]
    # filler strings force table growth between creations
    filler = rng.below(300)
    src = []
    src.append("fn joined(s) { var r = \"\"; for c in s { r = r + c; } return r; }")
    src.append("var sv = %s;" % yl_str(t))
    src.append("var vs = [];")
    for e in exprs:
        src.append("vs.push(%s);" % e)
        if filler:
            src.append("{ var i = 0; while i < %d { var f = \"f${i}_%d\"; i = i + 1; } }" % (filler, rng.below(1000)))
    src.append("var bad = nil;")
    src.append("var m = {%s: 1};" % yl_str(t))
    src.append("for x in vs { for y in vs { if !(x == y) { bad = \"neq\"; } } "
               "if m.get(x) != 1 { bad = \"get\"; } if !m.has_key(x) { bad = \"has\"; } "
               "m.insert(x, 1); if x == %s { bad = \"eq-other\"; } if m.has_key(%s) { bad = \"other-key\"; } }" % (yl_str(other), yl_str(other)))
    src.append("if m.len() != 1 { bad = \"len\"; }")
    src.append("if bad == nil { print(\"ok\"); } else { print(bad); }")
    return "\n".join(src)


def route_program_chars(rng):
    """Single characters obtained by indexing, iteration, slicing and literals - over an alphabet in which DIFFERENT characters share
    their UTF-8 lead byte (é è ê: C3; € ₭ ₮: E2 82; 😀 😁: F0 9F 98): equal exactly when the same character, also as map keys."""
    alpha = ["a", "b", "é", "è", "ê", "€", "₭", "₮", "😀", "😁", "ß", "à"]
    n = 2 + rng.below(6)
    cs = [rng.choice(alpha) for _ in range(n)]
    t = "".join(cs)
    offs = []
    o = 0
    for c in cs:
        offs.append(o)
        o += len(c.encode("utf-8"))
    src = ["var s = %s;" % yl_str(t), "var byidx = [];", "var bylit = [];", "var byslice = [];"]
    for c, off in zip(cs, offs):
        src.append("byidx.push(s[%d]);" % off)
        src.append("bylit.push(%s);" % yl_str(c))
        src.append("byslice.push(s[%d..%d]);" % (off, off + len(c.encode("utf-8"))))
    src.append("var byiter = []; for c in s { byiter.push(c); }")
    src.append("var bad = nil;")
    src.append("var i = 0; while i < %d { var j = 0; while j < %d {" % (n, n))
    src.append("  var same = bylit[i] == bylit[j];")
    src.append("  for a in [byidx, byiter, byslice] { for b in [byidx, byiter, byslice, bylit] { if (a[i] == b[j]) != same { bad = \"eq ${i} ${j}\"; } } }")
    src.append("  var m = {byidx[i]: 1}; if m.has_key(byiter[j]) != same { bad = \"key ${i} ${j}\"; } if m.has_key(bylit[j]) != same { bad = \"litkey ${i} ${j}\"; }")
    src.append("  j = j + 1; } i = i + 1; }")
    src.append("if byiter.len() != %d { bad = \"len\"; }" % n)
    src.append("if bad == nil { print(\"ok\"); } else { print(bad); }")
    return "\n".join(src)


def route_program_values(rng):
    """The text of a NON-string value (number, boolean, nil) made by every route that converts it: all must be one string."""
    k = rng.below(6)
    if k < 3:
        n = [rng.below(1000), -rng.below(1000) - 1, rng.below(10 ** 9) * 1000][k]
        text, val, val2 = str(n), "(%d)" % n, "(%d + 1 - 1)" % n
    elif k == 3:
        n = rng.below(1000)
        text, val, val2 = "%d.5" % n, "%d.5" % n, "(%d + 0.5)" % n
    elif k == 4:
        b = rng.chance(1, 2)
        text, val, val2 = ("true" if b else "false"), ("true" if b else "false"), ("(1 == 1)" if b else "(1 == 2)")
    else:
        text, val, val2 = "nil", "nil", "nil"
    exprs = [yl_str(text), "String.from(%s)" % val, '"${%s}"' % val, '"${nv}"', '"${%s}"' % val2, "String.from(nv)", '"" + "${nv}"', '"${nv}" + ""',
             "%s + %s" % (yl_str(text[:1]), yl_str(text[1:])), '"${"${nv}"}"']
    src = ["var nv = %s;" % val, "var vs = [];"]
    filler = rng.below(200)
    for e in exprs:
        src.append("vs.push(%s);" % e)
        if filler:
            src.append("{ var i = 0; while i < %d { var f = \"g${i}_%d\"; i = i + 1; } }" % (filler, rng.below(1000)))
    src.append("var bad = nil;")
    src.append("var m = {%s: 1};" % yl_str(text))
    src.append("for x in vs { for y in vs { if !(x == y) { bad = \"neq\"; } } if m.get(x) != 1 { bad = \"get\"; } if !m.has_key(x) { bad = \"has\"; } m.insert(x, 1); }")
    src.append("if m.len() != 1 { bad = \"len\"; }")
    src.append("if bad == nil { print(\"ok\"); } else { print(bad); }")
    return "\n".join(src)


def search(ctx, broken):
    """Targeted search when a proof obligation broke: long adversarial sequences on the real table."""
    rng = ctx.rng.fork("c11-search")
    found = []
    lines = []
    seqs = []
    for i in range(300):
        prof = ["full", "lowbits", "wrap", "few"][i % 4]
        seq = gen_sequence(rng.fork("s%d" % i), prof, 40 + 20 * (i % 10))
        seqs.append(seq)
        lines.append(vlib.case_line("s%d" % i, ["I:%016x:%s" % (h, vlib.hx(t)) for h, t in seq]))
    real = vlib.run_real(ctx.runner, lines)
    for seq, r, line in zip(seqs, real, lines):
        if "steps" not in r:
            found.append({"what": "real table run died", "case": line, "observed": r, "failing_input": True})
            break
        err = check_sequence_real(seq, r["steps"])
        if err:
            found.append({"what": "intern table violates identity<->bytes: " + err, "case": line, "failing_input": True})
            break
    return found


def replay(ctx, payload):
    if "ops" in payload and "case" in payload:
        r = vlib.run_real(ctx.runner, [payload["case"]])[0]
        seq = [(int(h, 16), t) for h, t in payload["ops"]]
        err = check_sequence_real(seq, r.get("steps", [])) if "steps" in r else "run died"
        return err is None, "replayed %d ops: %s" % (len(seq), err or "identity<->bytes holds")
    if "case" in payload and str(payload["case"]).startswith("case "):
        r = vlib.run_real(ctx.runner, [payload["case"]])[0]
        return "steps" in r, json.dumps(r)[:2000]
    if "program" in payload:
        r = vlib.run_real(ctx.runner, [vlib.case_line("replay", ["S:" + vlib.hx(payload["program"])], steps=2000000)])[0]
        st = (r.get("steps") or [{}])[0]
        return st.get("printed") == ["ok"], json.dumps(r)[:2000]
    return False, "nothing to replay: " + json.dumps(payload)[:500]
