"""C14 — modules load once, keep their own globals, and cycles are reported.

Theorems: Yarel.Props.C14 on the module-registry model (body_at_most_once, same_object, cycle_reported, errors_are_values,
globals_private, builtins_everywhere; termination: body starts <= distinct paths).
Correspondence: all import graphs over <= 4 modules (DAGs, diamonds, self-loops, 2- and 3-cycles, missing, uncompilable and failing
members; sampled in the quick tier, enumerated in the thorough tier) with imports at top level, inside functions, inside try and
under aliases; the expected output is computed by a 40-line reference of the import rules written here (independent of the Lean
model and of the implementation); import events of the real runs replayed through the Lean registry model.
"""
import itertools
import json
import os

import vlib
import progs
import events
import specdiff

THEOREM_MODULES = []
REQUIRED_THEOREMS = []
if os.path.exists(os.path.join(vlib.LEAN_DIR, "Yarel", "Props", "C14.lean")):
    THEOREM_MODULES = ["Yarel.Props.C14", "Yarel.Props.SpecModules"]
    REQUIRED_THEOREMS = ["import_loaded_does_not_rerun", "import_loading_is_circular", "import_missing_is_error", "import_uncompilable_is_error",
                         "raise_keeps_registry", "body_at_most_once", "same_object", "cycle_reported", "globals_private"]
# who writes the state the mechanism models are about: the set of write sites per group of fields, regenerated on every run (Props/StateWrites)
THEOREM_MODULES.append("Yarel.Props.StateWrites.writers_of_module_registry")
REQUIRED_THEOREMS += ['writers_of_module_registry']
# the functions around the module registry as written on this run (Props/GlueText): the text the module model was written against
THEOREM_MODULES.append("Yarel.Props.GlueText.C14")
REQUIRED_THEOREMS += ['start_import_impl_as_modelled', 'finish_import_impl_as_modelled', 'module_as_modelled']
LEVEL = "proof"
ASSUMPTIONS = [
    "registry model Yarel/Model/Modules.lean transcribes start_import_impl/finish_import_impl (tie: replay of real import events)",
    "a module whose body failed stays registered as 'loading'; a later import of it is reported as ImportError (circular dependency message): documented quirk",
]
NAMES = ["ma", "mb", "mc", "md"]
STATUSES = ["ok", "ok", "ok", "ok", "missing", "syntax", "throws"]


WHY = 'fn why(e) { if type(e) == ImportError { return "ImportError: " + e.context.split("\\n")[0]; } return String.from(type(e)); }'


_CUR = {"graph": {}}


def mpath(t):
    """How the module named `t` is spelled in import statements (and registered with the loader): an optional directory prefix + name."""
    return _CUR["graph"].get(t, {}).get("prefix", "") + t


def module_source(name, spec):
    if spec["status"] == "syntax":
        return "var = ;\n"
    L = [WHY, 'print("enter %s");' % name, 'var secret = "%s-secret";' % name, 'var val = "%s";' % name,
         "fn get_secret() { return secret; }",
         'try { print(main_only); } catch e { print("%s: importer globals are private"); }' % name,
         'print("%s sees builtins " + String.from(type(1) == Num) + " " + String.from(type(clock) == BuiltIn));' % name,
         'try { print("%s names " + String.from(StopIter) + String.from(Error) + String.from(TypeError) + String.from(ImportError) + String.from(Iter)); } catch e { print("%s cannot name a built-in class: " + e.context); }' % (name, name)]
    for t, site in spec["imports"]:
        L += import_stmt(name, t, site)
    if spec["status"] == "throws":
        L.append('throw "%s fails";' % name)
    L.append('print("leave %s");' % name)
    return "\n".join(L) + "\n"


def import_stmt(owner, t, site):
    ok = 'print("%s sees " + %s.val);'
    # the handler runs in the importer: the globals it reads must be the importer's, whatever module raised
    # (the importer's global is read FIRST in the handler, before any call could re-synchronise the interpreter's notion of the running module)
    err = 'print("[" + secret + "] %s cannot import %s: " + why(e));' % (owner, t)
    if site == "top":
        return ['try { import "%s"; %s } catch e { %s }' % (mpath(t), ok % (owner, t), err)]
    if site == "alias":
        return ['try { import "%s" as al_%s; %s } catch e { %s }' % (mpath(t), t, ok % (owner, "al_" + t), err)]
    if site == "fn":
        f = "imp_%s_%s" % (owner, t)
        return ['fn %s() { import "%s"; return %s.val; }' % (f, mpath(t), t),
                'try { print("%s sees " + %s()); } catch e { %s }' % (owner, f, err)]
    # twice: second import must yield the same object and must not run the body again
    return ['try { import "%s"; import "%s" as again_%s; print("%s sees " + %s.val); print("%s same object " + String.from(%s == again_%s)); '
            '%s.val = %s.val; } catch e { %s }' % (mpath(t), mpath(t), t, owner, t, owner, t, t, "again_" + t, t, err)]


def reference(graph, main_imports):
    """Expected printed lines. graph: name -> {status, imports:[(target, site)]}."""
    out = []
    registry = {}

    class Thrown(Exception):
        pass

    def body(name):
        spec = graph[name]
        out.append("enter %s" % name)
        out.append("%s: importer globals are private" % name)
        out.append("%s sees builtins true true" % name)
        out.append("%s names <class StopIter><class Error><class TypeError><class ImportError><class Iter>" % name)
        for t, site in spec["imports"]:
            do_import(name, t, site)
        if spec["status"] == "throws":
            raise Thrown("%s fails" % name)
        out.append("leave %s" % name)

    def load(t):
        """Returns None if the import succeeded, else the text that describes the error value."""
        circular = "ImportError: Circular dependency encountered when importing module '%s'." % mpath(t)
        if t in registry:
            return None if registry[t] == "loaded" else circular
        spec = graph.get(t)
        if spec is None or spec["status"] == "missing":
            return "ImportError: Unable to read file '%s.yl' (file not found)." % mpath(t)
        if spec["status"] == "syntax":
            return "ImportError: Error compiling module:"
        registry[t] = "loading"
        try:
            body(t)
        except Thrown:
            return "<class String>"
        registry[t] = "loaded"
        return None

    def do_import(owner, t, site):
        e = load(t)
        if e is None and site == "twice":
            e2 = load(t)
            assert e2 is None
            out.append("%s sees %s" % (owner, t))
            out.append("%s same object true" % owner)
            return
        if e is None:
            out.append("%s sees %s" % (owner, t))
        else:
            out.append("[%s-secret] %s cannot import %s: %s" % (owner, owner, t, e))

    for t, site in main_imports:
        do_import("main", t, site)
    out.append("main secret main-secret")
    return out


def main_source(main_imports):
    L = [WHY, 'var main_only = "only in main";', 'var secret = "main-secret";', 'var clock = "rebound in main";']
    for t, site in main_imports:
        L += import_stmt("main", t, site)
    L.append('print("main secret " + secret);')
    return "\n".join(L) + "\n"


# module paths a host file system may well contain and that an interpreter might be tempted to use for itself
SPECIAL_NAMES = ["core", "std", "prelude", "builtins", "object", "yarel", "string", "iter", "class_store", "lib", "main", "main", "Main", "mainly"]


def gen_case(rng):
    n = 1 + rng.below(4)
    names = list(NAMES[:n])
    for i in range(n):
        if rng.chance(1, 4):
            nm = rng.choice(SPECIAL_NAMES)
            if nm not in names:
                names[i] = nm
    graph = {}
    for nm in names:
        st = rng.choice(STATUSES)
        k = rng.below(3)
        targets = [rng.choice(names + ["mz"]) for _ in range(k)]       # "mz" never exists; self-imports are allowed
        graph[nm] = {"status": st, "imports": [(t, rng.choice(["top", "alias", "fn", "twice"])) for t in targets]}
        # the same module is always spelled the same way, but not always as a bare name
        if rng.chance(1, 4):
            graph[nm]["prefix"] = rng.choice(["./", "lib/", "./lib/", "../"])
        if nm == "main":
            # only the bare path "main" names the top-level script: a module FILE called main in a directory is a module like any other
            graph[nm]["prefix"] = rng.choice(["lib/", "./lib/", "tools/", "../", "a/b/"])
    mi = [(rng.choice(names + ["mz"]), rng.choice(["top", "alias", "fn", "twice"])) for _ in range(1 + rng.below(3))]
    return graph, mi


def enumerate_cases():
    """Every import graph over 3 modules with at most one import edge per ordered pair (incl. self-loops) x status of one member."""
    names = NAMES[:3]
    pairs = [(a, b) for a in names for b in names]
    for mask in range(1 << len(pairs)):
        if bin(mask).count("1") > 4:
            continue
        for bad, st in ((None, "ok"), ("mc", "missing"), ("mc", "syntax"), ("mb", "throws")):
            graph = {nm: {"status": st if nm == bad else "ok", "imports": []} for nm in names}
            for i, (a, b) in enumerate(pairs):
                if mask >> i & 1:
                    graph[a]["imports"].append((b, ["top", "alias", "fn", "twice"][(i + mask) % 4]))
            yield graph, [("ma", "top"), ("mb", "alias")]


def build(graph, mi):
    _CUR["graph"] = graph
    mods = {mpath(nm): module_source(nm, spec) for nm, spec in graph.items() if spec["status"] != "missing"}
    return main_source(mi), mods, reference(graph, mi)


DIRECTED = [
    ("module-attributes-are-called-uniformly",
     'import "tools";\nprint(tools.bump()); print(tools.bump()); print(tools.plain(4)); print(type(tools.make()) == tools.Counter);\n'
     'print(tools.type(1)); tools.print("via the module\'s print"); print(tools.lenf());\ntools.hook = |x| x + 1; print(tools.hook(2));\n'
     'try { tools.notcallable(); } catch e { print(type(e) == TypeError); }\ntry { tools.missing(); } catch e { print(type(e) == AttributeError); }\n'
     'var f = tools.bump; print(f()); print(tools.count); tools.count = 40; print(tools.bump()); print(tools.nested.get("k")(5));\n',
     {"tools": 'var count = 0;\n#[constructor(new)] class Counter { fn bump(self) { count = count + 1; return count; } }\nvar c = Counter.new();\n'
               'var bump = c.bump; var make = Counter.new; var lenf = "abc".len; var notcallable = 5;\nfn plain(x) { return x * 2; }\nvar nested = {"k": |x| x + count};\n'},
     ["1", "2", "8", "true", "<class Num>", "via the module's print", "3", "3", "true", "true", "3", "3", "41", "46"]),
    ("exported-callables-keep-their-module",
     'import "lib";\nvar base = "main base"; var tag = "main tag";\nvar fib = Fiber.new(lib.show); print(fib.call());\nvar stored = [lib.show, lib.Maker.new().label, lib.adder(5)];\n'
     'for g in stored { print(g is_placeholder); }\n',
     {"lib": 'var base = "lib base"; var tag = "lib tag";\nfn show() { return base; }\n#[constructor(new)] class Maker { fn label(self) { return tag; } }\n'
             'fn adder(n) { return || base + String.from(n); }\n'},
     []),
    ("caught-circular-import-leaves-the-catcher-intact",
     'import "ca";\nprint(ca.result);\n',
     {"ca": 'import "cb";\nvar result = cb.probe();\n',
      "cb": 'fn probe() {\n    var before = "b";\n    var failures = 0;\n    for i in 0..3 {\n        try { import "ca"; print("no error"); } catch e { var seen = type(e) == ImportError; if seen { failures = failures + 1; } }\n'
            '        var after = "a" + String.from(i);\n        print(before + after);\n    }\n    return "failures " + String.from(failures);\n}\n'},
     ["ba0", "ba1", "ba2", "failures 3"]),
]
DIRECTED[1] = (DIRECTED[1][0],
               'import "lib";\nvar base = "main base"; var tag = "main tag";\nvar fib = Fiber.new(lib.show); print(fib.call());\n'
               'var stored = [lib.show, lib.Maker.new().label, lib.adder(5)];\nfor g in stored { print(g()); }\nvar m = {"f": lib.show}; print(m.get("f")());\n',
               DIRECTED[1][2], ["lib base", "lib base", "lib tag", "lib base5", "lib base"])


# F50: a module that rebinds names of built-ins keeps its rebinding whatever happens to the imports it attempts - here an import that fails
# (no call frame left for the module body) and is caught in that module; the module is then imported successfully by a shallower call
DIRECTED.append(("module-keeps-its-rebound-builtins-after-a-caught-import-failure",
                 'import "ovr";\nprint(ovr.go(61));\nprint(ovr.go(3));\nprint("main print is untouched");\n',
                 {"late": 'var v = 42;\n',
                  "ovr": 'var log = [];\nfn myprint(x) { log.push(x); }\nvar print = myprint;\nvar type = "rebound type";\n'
                         'fn rec(n) { if n == 0 { import "late"; return late.v; } return rec(n - 1); }\n'
                         'fn go(n) {\n    try { return rec(n); } catch e { print("caught"); }\n    return [log, type];\n}\n'},
                 ["[[caught], rebound type]", "[[caught, caught], rebound type]", "main print is untouched"]))


# Isolation whatever KIND of value a global holds: main and a module each define globals holding a number, a string, a vector, a closure, a
# class, an instance, a bound method, a native function, a bound native method, a fiber, a range, a module object and nil; each side reads
# (and tries to assign) the other's names directly: every such access is a NameError, before and after the values are re-bound, from
# top-level code, from a function, from a method and from a fiber body; and each side's own names of the same spelling stay its own.
KINDS = [("num", "41"), ("str", '"text"'), ("vec", "[1, 2]"), ("closure", "|| 1"), ("class", "Holder"), ("inst", "Holder.new()"), ("bound", "Holder.new().get"),
         ("native", "print"), ("native2", "clock"), ("boundnative", "[1].len"), ("fiber", "Fiber.new(|| 1)"), ("range", "0..3"), ("nilv", "nil")]


def isolation_scenario():
    main = ["#[constructor(new)] class Holder { fn get(self) { return 1; } }"]
    mod = ["#[constructor(new)] class Holder { fn get(self) { return 2; } }"]
    for k, v in KINDS:
        main.append("var only_main_%s = %s;" % (k, v))
        main.append("var shared_%s = %s;" % (k, v))
        mod.append("var only_mod_%s = %s;" % (k, v))
        mod.append('var shared_%s = "mod %s";' % (k, k))
    probes = []
    for k, _ in KINDS:
        probes.append('    try { var x = only_main_%s; out.push("LEAK read %s"); } catch e { if type(e) != NameError { out.push("wrong error %s"); } }' % (k, k, k))
        probes.append('    try { only_main_%s = 1; out.push("LEAK write %s"); } catch e { if type(e) != NameError { out.push("wrong error %s"); } }' % (k, k, k))
        probes.append('    if shared_%s != "mod %s" { out.push("shared %s is not the module\'s own"); }' % (k, k, k))
    body = "\n".join(probes)
    mod += ["fn probe() {\n    var out = [];\n" + body + "\n    return out;\n}",
            "#[constructor(new)] class Prober { fn probe(self) {\n    var out = [];\n" + body + "\n    return out;\n} }",
            "fn probe_in_fiber() { return Fiber.new(|| probe()).call(); }",
            "var at_load = probe();"]
    main += ['import "isomod";', "print(isomod.at_load);", "print(isomod.probe());", "print(isomod.Prober.new().probe());", "print(isomod.probe_in_fiber());"]
    for k, _ in KINDS:
        main.append("only_main_%s = print; shared_%s = clock;" % (k, k))
    main += ["print(isomod.probe());", "print(isomod.probe_in_fiber());", "var leaks = [];"]
    for k, _ in KINDS:
        main.append('try { var x = only_mod_%s; leaks.push("LEAK read %s"); } catch e { if type(e) != NameError { leaks.push("wrong error %s"); } }' % (k, k, k))
        main.append('if shared_%s != clock { leaks.push("shared %s of main was changed"); }' % (k, k))
    main += ["print(leaks);", "print(isomod.only_mod_num);", 'print(isomod.shared_native);']
    return ("globals-are-private-whatever-kind-of-value-they-hold", "\n".join(main) + "\n", {"isomod": "\n".join(mod) + "\n"},
            ["[]", "[]", "[]", "[]", "[]", "[]", "[]", "41", "mod native"])


DIRECTED.append(isolation_scenario())


# the FIRST import of a module from every kind of place - top level, function, method, closure, loop, each part of a try statement (finally
# reached normally, by a return, by a propagating exception, and a function called from there), a fiber before and after a yield, another
# module - each place with a module of its own: its body runs there once, and every later import (top level, function) runs nothing and
# yields the same object
def first_import_scenario():
    places = [
        ("top", 'import "{m}"; first.push({m});'),
        ("fn", 'fn f_{m}() {{ import "{m}"; first.push({m}); }} f_{m}();'),
        ("method", '#[constructor(new)] class K_{m} {{ fn go(self) {{ import "{m}"; first.push({m}); }} }} K_{m}.new().go();'),
        ("closure", 'var c_{m} = || {{ import "{m}"; first.push({m}); }}; c_{m}();'),
        ("loop", 'for i in 0..3 {{ import "{m}"; if i == 0 {{ first.push({m}); }} }}'),
        ("try", 'try {{ import "{m}"; first.push({m}); }} catch e {{ print("unexpected"); }}'),
        ("catch", 'try {{ throw "x"; }} catch e {{ import "{m}"; first.push({m}); }}'),
        ("finally_normal", 'try {{ var z = 1; }} finally {{ import "{m}"; first.push({m}); }}'),
        ("finally_return", 'fn r_{m}() {{ try {{ return 1; }} finally {{ import "{m}"; first.push({m}); }} }} r_{m}();'),
        # (an import statement written directly in a finally block declares a local there: on the exception path that is F23, a known finding
        # of C04/C08 - locals of a finally block are mis-addressed - so the places below import in something CALLED from the block)
        ("closure_in_finally_propagating", 'var cf_{m} = || {{ import "{m}"; first.push({m}); }}; try {{ try {{ throw "boom"; }} finally {{ cf_{m}(); }} }} catch e {{ print("caught " + e); }}'),
        ("called_from_finally_propagating", 'fn g_{m}() {{ import "{m}"; first.push({m}); }} fn w_{m}() {{ try {{ throw "boom"; }} finally {{ g_{m}(); }} }} '
                                            'try {{ w_{m}(); }} catch e {{ print("caught " + e); }}'),
        ("fiber", 'Fiber.new(|| {{ import "{m}"; first.push({m}); }}).call();'),
        ("fiber_after_yield", 'var fb_{m} = Fiber.new(|| {{ Fiber.yield(1); import "{m}"; first.push({m}); }}); fb_{m}.call(); fb_{m}.call();'),
        ("module", 'import "via_{m}"; first.push(via_{m}.{m});'),
    ]
    src = ["var first = [];"]
    mods = {}
    exp = []
    for i, (place, tmpl) in enumerate(places):
        m = "m_" + place
        mods[m] = 'var runs = "body of %s";\nprint("run %s");\nfn again() { return runs; }\n' % (m, m)
        if place == "module":
            mods["via_" + m] = 'import "%s";\nprint("via done");\n' % m
        src.append(tmpl.format(m=m))
        exp.append("run " + m)
        if place == "module":
            exp.append("via done")
        if "propagating" in place:
            exp.append("caught boom")
    for i, (place, _) in enumerate(places):
        m = "m_" + place
        src.append('import "%s"; print("%s " + String.from(%s == first[%d]) + " " + %s.again());' % (m, m, m, i, m))
        src.append('fn later_%s() { import "%s" as again; return again == first[%d]; } print(later_%s());' % (m, m, i, m))
        exp += ["%s true body of %s" % (m, m), "true"]
    return ("first-import-from-every-kind-of-place", "\n".join(src) + "\n", mods, exp)


DIRECTED.append(first_import_scenario())


def correspondence(ctx, model_ok=True):
    rng = ctx.rng.fork("c14")
    failures = []
    broken = []
    cases = [gen_case(rng.fork("g%d" % i)) for i in range(6000 if ctx.thorough else 5000)]
    if ctx.thorough:
        cases += list(enumerate_cases())
    else:
        cases += [c for k, c in enumerate(enumerate_cases()) if k % 97 == 0]
    built = [build(g, mi) for g, mi in cases]
    plist = [("imp%d" % i, b[0], b[1]) for i, b in enumerate(built)]
    shapes = {"cycle": 0, "self": 0, "missing": 0, "syntax": 0, "throws": 0, "diamond": 0}
    nontrivial = set()
    for (g, mi) in cases:
        for nm, spec in g.items():
            if any(t == nm for t, _ in spec["imports"]):
                shapes["self"] += 1
            if spec["status"] in shapes:
                shapes[spec["status"]] += 1
    mlines, spans = [], []
    for mode in ({"gc": "default", "events": 1}, {"gc": "always", "quarantine": 1}):
        lines = []
        for name, src, mods in plist:
            steps = ["M:%s:%s" % (vlib.hx(n), vlib.hx(s)) for n, s in mods.items()] + ["S:" + vlib.hx(src)]
            lines.append(vlib.case_line(name, steps, steps=3000000, **mode))
        res = vlib.run_real(ctx.runner, lines)
        if mode.get("events"):
            first_lines, first_res = lines, res
        for (name, src, mods), (_, _, expected), r, (g, mi) in zip(plist, built, res, cases):
            st = (r.get("steps") or [{}])[-1] if isinstance(r, dict) else {}
            c = progs.canon_step(st if st else r)
            printed = list(c[2]) if len(c) > 2 else []
            enters = [p for p in printed if p.startswith("enter ")]
            bad = None
            if c[0] != "ok":
                bad = "run ended with %s %s" % (c[0], c[1:2])
            elif len(enters) != len(set(enters)):
                bad = "a module body ran more than once: %s" % enters
            elif printed != expected:
                k = next((i for i in range(min(len(printed), len(expected))) if printed[i] != expected[i]), min(len(printed), len(expected)))
                bad = "output differs from the import rules at line %d: got %r, expected %r" % (k, printed[k:k + 1], expected[k:k + 1])
            if bad:
                failures.append({"what": "import behaviour: " + bad, "program": src, "modules": mods, "graph": g, "main_imports": mi,
                                 "expected": expected, "printed": printed, "signature": "imports: " + bad.split(":")[0][:50], "failing_input": True})
            if mode.get("events"):
                nontrivial.add(json.dumps([g, mi], sort_keys=True))
                evs = st.get("events", [])
                ml = mod_lines(evs, g)
                spans.append((len(mlines), len(ml), src, mods))
                mlines.extend(ml)
    dlines = [vlib.case_line("dir%d" % i, ["M:%s:%s" % (vlib.hx(n), vlib.hx(t)) for n, t in mods.items()] + ["S:" + vlib.hx(src)], steps=3000000)
              for i, (_, src, mods, _) in enumerate(DIRECTED)]
    for mode in ({}, {"gc": "always", "quarantine": 1}):
        dl = [l.replace(" -- ", " " + " ".join("%s=%s" % kv for kv in mode.items()) + " -- ", 1) if mode else l for l in dlines]
        dres = vlib.run_real(ctx.runner, dl)
        for (name, src, mods, exp), r in zip(DIRECTED, dres):
            st = (r.get("steps") or [{}])[-1] if isinstance(r, dict) else {}
            c = progs.canon_step(st if st else r)
            if c[0] != "ok" or list(c[2]) != exp:
                failures.append({"what": "module scenario '%s' prints %s (%s %s), expected %s" % (name, list(c[2]) if len(c) > 2 else c, c[0], list(c[3])[:1] if len(c) > 3 else "", exp),
                                 "program": src, "modules": mods, "expected_output": exp, "signature": "scenario " + name, "failing_input": True})
        if not mode and model_ok:
            sd = specdiff.diff_lines(ctx, dl, dres, broken, what="module scenario", payload_of=lambda i: {"program": DIRECTED[i][1], "modules": DIRECTED[i][2]})
            failures += sd["failures"]
    sdn = 0
    if model_ok:
        sd = specdiff.diff_lines(ctx, first_lines, first_res, broken, what="program with modules",
                                 payload_of=lambda i: {"program": plist[i][1], "modules": plist[i][2]})
        failures += sd["failures"]
        sdn = sd["compared"]
    if model_ok and mlines and THEOREM_MODULES:
        try:
            ans = vlib.run_model("mod", mlines)
            for (start, n, src, mods) in spans:
                badl = [(mlines[start + k], ans[start + k]) for k in range(n) if ans[start + k] != "ok"]
                if badl:
                    failures.append({"what": "module registry differs from the model", "program": src, "modules": mods, "request": badl[0][0],
                                     "model": badl[0][1], "signature": "model-vs-real modules", "failing_input": False})
        except Exception as e:
            broken.append("model driver mod: %s" % e)
    cov = {
        "evaluations": 2 * len(plist),
        "distinct_nontrivial": len(nontrivial),
        "rule": "import graphs over <=4 modules (random + enumerated graphs over 3 modules with <=4 edges incl. self-loops, x one missing/uncompilable/"
                "failing member) with imports at top level, aliased, inside functions, repeated; expected output from the reference import rules; "
                "distinct = distinct (graph, main imports); 2 GC modes",
        "samples": [built[0][0], built[0][2][:8]],
        "shapes": shapes,
        "import_events_replayed": len(mlines),
        "traces_validated_against_impl": len(spans),
        "programs": len(plist), "steps_compared_with_reference_interpreter": sdn,
    }
    return {"failures": dedupe(failures), "coverage": cov, "broken": broken}


def mod_lines(evs, graph):
    """import_start/import_finish events -> requests of the `mod` driver (loaded/loaderror/compileerror/abort derived from the graph)."""
    lines = ["reset"]
    stack = []
    by_path = {spec.get("prefix", "") + nm: spec for nm, spec in graph.items()}
    for ev in evs:
        head, kv = events.parse(ev)
        if head == "import_start":
            p, state = kv["path"], kv["state"]
            lines.append("start %s %s" % (p, state))
            if state == "absent":
                spec = by_path.get(p)
                if spec is None or spec["status"] == "missing":
                    lines.append("loaderror %s" % p)
                elif spec["status"] == "syntax":
                    lines.append("compileerror %s" % p)
                else:
                    lines.append("loaded %s" % p)
                    stack.append(p)
        elif head == "import_finish":
            p = kv["path"]
            if p in stack:
                # bodies entered after p and never finished were aborted by an exception
                while stack[-1] != p:
                    lines.append("abort %s" % stack.pop())
                stack.pop()
            # else: FinishImport of an import that was served from the registry (no body ran)
            lines.append("finish %s" % p)
    return lines


def dedupe(failures):
    out = {}
    for f in failures:
        out.setdefault(f["signature"], f)
    return list(out.values())


def replay(ctx, payload):
    if "case_line" in payload:
        return specdiff.replay_line(ctx, payload)
    if "program" not in payload:
        return False, "nothing to replay"
    steps = ["M:%s:%s" % (vlib.hx(n), vlib.hx(s)) for n, s in payload.get("modules", {}).items()] + ["S:" + vlib.hx(payload["program"])]
    r = vlib.run_real(ctx.runner, [vlib.case_line("replay", steps, steps=3000000)])[0]
    c = progs.canon_step((r.get("steps") or [{}])[-1])
    return c[0] == "ok" and list(c[2]) == payload.get("expected_output", payload.get("expected")), str(c)[:1500]
