"""C01 — GC safety: nothing a program can still reach is ever reclaimed.

Theorems: Yarel.Props.GcCollector (collect_safe / collect_complete / collect_exact / collect_terminates / label_covered
for the collector model) and Yarel.Props.C01 (the trace tables regenerated from /repo satisfy blackenCovers and
wellFormed, hence collect_safe applies to every well-typed heap).
Correspondence:
  (a) traced-edge log of real collections vs the regenerated schema (type granularity);
  (b) real collections (object list, roots, traced calls) replayed through the Lean collector: same retained set;
  (c) every program (generated profiles, repository scripts, per-edge probes) run with collect-at-every-allocation +
      quarantine and with never-collect: equal traces, no use-after-free event.
"""
import json
import os

import vlib
import progs
import probes_gc

THEOREM_MODULES = ["Yarel.Props.GcCollector", "Yarel.Props.C01", "Yarel.Props.CollectSites"]
REQUIRED_THEOREMS = ["collections_start_only_in_allocate_raw", "every_collection_is_under_an_allocation", "collect_safe", "collect_complete", "collect_terminates", "label_covered", "schema_covers",
                     "schema_wellFormed", "c01_collect_safe"]
# the three passes of a collection translated from memory.rs on every run (Props/FnsTie/GcPasses): they ARE the model's markRoots /
# traceReferences / sweep, the functions `collect_safe` (nothing reachable from a root is swept) is proved about
THEOREM_MODULES.append("Yarel.Props.FnsTie.GcPasses")
REQUIRED_THEOREMS += ["sweep_tie", "sweep_keeps_exactly_black", "mark_roots_tie", "trace_references_tie", "collect_passes_are_the_model"]
# a captured variable is reachable for the collector through its cell only: while the cell is open the value lives in a stack slot, and a
# slot that leaves scope while its cell is still open is a value the program can reach and the collector cannot.  What the compiler emits
# when locals leave scope (end of a block, break, continue), proved of the bodies as read on this run: every captured slot is left through
# CloseUpvalue, innermost first, and break / continue discard before they jump (Props/FnsTie/ScopeEnd, Statements)
THEOREM_MODULES += ["Yarel.Props.FnsTie.ScopeEnd", "Yarel.Props.FnsTie.Statements"]
REQUIRED_THEOREMS += ["emit_scope_end_spec", "captured_slots_are_closed", "break_discards_before_jumping", "break_statement_skeleton",
                      "continue_statement_skeleton", "end_scope_skeleton"]
# the state the models abstract is all the state there is: the fields of the run-time structures, regenerated on every run, are the ones
# the models were written against (Props/StateInventory)
THEOREM_MODULES.append("Yarel.Props.StateInventory.state_of_heap")
REQUIRED_THEOREMS += ['state_of_heap']
# who writes the state the mechanism models are about: the set of write sites per group of fields, regenerated on every run (Props/StateWrites)
THEOREM_MODULES.append("Yarel.Props.StateWrites.writers_of_heap_accounting")
REQUIRED_THEOREMS += ['writers_of_heap_accounting']
USES_GEN = True
LEVEL = "proof"
ASSUMPTIONS = [
    "collector model Yarel/Model/Gc.lean transcribes memory.rs (tie: real collections replayed through it)",
    "per-type trace tables are re-extracted from /repo by xlate on every run (tie: traced-edge log)",
    "root discipline of vm.rs/core.rs (values held mid-operation) is NOT proved: covered by always-vs-never runs with quarantine",
    "exempt edges: targets of kind ObjString (rooted by the intern table), `class` fields of built-in object kinds (rooted by the class store), ObjClosure.module (rooted by Vm.modules)",
    "raw Open(*mut Value) cells are outside the schema (known finding F3)",
]
TRUSTED = ["xlate (syn-based extractor of GcManaged impls)"]

PROFILES = ["alloc", "closures", "classes", "exceptions", "fibers", "iteration", "data", "control", "expr", "typed", "typed-try"]


def uaf_signature(uaf):
    kinds = sorted(set(u.split(" via ")[0] for u in uaf))
    return "uaf: " + "; ".join(kinds)


def correspondence(ctx, model_ok=True):
    rng = ctx.rng.fork("c01")
    failures = []
    broken = []
    n_gen = 6000 if ctx.thorough else 800
    gen = progs.generated(rng, PROFILES, n_gen)
    probes = probes_gc.all_probes()
    scripts = progs.corpus_scripts()
    # scripts that exercise open ledger entries of other properties stay in: the two runs must still agree.
    corpus = progs.corpus_dir("C01")
    allp = corpus + [(n, s, m) for n, s, m in probes] + [(n, s, m) for n, s, m, _ in gen] + scripts
    stress, lines_a = progs.run_programs(ctx.runner, allp, {"gc": "always", "quarantine": 1}, tag="a")
    calm, _ = progs.run_programs(ctx.runner, allp, {"gc": "never"}, tag="n")
    differing = 0
    nontrivial = set()
    tags = {}
    for (name, src, mods), a, n, line in zip(allp, stress, calm, lines_a):
        ca, cn = progs.canon_step(a), progs.canon_step(n)
        uaf = a.get("uaf") if isinstance(a, dict) else None
        if isinstance(a, dict) and a.get("status") in ("ok", "err"):
            nontrivial.add(src)
        if uaf:
            failures.append({"what": "a swept object was used (collect at every allocation, quarantine)", "program": src,
                             "name": name, "events": uaf, "modules": {k: v for k, v in mods.items() if k in src},
                             "signature": uaf_signature(uaf), "failing_input": True})
        elif ca != cn:
            differing += 1
            sig = "schedule-dependent output"
            if ca[0] == "crash":
                sig = "collector crash %s" % ca[1][-12:]
            failures.append({"what": "output depends on whether the collector runs", "program": src, "name": name,
                             "always": ca, "never": cn, "modules": {k: v for k, v in mods.items() if k in src},
                             "signature": sig, "failing_input": True})
    # the same probes with collections at every allocation and NO quarantine: freed boxes are really freed and reused, so a write into a
    # swept object that does not go through a checked dereference (a borrow guard dropped late, F48) corrupts a live neighbour and shows
    # (the corpus of past failures is left out: it holds the replays of open findings, whose use of freed memory is then real)
    smallp = [(n, s, m) for n, s, m in probes]
    raw, _ = progs.run_programs(ctx.runner, smallp, {"gc": "always"}, tag="w")
    for (name, src, mods), a, n in zip(smallp, raw, calm[len(corpus):len(corpus) + len(smallp)]):
        ca, cn = progs.canon_step(a), progs.canon_step(n)
        if ca != cn:
            failures.append({"what": "output depends on whether the collector runs (collect at every allocation, freed memory reused)", "program": src, "name": name,
                             "always": ca, "never": cn, "modules": {k: v for k, v in mods.items() if k in src},
                             "signature": "schedule-dependent output (memory reused)", "failing_input": True})
    # volume under the paced schedule (the one optimised builds run): thousands of records of every kind kept through every kind of holder,
    # then verified; in the optimised build with its own pacing, and in the checked build (a collection at every allocation)
    pv = [(n, s_, {}) for n, s_ in probes_gc.paced_volume_programs(6000 if ctx.thorough else 4000)]
    runs = [("optimised build, paced", ctx.runner, {"gc": "default"})]
    try:
        runs.append(("checked build", ctx.build_runner("dev", ()), {"gc": "default"}))
    except Exception as e:
        broken.append("dev harness build failed: %s" % str(e)[-200:])
    for label, exe, mode in runs:
        todo = pv if label.startswith("optimised") else [(n, s_.replace("< 4000", "< 300").replace("< 6000", "< 300"), m) for n, s_, m in pv]
        vres, _ = progs.run_programs(exe, todo, mode, steps_budget=400000000, tag="v", timeout_per_batch=900)
        for (name, src, _), r in zip(todo, vres):
            c = progs.canon_step(r)
            if c[0] != "ok" or list(c[2]) != ["0"]:
                failures.append({"what": "records built and kept under the %s schedule were damaged (%s prints %s, expected ['0'])" % (label, name, str(c)[:160]),
                                 "program": src, "name": name, "build": label, "signature": "paced volume " + name.split(".")[1], "failing_input": True})
    # one interpreter fed a HISTORY of snippets (the REPL): runs that end in uncaught errors - in a function that had stored a closure over
    # its locals in a global, in a fiber several fibers deep whose callers are waiting, in a module body - followed by snippets that use what
    # the failed runs left behind; what a later snippet can still reach must be intact whatever the collector did in between
    from props import c15
    hrng = rng.fork("histories")
    hists = [c15.gen_history(hrng.fork("h%d" % i))[0] for i in range(1500 if ctx.thorough else 400)]
    hl = [vlib.case_line("h%d" % i, c15.steps_of(a), steps=2000000) for i, a in enumerate(hists)]
    h_always = vlib.run_real(ctx.runner, [l.replace(" steps=", " gc=always quarantine=1 steps=") for l in hl])
    h_never = vlib.run_real(ctx.runner, [l.replace(" steps=", " gc=never steps=") for l in hl])
    for a, xa, xn in zip(hists, h_always, h_never):
        oa, on = c15.observed(xa), c15.observed(xn)
        if oa is None or on is None:
            failures.append({"what": "the interpreter process died while running a history of snippets", "history": a,
                             "observed": str(xa if oa is None else xn)[:300], "signature": "history crash", "failing_input": True})
            continue
        uaf = [u for st in oa for u in (st.get("uaf") or [])]
        ca, cn = [progs.canon_step(st) for st in oa], [progs.canon_step(st) for st in on]
        if uaf:
            failures.append({"what": "a swept object was used while one interpreter ran a history of snippets (collect at every allocation, quarantine)",
                             "history": a, "events": uaf[:4], "signature": "history: " + uaf_signature(uaf), "failing_input": True})
        elif ca != cn:
            k = next((i for i, (x, y) in enumerate(zip(ca, cn)) if x != y), 0)
            failures.append({"what": "what a later snippet prints depends on whether the collector ran (snippet %d)" % k, "history": a,
                             "always": ca[k] if k < len(ca) else None, "never": cn[k] if k < len(cn) else None,
                             "signature": "history: schedule-dependent output", "failing_input": True})
    for _, _, _, tg in gen:
        for t in tg:
            tags[t] = tags.get(t, 0) + 1

    # (b) real collections through the Lean collector, (a) traced-edge log vs schema
    n_dump_progs = 900 if ctx.thorough else 40
    dump_progs = [(n, s, m) for n, s, m in probes][:n_dump_progs // 2] + [(n, s, m) for n, s, m, _ in gen[:n_dump_progs // 2]]
    dres, _ = progs.run_programs(ctx.runner, dump_progs, {"gc": "always", "dumpgc": 6 if ctx.thorough else 3}, tag="d")
    mlines = []
    meta = []
    observed_triples = set()
    strings_unrooted = 0
    modules_unrooted = 0
    for (name, src, mods), r in zip(dump_progs, dres):
        for d in (r.get("gcdumps") or []) if isinstance(r, dict) else []:
            objs = d["objects"]
            idx = {o[0]: i for i, o in enumerate(objs)}
            tname = {o[0]: o[1] for o in objs}
            # (the hook's type names live in a side table keyed by address; an entry can be stale when a block that held a string of an
            # EARLIER interpreter of this process is re-used by an object allocated through a path that does not record its type: such an
            # entry has another size than every string box, which all have one size)
            ssizes = [o[3] for o in objs if o[1].endswith("ObjString")]
            string_size = max(set(ssizes), key=ssizes.count) if ssizes else None
            for o in objs:
                if o[1].endswith("ObjString") and o[2] == 0 and o[3] == string_size:
                    strings_unrooted += 1
                if "ObjModule" in o[1] and o[2] == 0:
                    modules_unrooted += 1
            edges_m = {}
            edges_b = {}
            seen_body = set()
            # only the FIRST execution of each body of each parent defines its edge list
            body_runs = {}
            for (par, in_b, child, is_b) in d["calls"]:
                if par == 0:
                    continue
                observed_triples.add((short(tname.get(par, "?")), short(tname.get(child, "?")), "blacken" if in_b else "mark",
                                      "blacken" if is_b else "mark"))
            # reconstruct per-parent edge lists from the call log: a body execution of parent p is the maximal run of
            # calls with parent p between its entry and exit; calls are logged depth-first, so we re-walk with a stack
            edges = reconstruct_edges(d["calls"])
            toks = ["gc", str(len(objs))]
            for o in objs:
                toks += [";", "0", str(o[2]), str(o[3])]
            ok_graph = True
            for (par, in_b), lst in edges.items():
                if par not in idx:
                    ok_graph = False
                    continue
                for child, is_b in lst:
                    if child not in idx:
                        ok_graph = False
                        continue
                    op = "b" if is_b else "m"
                    toks += [";", "E", str(idx[par]), str(idx[child])] + ([op, "n"] if not in_b else ["n", op])
            if not ok_graph:
                broken.append("collection dump mentions an address that is not a heap object (%s)" % name)
                continue
            mlines.append(" ".join(toks))
            retained = sorted(idx[a] for a in d["retained"] if a in idx)
            meta.append((name, src, retained, d["bytes_freed"], len(objs), len(d["calls"])))
    compared = 0
    if model_ok and mlines:
        try:
            ans = vlib.run_model("gc", mlines)
            for a, (name, src, retained, freed, nobj, ncalls), ml in zip(ans, meta, mlines):
                exp = "retained " + " ".join(str(i) for i in retained) + (" " if retained else "") + "freed_bytes %d" % freed
                compared += 1
                if " ".join(a.split()) != " ".join(exp.split()):
                    failures.append({"what": "Lean collector and real collector retain different sets on a real heap",
                                     "program": src, "name": name, "model": a[:300], "real": exp[:300], "objects": nobj,
                                     "signature": "model-vs-real collector", "failing_input": False})
                    break
        except Exception as e:
            broken.append("model driver gc: %s" % e)
    if strings_unrooted:
        broken.append("exemption guard: %d string objects with no root at a collection" % strings_unrooted)
    if modules_unrooted:
        broken.append("exemption guard: %d module objects with no root at a collection" % modules_unrooted)

    # (a) schema vs observed trace calls
    facts_path = os.path.join(vlib.VERIF, "lean", "Yarel", "Gen", "facts.json")
    schema_note = "no generated schema yet"
    if os.path.exists(facts_path):
        facts = json.load(open(facts_path))
        allowed = schema_triples(facts)
        unexpected = sorted(t for t in observed_triples if t not in allowed)
        schema_note = {"observed_call_kinds": len(observed_triples), "allowed_by_schema": len(allowed),
                       "unexpected": unexpected[:10]}
        if unexpected:
            failures.append({"what": "the collector made trace calls the regenerated schema does not predict (translator misreads the code?)",
                             "unexpected": unexpected[:20], "signature": "schema-vs-trace", "failing_input": False})

    cov = {
        "evaluations": 2 * len(allp) + len(mlines) + 2 * len(hists), "snippet_histories": len(hists),
        "distinct_nontrivial": len(nontrivial),
        "rule": "programs = %d per-edge probes + %d generated (profiles %s) + %d repository scripts, each run with collection at every "
                "allocation (+quarantine, use-after-free monitor) and with no collection; non-trivial = distinct source that compiled and ran; "
                "plus real collections replayed through the Lean collector" % (len(probes), len(gen), ",".join(PROFILES), len(scripts)),
        "samples": [gen[0][1][:600], probes[3][1][:300]],
        "programs": len(allp),
        "collections_replayed_through_model": compared,
        "traces_validated_against_impl": compared,
        "schedule_dependent_outputs": differing,
        "generator_distribution": dict(sorted(tags.items(), key=lambda kv: -kv[1])[:40]),
        "schema_vs_trace": schema_note,
    }
    return {"failures": dedupe(failures), "coverage": cov, "broken": broken}


def short(t):
    t = t.replace("core::cell::RefCell<", "").replace(">", "")
    t = t.replace("yarel::object::", "").replace("yarel::chunk::", "")
    t = t.replace("ObjBoundMethod<ObjClosure", "ObjBoundMethod").replace("ObjBoundMethod<ObjNative", "ObjBoundNative")
    return t


def reconstruct_edges(calls):
    """calls: depth-first log [(parent, parent_in_blacken_body, child, blacken_called)]. Returns
    {(parent, in_blacken_body): [(child, blacken_called), ...]} from the FIRST execution of each body."""
    edges = {}
    done = set()
    # A body execution of parent p is recognisable because all its calls are logged between the call that entered p and the
    # next call whose parent is an ancestor.  The first execution of (p, body) is the first maximal group; later groups are
    # recognised by a repeated entry call ("child == p") in between.
    entered = {}   # (p, body) -> number of times entered so far
    last_entry = {}
    order = []
    for i, (par, in_b, child, is_b) in enumerate(calls):
        # a call on `child` enters child's body `is_b` iff it changes colour; we cannot see that, but a body execution
        # shows up as later calls with parent == child.  Count entries lazily:
        key = (par, in_b)
        if par == 0:
            continue
        edges.setdefault(key, [])
        order.append((key, child, is_b, i))
    # split each parent's calls into executions: a new execution starts when we see, after calls of this key, a call ON this
    # parent (child == par) that precedes further calls of the key.
    pos_calls_on = {}
    for i, (par, in_b, child, is_b) in enumerate(calls):
        pos_calls_on.setdefault((child, is_b), []).append(i)
    for key in edges:
        mine = [(c, b, i) for (k, c, b, i) in order if k == key]
        if not mine:
            continue
        entries = [i for i in pos_calls_on.get((key[0], key[1]), [])]
        # first execution = calls of this key located before the second entry call that is followed by calls of this key
        first = []
        start = mine[0][2]
        # entry calls after `start`
        later_entries = [e for e in entries if e > start]
        cut = None
        for e in later_entries:
            if any(i > e for (_, _, i) in mine):
                # calls of this key after a later entry: they may belong to a second execution only if the box changed colour
                # in between; be conservative: cut at the first later entry that is immediately followed by a call of this key
                nxt = [i for (_, _, i) in mine if i > e]
                if nxt and nxt[0] == e + 1:
                    cut = e
                    break
        for (c, b, i) in mine:
            if cut is None or i < cut:
                first.append((c, b))
        edges[key] = first
    return edges


def schema_triples(facts):
    """Allowed (parentKind, childKind, body, op) from the generated tables."""
    allowed = set()
    for k in facts.get("gc", {}).get("kinds", []):
        for body_name, key in (("mark", "mark_ops"), ("blacken", "blacken_ops")):
            for op in k.get(key, []):
                allowed.add((k["name"], op["target_name"], body_name, op["op"]))
    return allowed


def dedupe(failures):
    seen = {}
    for f in failures:
        key = f.get("signature", "") + "|" + f.get("what", "") + "|" + (f.get("name", "") if str(f.get("name", "")).startswith("corpus:") else "")
        seen.setdefault(key, f)
        seen[key]["occurrences"] = seen[key].get("occurrences", 0) + 1
    return list(seen.values())


def search(ctx, broken):
    """An obligation broke (a dropped trace line, a changed collector): run every probe + a large generated batch."""
    rng = ctx.rng.fork("c01-search")
    gen = progs.generated(rng, PROFILES, 1500)
    allp = probes_gc.all_probes() + [(n, s, m) for n, s, m, _ in gen]
    stress, _ = progs.run_programs(ctx.runner, allp, {"gc": "always", "quarantine": 1}, tag="s")
    calm, _ = progs.run_programs(ctx.runner, allp, {"gc": "never"}, tag="t")
    ledger_names = {n for k in vlib.known_findings("C01") if k.get("status") == "known" for n in k.get("only_names", [])}
    for (name, src, mods), a, n in zip(allp, stress, calm):
        uaf = a.get("uaf") if isinstance(a, dict) else None
        if uaf and name not in ledger_names:
            return [{"what": "a swept object was used", "program": src, "name": name, "events": uaf,
                     "modules": {k: v for k, v in mods.items() if k in src}, "failing_input": True}]
        if progs.canon_step(a) != progs.canon_step(n):
            return [{"what": "output depends on whether the collector runs", "program": src, "name": name,
                     "always": progs.canon_step(a), "never": progs.canon_step(n), "failing_input": True}]
    if any(t in b for b in broken for t in ("scope_end", "captured_slots", "break_", "continue_", "end_scope", "ScopeEnd", "Statements")):
        # the obligation about what the compiler emits when captured locals leave scope broke: a slot popped while its cell is open shows
        # in every schedule alike (the never-collect run is wrong too), so the failing input comes from the scoping programs and their
        # reference expectations (the C06 correspondence)
        from props import c06
        res = c06.correspondence(ctx, model_ok=True)
        for f in res.get("failures", []):
            if f.get("failing_input", True) and "program" in f:
                f = dict(f)
                f["delegate"] = "c06"
                f["what"] = "a captured variable left scope without its cell being closed (found by the scoping programs): " + str(f.get("what"))
                return [f]
    return []


def replay(ctx, payload):
    if payload.get("delegate") == "c06":
        from props import c06
        return c06.replay(ctx, payload)
    if "history" in payload:
        from props import c15
        l = vlib.case_line("replay", c15.steps_of(payload["history"]), steps=2000000)
        xa = vlib.run_real(ctx.runner, [l.replace(" steps=", " gc=always quarantine=1 steps=")])[0]
        xn = vlib.run_real(ctx.runner, [l.replace(" steps=", " gc=never steps=")])[0]
        oa, on = c15.observed(xa), c15.observed(xn)
        if oa is None or on is None:
            return False, "the interpreter process died: %s" % str(xa if oa is None else xn)[:300]
        uaf = [u for st in oa for u in (st.get("uaf") or [])]
        ca, cn = [progs.canon_step(st) for st in oa], [progs.canon_step(st) for st in on]
        return (not uaf and ca == cn), "always: %s\nnever: %s\nuaf: %s" % (ca, cn, uaf[:4])
    if "program" not in payload:
        return False, "nothing to replay: " + json.dumps(payload)[:400]
    p = [("replay", payload["program"], payload.get("modules", {}))]
    a, _ = progs.run_programs(ctx.runner, p, {"gc": "always", "quarantine": 1})
    n, _ = progs.run_programs(ctx.runner, p, {"gc": "never"})
    uaf = a[0].get("uaf") if isinstance(a[0], dict) else None
    ok = not uaf and progs.canon_step(a[0]) == progs.canon_step(n[0])
    return ok, "always: %s\nnever: %s\nuaf: %s" % (progs.canon_step(a[0]), progs.canon_step(n[0]), uaf)
